(* C03 / C06 at engine level, completeness half: an importer that works from the facts a package published (and
   the facts of that package's own dependencies) finds every flow that analysis of the whole constraint graph finds,
   and reaches the same verdicts on the sites it can see -- provided no controlled trigger of the publishing package
   is left pending (the side condition whose necessity is finding F15).

   Setting.  Package P has been run on (facts, annots, ts); up is the upstream snapshot, st the final state, fo the
   published increment.  D is everything the importer adds (its own triggers, annotations, other facts); it mentions
   sites of P only through exported symbols: every site of D is exported or unknown to P's map.
     CW = constraints of P  union  D                          (whole graph)
     CE = atoms of P's dependencies' facts ++ atoms of fo ++ D   (what the importer works from)                       *)
From Coq Require Import List Bool Arith PeanoNat Lia.
From NM Require Import Engine EngineSpec.
From NP Require Import EngineBasics EngineStep EngineSound EngineComplete EngineMain EngineOrder ExportProofs ExportConvex ModularProofs.
Import ListNotations.

(* ---------- monotonicity of the specification in the constraint system ---------- *)
Section Mono.
  Variables C C' : csys.
  Hypothesis Hb : forall a, In a (base C) -> In a (base C').
  Hypothesis Hk : forall ka, In ka (ctld C) -> In ka (ctld C').

  Lemma nilr_mono s : nilr C s -> nilr C' s.
  Proof.
    induction 1.
    - apply nr_src; auto.
    - apply nr_csrc with k; auto.
    - apply nr_edge with p t; auto.
    - apply nr_cedge with k p t; auto.
  Qed.
  Lemma act_mono a : act C a -> act C' a.
  Proof. intros [H|[k [H1 H2]]]; [left; auto | right; exists k; split; auto; now apply nilr_mono]. Qed.
  Lemma nonr_mono s : nonr C s -> nonr C' s.
  Proof.
    induction 1.
    - apply nn_snk. now apply act_mono.
    - apply nn_edge with c t; auto. now apply act_mono.
  Qed.
End Mono.

(* sites an atom / a constraint system mentions *)
Definition sites_of_atom (a : atom) : list site :=
  match a with ASrc s => [s] | ASnk s => [s] | AEdge p c _ => [p; c] | ADirect _ => [] end.
Definition sites_of (D : csys) : list site :=
  flat_map sites_of_atom (base D) ++ flat_map (fun ka => fst ka :: sites_of_atom (snd ka)) (ctld D).

Lemma sites_base D a s : In a (base D) -> In s (sites_of_atom a) -> In s (sites_of D).
Proof. intros Ha Hs. unfold sites_of. apply in_or_app. left. apply in_flat_map. eauto. Qed.
Lemma sites_ctld D k a s : In (k, a) (ctld D) -> s = k \/ In s (sites_of_atom a) -> In s (sites_of D).
Proof.
  intros Ha Hs. unfold sites_of. apply in_or_app. right. apply in_flat_map. exists (k, a). split; auto.
  cbn. destruct Hs; auto.
Qed.

(* ---------- what export_pairs keeps of an undetermined chosen site ---------- *)
Lemma export_pairs_out chosen up : forall m f x i o y t,
  export_pairs chosen up m = Some f -> In (x, Undet i o) m -> mem x chosen = true -> In (y, t) o ->
  (exists di do, In (x, Undet di do) f /\ In (y, t) do) \/
  (exists oi oo t', lookup up x = Some (Undet oi oo) /\ lookup oo y = Some t').
Proof.
  induction m as [|[k v] m IH]; intros f x i o y t Hf Hin Hm Hy; [destruct Hin|].
  cbn in Hf. destruct (export_pairs chosen up m) as [rest|] eqn:Er; [|discriminate].
  destruct Hin as [Hin|Hin].
  - inversion Hin; subst k v; clear Hin. rewrite Hm in Hf.
    destruct (lookup up x) as [[eo|oi oo]|] eqn:Eu.
    + cbn in Hf. discriminate.
    + cbn in Hf. destruct (lookup oo y) as [t'|] eqn:Ey.
      * right. exists oi, oo, t'. auto.
      * left. assert (Hd : In (y, t) (edges_diff o oo)).
        { unfold edges_diff. apply filter_In. split; auto. cbn. now rewrite Ey. }
        exists (edges_diff i oi), (edges_diff o oo). split; auto.
        destruct (edges_diff i oi); destruct (edges_diff o oo) eqn:Eo; try (destruct Hd; fail);
          inversion Hf; subst f; left; reflexivity.
    + inversion Hf; subst f. left. exists i, o. split; auto. left; reflexivity.
  - specialize (IH rest x i o y t eq_refl Hin Hm Hy).
    assert (Hrest : (exists di do, In (x, Undet di do) rest /\ In (y, t) do) ->
                    (exists di do, In (x, Undet di do) f /\ In (y, t) do)).
    { intros [di [do [H1 H2]]]. exists di, do. split; auto.
      destruct (mem k chosen); [|inversion Hf; subst; auto].
      destruct (lookup up k) as [uv|]; [|inversion Hf; subst; right; auto].
      destruct (val_diff v uv) as [[d|]|]; inversion Hf; subst; auto. right; auto. }
    destruct IH as [H|H]; auto.
Qed.

Lemma export_pairs_in chosen up : forall m f x i o y t,
  export_pairs chosen up m = Some f -> In (x, Undet i o) m -> mem x chosen = true -> In (y, t) i ->
  (exists di do, In (x, Undet di do) f /\ In (y, t) di) \/
  (exists oi oo t', lookup up x = Some (Undet oi oo) /\ lookup oi y = Some t').
Proof.
  induction m as [|[k v] m IH]; intros f x i o y t Hf Hin Hm Hy; [destruct Hin|].
  cbn in Hf. destruct (export_pairs chosen up m) as [rest|] eqn:Er; [|discriminate].
  destruct Hin as [Hin|Hin].
  - inversion Hin; subst k v; clear Hin. rewrite Hm in Hf.
    destruct (lookup up x) as [[eo|oi oo]|] eqn:Eu.
    + cbn in Hf. discriminate.
    + cbn in Hf. destruct (lookup oi y) as [t'|] eqn:Ey.
      * right. exists oi, oo, t'. auto.
      * left. assert (Hd : In (y, t) (edges_diff i oi)).
        { unfold edges_diff. apply filter_In. split; auto. cbn. now rewrite Ey. }
        exists (edges_diff i oi), (edges_diff o oo). split; auto.
        destruct (edges_diff i oi) eqn:Ei; [destruct Hd|].
        destruct (edges_diff o oo); inversion Hf; subst f; left; reflexivity.
    + inversion Hf; subst f. left. exists i, o. split; auto. left; reflexivity.
  - specialize (IH rest x i o y t eq_refl Hin Hm Hy).
    assert (Hrest : (exists di do, In (x, Undet di do) rest /\ In (y, t) di) ->
                    (exists di do, In (x, Undet di do) f /\ In (y, t) di)).
    { intros [di [do [H1 H2]]]. exists di, do. split; auto.
      destruct (mem k chosen); [|inversion Hf; subst; auto].
      destruct (lookup up k) as [uv|]; [|inversion Hf; subst; right; auto].
      destruct (val_diff v uv) as [[d|]|]; inversion Hf; subst; auto. right; auto. }
    destruct IH as [H|H]; auto.
Qed.

Lemma atoms_fact_out (f : fact) x di do y t : In (x, Undet di do) f -> In (y, t) do -> In (AEdge x y t) (atoms_of_fact f).
Proof.
  intros H1 H2. unfold atoms_of_fact. apply in_flat_map. exists (x, Undet di do). split; auto.
  cbn. apply in_or_app. left. apply in_map_iff. exists (y, t). auto.
Qed.
Lemma atoms_fact_in (f : fact) x di do y t : In (x, Undet di do) f -> In (y, t) di -> In (AEdge y x t) (atoms_of_fact f).
Proof.
  intros H1 H2. unfold atoms_of_fact. apply in_flat_map. exists (x, Undet di do). split; auto.
  cbn. apply in_or_app. right. apply in_map_iff. exists (y, t). auto.
Qed.
Lemma atoms_fact_det (f : fact) s e : In (s, Det e) f -> In (if eval_expl e then ASrc s else ASnk s) (atoms_of_fact f).
Proof.
  intros H. unfold atoms_of_fact. apply in_flat_map. exists (s, Det e). split; auto.
  cbn. destruct (eval_expl e); left; reflexivity.
Qed.

Lemma lookup_not_None_ex {A} (l : list (site * A)) k : lookup l k <> None -> exists v, In (k, v) l.
Proof. intros H. destruct (lookup l k) as [v|] eqn:E; [|congruence]. exists v. now apply lookup_Some_In. Qed.

(* the end of a conflict-free run: what an active edge constraint guarantees about the final state *)
Definition E1 (st : state) (p c : site) : Prop :=
  (dv st p = Some true -> dv st c = Some true) /\
  (dv st c = Some false -> dv st p = Some false) /\
  (dv st p = None -> dv st c = None -> stored st p c).

Lemma Hd_nil_E1 st p c t : Doomed st [] \/ Hd st [] (AEdge p c t) -> E1 st p c.
Proof.
  intros [H|[[t' [[] _]]|H]]; [exfalso; eapply Doomed_nil; eauto|].
  cbn in H. destruct H as [[t' []]|[K1 [K2 K3]]]. split; [|split]; [| |exact K3].
  - intros D. destruct (K1 D) as [H|H]; auto. exfalso; eapply pend_nil; eauto.
  - intros D. destruct (K2 D) as [H|H]; auto. exfalso; eapply pend_nil; eauto.
Qed.

Section ModComplete.
  Variable exported : site -> bool.
  Variables (facts : list (nat * fact)) (annots : list (site * bool)) (ts : list trigger).
  Variables (up : list (site * ival)) (st : state) (fo : option fact).
  Variable D : csys.

  Let C1 := pkg_csys facts annots ts.
  Let m := mp st.

  Hypothesis HR : pkg_run_up facts annots ts up st.
  Hypothesis HE : export exported up (mp st) = Some fo.
  Hypothesis Hc : conflicts st = [].

  (* the importer names sites of this package only through exported symbols *)
  Definition vis (s : site) : Prop := exported s = true \/ lookup (mp st) s = None.
  Hypothesis HD : forall s, In s (sites_of D) -> vis s.

  (* no controlled trigger is left pending: every controlling site has a verdict at the end of the run *)
  Hypothesis Hctl : forall k a, In (k, a) (ctld C1) -> dv st k <> None.

  Definition Uat : list atom := flat_map atoms_of_fact (map snd facts).
  Definition Eat : list atom := match fo with Some f => atoms_of_fact f | None => [] end.
  Definition CU : csys := {| base := Uat; ctld := [] |}.
  Definition CEx : csys := {| base := Uat ++ Eat ++ base D; ctld := ctld D |}.
  Definition CWh : csys := csys_union C1 D.
  Definition Flow : Prop := has_flow CEx.

  (* ----- invariants of the run ----- *)
  Lemma HG : AllH C1 st [].
  Proof. exact (pkg_Good _ _ _ _ (pkg_run_up_run _ _ _ _ _ HR) Hc). Qed.
  Lemma HJ : J C1 st [].
  Proof. exact (pkg_J _ _ _ _ (pkg_run_up_run _ _ _ _ _ HR)). Qed.
  Lemma Hnd : NoDup (map fst (mp st)).
  Proof. eapply pkg_run_nodup; eauto. Qed.

  Lemma up_J' : exists st0, up = mp st0 /\ J CU st0 [].
  Proof.
    destruct HR as [st0 [st1 [RA [Hup _]]]]. exists st0. split; auto.
    assert (JA : J CU init_state (upstream_items facts)).
    { constructor; cbn; try (intros; contradiction); try discriminate.
      - intros s e H. destruct (upstream_items_inv _ _ H) as [rk [f [Hf Ha]]].
        apply j_leaf. left. cbn. unfold Uat. apply in_flat_map. exists f. split; auto.
        apply in_map_iff. exists (rk, f). auto.
      - intros t a H. destruct (upstream_items_inv _ _ H) as [rk [f [Hf []]]].
      - intros p c t H. destruct (upstream_items_inv _ _ H) as [rk [f [Hf Ha]]].
        left. cbn. unfold Uat. apply in_flat_map. exists f. split; auto.
        apply in_map_iff. exists (rk, f). auto. }
    exact (J_run _ _ _ _ RA JA).
  Qed.

  Lemma CU_sub_CE_b a : In a (base CU) -> In a (base CEx).
  Proof. cbn. intros H. apply in_or_app. auto. Qed.
  Lemma CU_sub_CE_k ka : In ka (ctld CU) -> In ka (ctld CEx).
  Proof. intros []. Qed.

  Lemma Eat_in a : In a Eat -> In a (base CEx).
  Proof. intros H. cbn. apply in_or_app. right. apply in_or_app. auto. Qed.
  Lemma D_in a : In a (base D) -> In a (base CEx).
  Proof. intros H. cbn. apply in_or_app. right. apply in_or_app. auto. Qed.

  Lemma act_CU_base a : act CU a -> In a Uat.
  Proof. intros [H|[k [[] _]]]. exact H. Qed.

  (* ----- verdicts on exported sites reach the importer ----- *)
  Lemma kept_src s : exported s = true -> dv st s = Some true -> nilr CEx s.
  Proof.
    intros Hx Hd. rewrite dv_lookup in Hd.
    destruct (lookup (mp st) s) as [[e|i o]|] eqn:El; try discriminate. inversion Hd as [Hev].
    destruct (export_verdicts_kept exported facts annots ts up st fo s e HR HE Hx El) as [[f [e' [Hfo [Hl Heq]]]]|[e' [Hl Heq]]].
    - apply nr_src. apply Eat_in. unfold Eat. rewrite Hfo. apply lookup_Some_In in Hl. apply atoms_fact_det in Hl.
      rewrite Heq, Hev in Hl. exact Hl.
    - destruct up_J' as [st0 [Hup J0]]. subst up.
      assert (Hdl : det_l (mp st0) s = Some e') by (unfold det_l; now rewrite Hl).
      pose proof (just_reach _ _ _ (J1 _ _ _ J0 _ _ Hdl)) as R. rewrite Heq, Hev in R.
      eapply nilr_mono; [exact CU_sub_CE_b | exact CU_sub_CE_k | exact R].
  Qed.

  Lemma kept_snk s : exported s = true -> dv st s = Some false -> nonr CEx s.
  Proof.
    intros Hx Hd. rewrite dv_lookup in Hd.
    destruct (lookup (mp st) s) as [[e|i o]|] eqn:El; try discriminate. inversion Hd as [Hev].
    destruct (export_verdicts_kept exported facts annots ts up st fo s e HR HE Hx El) as [[f [e' [Hfo [Hl Heq]]]]|[e' [Hl Heq]]].
    - apply nn_snk. left. apply Eat_in. unfold Eat. rewrite Hfo. apply lookup_Some_In in Hl. apply atoms_fact_det in Hl.
      rewrite Heq, Hev in Hl. exact Hl.
    - destruct up_J' as [st0 [Hup J0]]. subst up.
      assert (Hdl : det_l (mp st0) s = Some e') by (unfold det_l; now rewrite Hl).
      pose proof (just_reach _ _ _ (J1 _ _ _ J0 _ _ Hdl)) as R. rewrite Heq, Hev in R.
      eapply nonr_mono; [exact CU_sub_CE_b | exact CU_sub_CE_k | exact R].
  Qed.

  Lemma vis_in_map s : vis s -> lookup (mp st) s <> None -> exported s = true.
  Proof. intros [H|H] Hl; [auto | congruence]. Qed.
  Lemma dv_in_map s b : dv st s = Some b -> lookup (mp st) s <> None.
  Proof. rewrite dv_lookup. destruct (lookup (mp st) s); congruence. Qed.

  Lemma vis_T s : vis s -> dv st s = Some true -> nilr CEx s.
  Proof. intros Hv Hd. apply kept_src; auto. eapply vis_in_map; eauto. eapply dv_in_map; eauto. Qed.
  Lemma vis_F s : vis s -> dv st s = Some false -> nonr CEx s.
  Proof. intros Hv Hd. apply kept_snk; auto. eapply vis_in_map; eauto. eapply dv_in_map; eauto. Qed.

  (* ----- edges of chosen sites reach the importer ----- *)
  Definition elink (x y : site) : Prop := exists t, In (AEdge x y t) (base CEx).

  Lemma export_pairs_of : exists l, export_pairs (choose_sites_to_export exported (mp st)) up (mp st) = Some l /\
                                    forall a, In a (atoms_of_fact l) -> In a Eat.
  Proof.
    unfold export in HE. destruct (mp st) as [|kv m'] eqn:Em.
    - exists []. split; auto. intros a [].
    - rewrite <- Em in *.
      destruct (export_pairs (choose_sites_to_export exported (mp st)) up (mp st)) as [l|] eqn:Ep; [|discriminate].
      exists l. split; auto. intros a Ha. unfold Eat.
      destruct l as [|x l]; [destruct Ha|]. inversion HE; subst fo. exact Ha.
  Qed.

  Lemma chosen_out x y : In x (choose_sites_to_export exported (mp st)) -> stored st x y -> elink x y.
  Proof.
    intros Hch [Ho _]. apply lookup_not_None_ex in Ho. destruct Ho as [t Ho].
    unfold outs_l in Ho. destruct (lookup (mp st) x) as [[e|i o]|] eqn:El; try destruct Ho.
    destruct export_pairs_of as [l [Ep Hl]].
    apply lookup_Some_In in El. apply mem_In in Hch.
    destruct (export_pairs_out _ _ _ _ _ _ _ _ _ Ep El Hch Ho) as [[di [do [H1 H2]]]|[oi [oo [t' [H1 H2]]]]].
    - exists t. apply Eat_in. apply Hl. eapply atoms_fact_out; eauto.
    - destruct up_J' as [st0 [Hup J0]]. subst up. exists t'. apply CU_sub_CE_b. apply act_CU_base.
      apply (J5o _ _ _ J0). unfold outs_l. rewrite H1. now apply lookup_Some_In.
  Qed.

  Lemma chosen_in x y : In y (choose_sites_to_export exported (mp st)) -> stored st x y -> elink x y.
  Proof.
    intros Hch [_ Hi]. apply lookup_not_None_ex in Hi. destruct Hi as [t Hi].
    unfold ins_l in Hi. destruct (lookup (mp st) y) as [[e|i o]|] eqn:El; try destruct Hi.
    destruct export_pairs_of as [l [Ep Hl]].
    apply lookup_Some_In in El. apply mem_In in Hch.
    destruct (export_pairs_in _ _ _ _ _ _ _ _ _ Ep El Hch Hi) as [[di [do [H1 H2]]]|[oi [oo [t' [H1 H2]]]]].
    - exists t. apply Eat_in. apply Hl. eapply atoms_fact_in; eauto.
    - destruct up_J' as [st0 [Hup J0]]. subst up. exists t'. apply CU_sub_CE_b. apply act_CU_base.
      apply (J5i _ _ _ J0). unfold ins_l. rewrite H1. now apply lookup_Some_In.
  Qed.

  Lemma elink_nilr x y : elink x y -> nilr CEx x -> nilr CEx y.
  Proof. intros [t H] Hx. eapply nr_edge; eauto. Qed.
  Lemma elink_nonr x y : elink x y -> nonr CEx y -> nonr CEx x.
  Proof. intros [t H] Hy. eapply nn_edge; eauto. left; eauto. Qed.

  (* ----- inner sites, paths of stored edges through them ----- *)
  Notation inn := (inner exported (mp st)).
  Definition rootS (r : site) : Prop := In r (map fst (mp st)) /\ exported r = true.

  Lemma stored_outs x y : stored st x y -> In y (outs_of (mp st) x).
  Proof.
    intros [Ho _]. apply lookup_not_None_ex in Ho. destruct Ho as [t Ho]. unfold outs_of, outs_l in *.
    destruct (lookup (mp st) x) as [[e|i o]|]; try destruct Ho. apply in_map_iff. exists (y, t). auto.
  Qed.
  Lemma stored_ins x y : stored st x y -> In x (ins_of (mp st) y).
  Proof.
    intros [_ Hi]. apply lookup_not_None_ex in Hi. destruct Hi as [t Hi]. unfold ins_of, ins_l in *.
    destruct (lookup (mp st) y) as [[e|i o]|]; try destruct Hi. apply in_map_iff. exists (x, t). auto.
  Qed.

  (* inner sites reachable forward from an exported site the importer knows to be nilable *)
  Inductive NF : site -> Prop :=
    | NF_root r s : rootS r -> nilr CEx r -> stored st r s -> inn s = true -> NF s
    | NF_step x s : NF x -> stored st x s -> inn s = true -> NF s.
  (* inner sites that reach an exported site the importer knows to be required non-nil *)
  Inductive NB : site -> Prop :=
    | NB_root r s : rootS r -> nonr CEx r -> stored st s r -> inn s = true -> NB s
    | NB_step x s : NB x -> stored st s x -> inn s = true -> NB s.

  Lemma NF_inn s : NF s -> inn s = true.
  Proof. destruct 1; auto. Qed.
  Lemma NB_inn s : NB s -> inn s = true.
  Proof. destruct 1; auto. Qed.
  Lemma NF_FR s : NF s -> FR exported (mp st) s.
  Proof.
    induction 1 as [r s Hr _ Hs Hi | x s _ IH Hs Hi].
    - eapply FR_root; eauto. now apply stored_outs.
    - eapply FR_step; eauto. now apply stored_outs.
  Qed.
  Lemma NB_BR s : NB s -> BR exported (mp st) s.
  Proof.
    induction 1 as [r s Hr _ Hs Hi | x s _ IH Hs Hi].
    - eapply BR_root; eauto. now apply stored_ins.
    - eapply BR_step; eauto. now apply stored_ins.
  Qed.

  Lemma root_chosen r : rootS r -> In r (choose_sites_to_export exported (mp st)).
  Proof. intros [H1 H2]. now apply choose_exported. Qed.

  Lemma NF_nilr s : NF s -> BR exported (mp st) s -> nilr CEx s.
  Proof.
    induction 1 as [r s Hr Hn Hs Hi | x s Hx IH Hs Hi]; intros Hb.
    - eapply elink_nilr; eauto. apply chosen_out; auto. now apply root_chosen.
    - assert (Hbx : BR exported (mp st) x).
      { eapply BR_step; eauto. now apply stored_ins. now apply NF_inn. }
      eapply elink_nilr; [|exact (IH Hbx)]. apply chosen_out; auto.
      apply choose_convex; [now apply NF_inn|]. split; auto. now apply NF_FR.
  Qed.
  Lemma NB_nonr s : NB s -> FR exported (mp st) s -> nonr CEx s.
  Proof.
    induction 1 as [r s Hr Hn Hs Hi | x s Hx IH Hs Hi]; intros Hf.
    - eapply elink_nonr; eauto. apply chosen_in; auto. now apply root_chosen.
    - assert (Hfx : FR exported (mp st) x).
      { eapply FR_step; eauto. now apply stored_outs. now apply NB_inn. }
      eapply elink_nonr; [|exact (IH Hfx)]. apply chosen_in; auto.
      apply choose_convex; [now apply NB_inn|]. split; auto. now apply NB_BR.
  Qed.

  Lemma inn_facts s : inn s = true -> exported s = false /\ dv st s = None /\ lookup (mp st) s <> None.
  Proof.
    unfold inner, is_undet. rewrite andb_true_iff, negb_true_iff, dv_lookup.
    destruct (lookup (mp st) s) as [[e|i o]|]; intros [H1 H2]; try discriminate. repeat split; auto. discriminate.
  Qed.
  Lemma vis_not_inn s : vis s -> inn s = true -> False.
  Proof. intros [H|H] Hi; destruct (inn_facts _ Hi) as [H1 [_ H3]]; congruence. Qed.

  Lemma stored_map x y : stored st x y -> lookup (mp st) x <> None /\ lookup (mp st) y <> None /\ dv st x = None /\ dv st y = None.
  Proof.
    intros H. destruct (stored_lookup_undet _ _ _ H) as [[i [o H1]] [i' [o' H2]]].
    rewrite !dv_lookup, H1, H2. repeat split; auto; discriminate.
  Qed.
  Lemma undet_inn_or_exp s : lookup (mp st) s <> None -> dv st s = None -> exported s = true \/ inn s = true.
  Proof.
    rewrite dv_lookup. unfold inner, is_undet. destruct (lookup (mp st) s) as [[e|i o]|]; try congruence; intros _ _.
    destruct (exported s); auto.
  Qed.
  Lemma root_of s : lookup (mp st) s <> None -> exported s = true -> rootS s.
  Proof.
    intros Hl Hx. split; auto. destruct (lookup (mp st) s) eqn:E; [|congruence]. eapply lookup_In_fst; eauto.
  Qed.

  (* ----- the two transfer invariants ----- *)
  Definition RA (s : site) : Prop := Flow \/ (vis s /\ nilr CEx s) \/ dv st s = Some true \/ NF s.
  Definition RB (s : site) : Prop := Flow \/ (vis s /\ nonr CEx s) \/ dv st s = Some false \/ NB s.

  Lemma RA_vis s : vis s -> RA s -> Flow \/ nilr CEx s.
  Proof.
    intros Hv [H|[[_ H]|[H|H]]]; auto.
    - right. now apply vis_T.
    - exfalso. eapply vis_not_inn; eauto. now apply NF_inn.
  Qed.
  Lemma RB_vis s : vis s -> RB s -> Flow \/ nonr CEx s.
  Proof.
    intros Hv [H|[[_ H]|[H|H]]]; auto.
    - right. now apply vis_F.
    - exfalso. eapply vis_not_inn; eauto. now apply NB_inn.
  Qed.

  Lemma flow_at s : nilr CEx s -> nonr CEx s -> Flow.
  Proof. intros H1 H2. right. eauto. Qed.

  (* a site known nilable to the importer that this package determined non-nil: the importer sees the conflict *)
  Lemma RA_F s : RA s -> dv st s = Some false -> Flow.
  Proof.
    intros [H|[[Hv H]|[H|H]]] Hd; auto.
    - eapply flow_at; eauto. now apply vis_F.
    - congruence.
    - destruct (inn_facts _ (NF_inn _ H)) as [_ [H2 _]]. congruence.
  Qed.
  Lemma RB_T s : RB s -> dv st s = Some true -> Flow.
  Proof.
    intros [H|[[Hv H]|[H|H]]] Hd; auto.
    - eapply flow_at; eauto. now apply vis_T.
    - congruence.
    - destruct (inn_facts _ (NB_inn _ H)) as [_ [H2 _]]. congruence.
  Qed.

  (* an active edge constraint of this package carries nilability forward ... *)
  Lemma RA_edge p c : E1 st p c -> RA p -> RA c.
  Proof.
    intros [K1 [K2 K3]] Hp.
    destruct (dv st c) as [[|]|] eqn:Dc.
    - right; right; left; exact Dc.
    - left. eapply RA_F; eauto.
    - destruct (dv st p) as [[|]|] eqn:Dp.
      + specialize (K1 eq_refl). discriminate.
      + left. eapply RA_F; eauto.
      + specialize (K3 eq_refl eq_refl). destruct (stored_map _ _ K3) as [Lp [Lc _]].
        destruct Hp as [H|[[Hv Hn]|[H|H]]]; [left; exact H| | congruence |].
        * (* p is an exported site the importer knows to be nilable *)
          assert (Rp : rootS p) by (apply root_of; auto; eapply vis_in_map; eauto).
          destruct (undet_inn_or_exp c Lc Dc) as [Hx|Hi].
          -- right; left. split; [left; auto|]. eapply elink_nilr; eauto. apply chosen_out; auto. now apply root_chosen.
          -- right; right; right. eapply NF_root; eauto.
        * destruct (undet_inn_or_exp c Lc Dc) as [Hx|Hi].
          -- assert (Hb : BR exported (mp st) p).
             { eapply BR_root; [apply (root_of c); auto | now apply stored_ins | now apply NF_inn]. }
             right; left. split; [left; auto|]. eapply elink_nilr; [|exact (NF_nilr _ H Hb)].
             apply chosen_out; auto. apply choose_convex; [now apply NF_inn|]. split; auto. now apply NF_FR.
          -- right; right; right. eapply NF_step; eauto.
  Qed.
  (* ... and non-nil requirements backward *)
  Lemma RB_edge p c : E1 st p c -> RB c -> RB p.
  Proof.
    intros [K1 [K2 K3]] Hq.
    destruct (dv st p) as [[|]|] eqn:Dp.
    - left. eapply RB_T; eauto.
    - right; right; left; exact Dp.
    - destruct (dv st c) as [[|]|] eqn:Dc.
      + left. eapply RB_T; eauto.
      + specialize (K2 eq_refl). discriminate.
      + specialize (K3 eq_refl eq_refl). destruct (stored_map _ _ K3) as [Lp [Lc _]].
        destruct Hq as [H|[[Hv Hn]|[H|H]]]; [left; exact H| | congruence |].
        * assert (Rc : rootS c) by (apply root_of; auto; eapply vis_in_map; eauto).
          destruct (undet_inn_or_exp p Lp Dp) as [Hx|Hi].
          -- right; left. split; [left; auto|]. eapply elink_nonr; eauto. apply chosen_in; auto. now apply root_chosen.
          -- right; right; right. eapply NB_root; eauto.
        * destruct (undet_inn_or_exp p Lp Dp) as [Hx|Hi].
          -- assert (Hf : FR exported (mp st) c).
             { eapply FR_root; [apply (root_of p); auto | now apply stored_outs | now apply NB_inn]. }
             right; left. split; [left; auto|]. eapply elink_nonr; [|exact (NB_nonr _ H Hf)].
             apply chosen_in; auto. apply choose_convex; [now apply NB_inn|]. split; auto. now apply NB_BR.
          -- right; right; right. eapply NB_step; eauto.
  Qed.

  (* controlling sites of this package: known nilable on the whole graph means activated here, or a visible conflict *)
  Lemma ctl_active k a : In (k, a) (ctld C1) -> RA k -> Flow \/ dv st k = Some true.
  Proof.
    intros Hin Hk. destruct (dv st k) as [[|]|] eqn:Dk; auto.
    - left. eapply RA_F; eauto.
    - exfalso. eapply Hctl; eauto.
  Qed.

  Lemma base_split a : In a (base CWh) -> In a (base C1) \/ In a (base D).
  Proof. cbn. apply in_app_or. Qed.
  Lemma ctld_split ka : In ka (ctld CWh) -> In ka (ctld C1) \/ In ka (ctld D).
  Proof. cbn. apply in_app_or. Qed.

  Lemma C1_base_edge p c t : In (AEdge p c t) (base C1) -> E1 st p c.
  Proof. intros H. eapply Hd_nil_E1. apply (ah_base _ _ _ HG). exact H. Qed.
  Lemma C1_ctld_edge k p c t : In (k, AEdge p c t) (ctld C1) -> dv st k = Some true -> E1 st p c.
  Proof. intros H Hk. eapply Hd_nil_E1. eapply (ah_ctld _ _ _ HG); eauto. Qed.

  Theorem nilr_transfer s : nilr CWh s -> RA s.
  Proof.
    induction 1 as [s Hin | k s Hin Hk IHk | p c t Hin Hp IHp | k p c t Hin Hk IHk Hp IHp].
    - destruct (base_split _ Hin) as [H|H].
      + right; right; left. apply (Hd_nil_sat st (ASrc s)). apply (ah_base _ _ _ HG). exact H.
      + right; left. split; [apply HD; eapply sites_base; eauto; cbn; auto|]. apply nr_src. now apply D_in.
    - destruct (ctld_split _ Hin) as [H|H].
      + destruct (ctl_active _ _ H IHk) as [F|Dk]; [left; exact F|].
        right; right; left. apply (Hd_nil_sat st (ASrc s)). eapply (ah_ctld _ _ _ HG); eauto.
      + assert (Vk : vis k) by (apply HD; eapply sites_ctld; eauto).
        assert (Vs : vis s) by (apply HD; eapply sites_ctld; eauto; right; cbn; auto).
        destruct (RA_vis _ Vk IHk) as [F|Nk]; [left; exact F|].
        right; left. split; auto. apply nr_csrc with k; [exact H | exact Nk].
    - destruct (base_split _ Hin) as [H|H].
      + eapply RA_edge; eauto. eapply C1_base_edge; eauto.
      + assert (Vp : vis p) by (apply HD; eapply sites_base; eauto; cbn; auto).
        assert (Vc : vis c) by (apply HD; eapply sites_base; eauto; cbn; auto).
        destruct (RA_vis _ Vp IHp) as [F|Np]; [left; exact F|].
        right; left. split; auto. apply nr_edge with p t; [now apply D_in | exact Np].
    - destruct (ctld_split _ Hin) as [H|H].
      + destruct (ctl_active _ _ H IHk) as [F|Dk]; [left; exact F|].
        eapply RA_edge; eauto. eapply C1_ctld_edge; eauto.
      + assert (Vk : vis k) by (apply HD; eapply sites_ctld; eauto).
        assert (Vp : vis p) by (apply HD; eapply sites_ctld; eauto; right; cbn; auto).
        assert (Vc : vis c) by (apply HD; eapply sites_ctld; eauto; right; cbn; auto).
        destruct (RA_vis _ Vk IHk) as [F|Nk]; [left; exact F|].
        destruct (RA_vis _ Vp IHp) as [F|Np]; [left; exact F|].
        right; left. split; auto. apply nr_cedge with k p t; [exact H | exact Nk | exact Np].
  Qed.

  (* an atom active on the whole graph is: active for the importer (an atom of D), or satisfied at the end of this
     package's run (an atom of this package whose controller, if any, was activated) -- or a flow is visible *)
  Lemma act_transfer a : act CWh a ->
    Flow \/ (In a (base D) \/ exists k, In (k, a) (ctld D) /\ nilr CEx k) \/
    (In a (base C1) \/ exists k, In (k, a) (ctld C1) /\ dv st k = Some true).
  Proof.
    intros [Hin|[k [Hin Hk]]].
    - destruct (base_split _ Hin); auto.
    - apply nilr_transfer in Hk. destruct (ctld_split _ Hin) as [H|H].
      + destruct (ctl_active _ _ H Hk) as [F|Dk]; [left; exact F|]. right; right; right; eauto.
      + assert (Vk : vis k) by (apply HD; eapply sites_ctld; eauto).
        destruct (RA_vis _ Vk Hk) as [F|Nk]; [left; exact F|]. right; left; right; eauto.
  Qed.

  Theorem nonr_transfer s : nonr CWh s -> RB s.
  Proof.
    induction 1 as [s Ha | p c t Ha Hq IH].
    - destruct (act_transfer _ Ha) as [F|[[H|[k [H Hk]]]|[H|[k [H Hk]]]]]; [left; exact F| | | |].
      + right; left. split; [apply HD; eapply sites_base; eauto; cbn; auto|]. apply nn_snk. left. now apply D_in.
      + right; left. split; [apply HD; eapply sites_ctld; eauto; right; cbn; auto|]. apply nn_snk. right. eauto.
      + right; right; left. apply (Hd_nil_sat st (ASnk s)). apply (ah_base _ _ _ HG). exact H.
      + right; right; left. apply (Hd_nil_sat st (ASnk s)). eapply (ah_ctld _ _ _ HG); eauto.
    - destruct (act_transfer _ Ha) as [F|[[H|[k [H Hk]]]|[H|[k [H Hk]]]]]; [left; exact F| | | |].
      + assert (Vp : vis p) by (apply HD; eapply sites_base; eauto; cbn; auto).
        assert (Vc : vis c) by (apply HD; eapply sites_base; eauto; cbn; auto).
        destruct (RB_vis _ Vc IH) as [F|Nc]; [left; exact F|].
        right; left. split; auto. apply nn_edge with c t; [left; now apply D_in | exact Nc].
      + assert (Vp : vis p) by (apply HD; eapply sites_ctld; eauto; right; cbn; auto).
        assert (Vc : vis c) by (apply HD; eapply sites_ctld; eauto; right; cbn; auto).
        destruct (RB_vis _ Vc IH) as [F|Nc]; [left; exact F|].
        right; left. split; auto. apply nn_edge with c t; [right; exists k; split; [exact H | exact Hk] | exact Nc].
      + eapply RB_edge; eauto. eapply C1_base_edge; eauto.
      + eapply RB_edge; eauto. eapply C1_ctld_edge; eauto.
  Qed.

  (* ----- the theorems ----- *)
  Theorem modular_complete : has_flow CWh -> has_flow CEx.
  Proof.
    intros [[t Ha]|[s [Hn Hq]]].
    - destruct (act_transfer _ Ha) as [F|[[H|[k [H Hk]]]|[H|[k [H Hk]]]]]; [exact F| | | |].
      + left. exists t. left. now apply D_in.
      + left. exists t. right. eauto.
      + exfalso. apply (Hd_nil_sat st (ADirect t)). apply (ah_base _ _ _ HG). exact H.
      + exfalso. apply (Hd_nil_sat st (ADirect t)). eapply (ah_ctld _ _ _ HG); eauto.
    - apply nilr_transfer in Hn. apply nonr_transfer in Hq.
      destruct Hn as [F|[[Hv Hn]|[Hn|Hn]]]; [exact F| | |].
      + destruct (RB_vis _ Hv Hq) as [F|Hq']; [exact F|]. eapply flow_at; eauto.
      + eapply RB_T; eauto.
      + destruct Hq as [F|[[Hv Hq]|[Hq|Hq]]]; [exact F| | |].
        * exfalso. eapply vis_not_inn; eauto. now apply NF_inn.
        * destruct (inn_facts _ (NF_inn _ Hn)) as [_ [H2 _]]. congruence.
        * eapply flow_at; [apply NF_nilr; [exact Hn | now apply NB_BR] | apply NB_nonr; [exact Hq | now apply NF_FR]].
  Qed.

  (* verdicts of visible sites: what the whole graph makes nilable / non-nil, the importer does too (or it already
     sees a conflict) *)
  Theorem visible_nilable s : vis s -> nilr CWh s -> has_flow CEx \/ nilr CEx s.
  Proof. intros Hv Hn. apply RA_vis; auto. now apply nilr_transfer. Qed.
  Theorem visible_nonnil s : vis s -> nonr CWh s -> has_flow CEx \/ nonr CEx s.
  Proof. intros Hv Hn. apply RB_vis; auto. now apply nonr_transfer. Qed.
End ModComplete.

(* ---------- the same, between runs of the engine ---------- *)
Lemma analyze_pkg_run_up exported fuel facts annots ts r :
  analyze_pkg exported fuel facts annots ts = Finished r ->
  exists up st, pkg_run_up facts annots ts up st /\ r_conflicts r = conflicts st /\ r_map r = mp st /\
                export exported up (mp st) = Some (r_fact r).
Proof.
  unfold analyze_pkg.
  destruct (run fuel init_state (upstream_items facts)) as [st0|] eqn:R0; [|discriminate].
  destruct (run fuel st0 (annot_items annots)) as [st1|] eqn:R1; [|discriminate].
  destruct (observe_package fuel st1 ts) as [st2|] eqn:R2; [|discriminate].
  destruct (observe_package_run _ _ _ _ R2) as [st2' [RC [Em Ec]]].
  intros H. exists (mp st0), st2'. split.
  - exists st0, st1. repeat split; auto; eapply run_Run; eauto.
  - rewrite <- Em, <- Ec. destruct (export exported (mp st0) (mp st2)); inversion H; subst; cbn; auto.
Qed.

Definition opt_fact (n : nat) (fo : option fact) : list (nat * fact) :=
  match fo with Some f => [(n, f)] | None => [] end.

Lemma csys_of_app_equiv f1 a1 t1 f2 a2 t2 :
  csys_equiv (csys_of (f1 ++ f2) (a1 ++ a2) (t1 ++ t2)) (csys_union (csys_of f1 a1 t1) (csys_of f2 a2 t2)).
Proof.
  split.
  - intros a. unfold csys_of, csys_union; cbn. unfold atoms_of_annots.
    rewrite flat_map_app, map_app, filter_app, flat_map_app. rewrite !in_app_iff. tauto.
  - intros ka. unfold csys_of, csys_union; cbn. rewrite flat_map_app, in_app_iff. tauto.
Qed.

Section Runs.
  Variable exported : site -> bool.
  Variables (facts : list (nat * fact)) (annots : list (site * bool)) (ts : list trigger).
  Variables (up : list (site * ival)) (st : state) (fo : option fact).
  (* the importer's own annotations and triggers *)
  Variables (annD : list (site * bool)) (tsD : list trigger) (n : nat).
  Let D := csys_of [] annD tsD.

  Hypothesis HR : pkg_run_up facts annots ts up st.
  Hypothesis HE : export exported up (mp st) = Some fo.
  Hypothesis Hc : conflicts st = [].
  Hypothesis HD : forall s, In s (sites_of D) -> vis exported st s.
  Hypothesis Hctl : forall k a, In (k, a) (ctld (pkg_csys facts annots ts)) -> dv st k <> None.

  (* what the importer's engine is given: the dependencies' facts and this package's increment *)
  Lemma importer_equiv : csys_equiv (pkg_csys (facts ++ opt_fact n fo) annD tsD) (CEx facts fo D).
  Proof.
    unfold pkg_csys. split.
    - intros a. unfold csys_of, CEx, Uat, Eat, D, opt_fact; cbn.
      rewrite map_app, flat_map_app, !in_app_iff. destruct fo as [f|]; cbn; rewrite ?app_nil_r; tauto.
    - intros ka. reflexivity.
  Qed.
  Lemma whole_equiv : csys_equiv (pkg_csys facts (annots ++ annD) (ts ++ tsD)) (CWh facts annots ts D).
  Proof.
    unfold pkg_csys, CWh, D. rewrite <- (app_nil_r (map snd facts)) at 1. apply csys_of_app_equiv.
  Qed.

  Lemma summary_atoms_derivable a : In a (Uat facts ++ Eat fo) -> derivable (pkg_csys facts annots ts) a.
  Proof.
    intros Ha. apply in_app_or in Ha. destruct Ha as [Ha|Ha].
    - assert (Hb : In a (base (pkg_csys facts annots ts))) by (cbn; apply in_or_app; left; exact Ha).
      destruct a; cbn; try (left; exact Hb); [apply nr_src; exact Hb | apply nn_snk; left; exact Hb].
    - unfold Eat in Ha. destruct fo as [f|]; [|destruct Ha].
      eapply exported_fact_derivable; eauto.
  Qed.
  Lemma CEx_CE_equiv : csys_equiv (CEx facts fo D) (CE (Uat facts ++ Eat fo) D).
  Proof.
    split; [|intros ka; reflexivity]. intros a. unfold CEx, CE; cbn. rewrite !in_app_iff. tauto.
  Qed.

  (* one engine observing the whole graph reports a conflict iff the importer's engine does *)
  Theorem modular_equals_whole stW stI :
    pkg_run facts (annots ++ annD) (ts ++ tsD) stW ->
    pkg_run (facts ++ opt_fact n fo) annD tsD stI ->
    (conflicts stW <> [] <-> conflicts stI <> []).
  Proof.
    intros RW RI.
    rewrite (engine_conflict_iff_flow _ _ _ _ RW), (engine_conflict_iff_flow _ _ _ _ RI). split; intros H.
    - apply (has_flow_equiv _ _ (csys_equiv_sym _ _ importer_equiv)).
      eapply modular_complete; eauto.
      apply (has_flow_equiv _ _ whole_equiv). exact H.
    - apply (has_flow_equiv _ _ (csys_equiv_sym _ _ whole_equiv)).
      apply (has_flow_equiv _ _ importer_equiv) in H.
      apply (has_flow_equiv _ _ CEx_CE_equiv) in H.
      revert H. apply summary_sound. exact summary_atoms_derivable.
  Qed.

  (* and when neither reports a conflict, they agree on the verdict of every site the importer can see *)
  Theorem modular_verdicts_equal stW stI :
    pkg_run facts (annots ++ annD) (ts ++ tsD) stW ->
    pkg_run (facts ++ opt_fact n fo) annD tsD stI ->
    conflicts stI = [] ->
    forall s, vis exported st s -> dv stW s = dv stI s.
  Proof.
    intros RW RI HcI s Hv.
    assert (NFI : ~ has_flow (pkg_csys (facts ++ opt_fact n fo) annD tsD)).
    { intros F. apply (engine_conflict_iff_flow _ _ _ _ RI) in F. congruence. }
    assert (NFE : ~ has_flow (CEx facts fo D)).
    { intros F. apply NFI. apply (has_flow_equiv _ _ (csys_equiv_sym _ _ importer_equiv)). exact F. }
    assert (NFW : ~ has_flow (pkg_csys facts (annots ++ annD) (ts ++ tsD))).
    { intros F. apply NFE. eapply modular_complete; eauto. apply (has_flow_equiv _ _ whole_equiv). exact F. }
    destruct (engine_verdicts _ _ _ _ RW NFW s) as [VW1 VW2].
    destruct (engine_verdicts _ _ _ _ RI NFI s) as [VI1 VI2].
    assert (T1 : dv stW s = Some true -> dv stI s = Some true).
    { intros Hd. apply VI1. apply (nilr_equiv _ _ _ (csys_equiv_sym _ _ importer_equiv)).
      apply VW1 in Hd. apply (nilr_equiv _ _ _ whole_equiv) in Hd.
      destruct (visible_nilable exported facts annots ts up st fo D HR HE Hc HD Hctl s Hv Hd) as [F|N]; [contradiction|exact N]. }
    assert (F1 : dv stW s = Some false -> dv stI s = Some false).
    { intros Hd. apply VI2. apply (nonr_equiv _ _ _ (csys_equiv_sym _ _ importer_equiv)).
      apply VW2 in Hd. apply (nonr_equiv _ _ _ whole_equiv) in Hd.
      destruct (visible_nonnil exported facts annots ts up st fo D HR HE Hc HD Hctl s Hv Hd) as [F|N]; [contradiction|exact N]. }
    assert (T2 : dv stI s = Some true -> dv stW s = Some true).
    { intros Hd. apply VW1. apply (nilr_equiv _ _ _ (csys_equiv_sym _ _ whole_equiv)).
      apply VI1 in Hd. apply (nilr_equiv _ _ _ importer_equiv) in Hd. apply (nilr_equiv _ _ _ CEx_CE_equiv) in Hd.
      revert Hd. apply summary_nilr. exact summary_atoms_derivable. }
    assert (F2 : dv stI s = Some false -> dv stW s = Some false).
    { intros Hd. apply VW2. apply (nonr_equiv _ _ _ (csys_equiv_sym _ _ whole_equiv)).
      apply VI2 in Hd. apply (nonr_equiv _ _ _ importer_equiv) in Hd. apply (nonr_equiv _ _ _ CEx_CE_equiv) in Hd.
      revert Hd. apply summary_nonr. exact summary_atoms_derivable. }
    destruct (dv stW s) as [[|]|] eqn:EW; destruct (dv stI s) as [[|]|] eqn:EI; auto;
      try (specialize (T1 eq_refl); discriminate); try (specialize (F1 eq_refl); discriminate);
      try (specialize (T2 eq_refl); discriminate); try (specialize (F2 eq_refl); discriminate).
  Qed.
End Runs.

(* ---------- concrete instances ---------- *)
Definition mk_t id p c k := {| t_id := id; t_prod := p; t_cons := c; t_ctrl := k |}.

(* non-vacuity: exported sites 1 and 9, unexported 2 and 3; the package has 1 -> 2 -> 3 -> 9; the importer makes 1
   nilable and requires 9 to be non-nil.  Every hypothesis of the theorems holds and the flow is found both ways. *)
Definition exA_exported (s : site) : bool := Nat.eqb s 1 || Nat.eqb s 9.
Definition exA_ts : list trigger := [mk_t 10 (KCond 1) (KCond 2) None; mk_t 11 (KCond 2) (KCond 3) None; mk_t 12 (KCond 3) (KCond 9) None].
Definition exA_tsD : list trigger := [mk_t 20 KAlways (KCond 1) None; mk_t 21 (KCond 9) KAlways None].

Lemma exA_holds : exists up st fo stW stI,
  pkg_run_up [] [] exA_ts up st /\ export exA_exported up (mp st) = Some fo /\ conflicts st = [] /\
  (forall s, In s (sites_of (csys_of [] [] exA_tsD)) -> vis exA_exported st s) /\
  (forall k a, In (k, a) (ctld (pkg_csys [] [] exA_ts)) -> dv st k <> None) /\
  pkg_run [] ([] ++ []) (exA_ts ++ exA_tsD) stW /\ pkg_run ([] ++ opt_fact 0 fo) [] exA_tsD stI /\
  conflicts stW <> [] /\ conflicts stI <> [] /\
  (exists f, fo = Some f /\ lookup f 2 <> None /\ lookup f 3 <> None).
Proof.
  destruct (analyze_pkg exA_exported 100 [] [] exA_ts) as [|r|r] eqn:EP; try (vm_compute in EP; discriminate).
  destruct (analyze_pkg_run_up _ _ _ _ _ _ EP) as [up [st [HR [Hcf [Hm He]]]]].
  assert (Hr : r_conflicts r = [] /\ r_fact r = Some [(1, Undet [] [(2, 10)]); (2, Undet [(1, 10)] [(3, 11)]);
                                                       (3, Undet [(2, 11)] [(9, 12)]); (9, Undet [(3, 12)] [])]).
  { vm_compute in EP. inversion EP; subst r. split; reflexivity. }
  destruct Hr as [Hr1 Hr2].
  destruct (analyze_pkg exA_exported 100 [] [] (exA_ts ++ exA_tsD)) as [|rW|rW] eqn:EW; try (vm_compute in EW; discriminate).
  destruct (analyze_pkg_run _ _ _ _ _ _ (or_introl EW)) as [stW [RW [HcW _]]].
  destruct (analyze_pkg exA_exported 100 ([] ++ opt_fact 0 (r_fact r)) [] exA_tsD) as [|rI|rI] eqn:EI;
    try (rewrite Hr2 in EI; vm_compute in EI; discriminate).
  destruct (analyze_pkg_run _ _ _ _ _ _ (or_introl EI)) as [stI [RI [HcI _]]].
  exists up, st, (r_fact r), stW, stI.
  split; [exact HR|]. split; [exact He|]. split; [congruence|]. split; [|split; [|split; [exact RW|split; [exact RI|split; [|split]]]]].
  - intros s Hs. left. vm_compute in Hs. unfold exA_exported. intuition (subst; reflexivity).
  - intros k a [].
  - rewrite <- HcW. vm_compute in EW. inversion EW; subst rW. discriminate.
  - rewrite <- HcI. rewrite Hr2 in EI. vm_compute in EI. inversion EI; subst rI. discriminate.
  - rewrite Hr2. eexists; split; [reflexivity|]. split; discriminate.
Qed.

(* the side condition on controlled triggers cannot be dropped (finding F15): the package has  nil -> 1  guarded by
   site 3, and 2 -> 3; the importer makes 2 nilable and requires 1 to be non-nil.  The whole graph has the flow
   nil -> 2 -> 3, hence nil -> 1 -> non-nil; the published fact carries 2 -> 3 but not the pending guarded trigger,
   and the importer reports nothing.  All other hypotheses hold. *)
Definition exB_exported (s : site) : bool := true.
Definition exB_ts : list trigger := [mk_t 10 KAlways (KCond 1) (Some 3); mk_t 11 (KCond 2) (KCond 3) None].
Definition exB_tsD : list trigger := [mk_t 20 KAlways (KCond 2) None; mk_t 21 (KCond 1) KAlways None].

Lemma exB_refutes : exists up st fo stW stI,
  pkg_run_up [] [] exB_ts up st /\ export exB_exported up (mp st) = Some fo /\ conflicts st = [] /\
  (forall s, In s (sites_of (csys_of [] [] exB_tsD)) -> vis exB_exported st s) /\
  pkg_run [] ([] ++ []) (exB_ts ++ exB_tsD) stW /\ pkg_run ([] ++ opt_fact 0 fo) [] exB_tsD stI /\
  conflicts stW <> [] /\ conflicts stI = [] /\
  (exists k a, In (k, a) (ctld (pkg_csys [] [] exB_ts)) /\ dv st k = None).
Proof.
  destruct (analyze_pkg exB_exported 100 [] [] exB_ts) as [|r|r] eqn:EP; try (vm_compute in EP; discriminate).
  destruct (analyze_pkg_run_up _ _ _ _ _ _ EP) as [up [st [HR [Hcf [Hm He]]]]].
  assert (Hr : r_conflicts r = [] /\ r_fact r = Some [(2, Undet [] [(3, 11)]); (3, Undet [(2, 11)] [])] /\
               r_map r = [(2, Undet [] [(3, 11)]); (3, Undet [(2, 11)] [])]).
  { vm_compute in EP. inversion EP; subst r. repeat split; reflexivity. }
  destruct Hr as [Hr1 [Hr2 Hr3]].
  destruct (analyze_pkg exB_exported 100 [] [] (exB_ts ++ exB_tsD)) as [|rW|rW] eqn:EW; try (vm_compute in EW; discriminate).
  destruct (analyze_pkg_run _ _ _ _ _ _ (or_introl EW)) as [stW [RW [HcW _]]].
  destruct (analyze_pkg exB_exported 100 ([] ++ opt_fact 0 (r_fact r)) [] exB_tsD) as [|rI|rI] eqn:EI;
    try (rewrite Hr2 in EI; vm_compute in EI; discriminate).
  destruct (analyze_pkg_run _ _ _ _ _ _ (or_introl EI)) as [stI [RI [HcI _]]].
  exists up, st, (r_fact r), stW, stI.
  split; [exact HR|]. split; [exact He|]. split; [congruence|]. split; [|split; [exact RW|split; [exact RI|split; [|split]]]].
  - intros s Hs. left. reflexivity.
  - rewrite <- HcW. vm_compute in EW. inversion EW; subst rW. discriminate.
  - rewrite <- HcI. rewrite Hr2 in EI. vm_compute in EI. inversion EI; subst rI. reflexivity.
  - exists 3, (ASrc 1). split; [cbn; auto|]. rewrite dv_lookup, <- Hm, Hr3. reflexivity.
Qed.
