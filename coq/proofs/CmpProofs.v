From Coq Require Import ZArith Bool List Lia.
From NM Require Import Cmp.
From NG Require Import Tables.
Import ListNotations.
Open Scope Z_scope.

Definition conv := totalise converse_gen.
Definition inv := totalise inverse_gen.

Lemma tables_total : forall t, converse_gen t <> None /\ inverse_gen t <> None.
Proof. intros []; split; discriminate. Qed.

Lemma tables_closed : forall t, (exists u, converse_gen t = Some u) /\ (exists u, inverse_gen t = Some u).
Proof. intros []; split; eexists; reflexivity. Qed.

Lemma eval_converse : forall o a b, eval o a b = eval (conv o) b a.
Proof. intros [] a b; cbn; try reflexivity; rewrite Z.eqb_sym; reflexivity. Qed.

Lemma eval_inverse : forall o a b, eval o a b = negb (eval (inv o) a b).
Proof.
  intros [] a b; cbn; rewrite ?negb_involutive; try reflexivity;
  try (rewrite Z.ltb_antisym; rewrite ?negb_involutive; reflexivity);
  try (rewrite Z.leb_antisym; rewrite ?negb_involutive; reflexivity).
Qed.

Lemma conv_involutive : forall o, conv (conv o) = o.
Proof. intros []; reflexivity. Qed.
Lemma inv_involutive : forall o, inv (inv o) = o.
Proof. intros []; reflexivity. Qed.
Lemma conv_inv_commute : forall o, conv (inv o) = inv (conv o).
Proof. intros []; reflexivity. Qed.

Lemma shape_ok : tables_shape_ok = true.
Proof. reflexivity. Qed.

Lemma classes_known : forallb (fun ck => match ck_cls ck with ClsUnknown => false | _ => true end) checkers_gen = true.
Proof. reflexivity. Qed.

Definition apply := apply_checkers conv inv loop_gen checkers_gen.

(* Branch attribution: whenever the loop attaches the "non-nil" effect to a branch, then on that branch
   the subject really is non-nil, for every operator spelling and all operand values. *)
Lemma branch_attribution : forall binop x y t f s,
  operand_ok x -> operand_ok y ->
  apply binop x y = Some (t, f, s) ->
  (t = true -> eval binop (o_val x) (o_val y) = true -> subject_nonnil s) /\
  (f = true -> eval binop (o_val x) (o_val y) = false -> subject_nonnil s).
Proof.
  intros binop [kx vx] [ky vy] t f s Hx Hy H.
  unfold operand_ok, subject_nonnil in *; cbn [o_kind o_val] in *.
  destruct binop, kx, ky; vm_compute in H; try discriminate;
    injection H as <- <- <-; cbn [o_kind o_val eval]; split; intros E1 E2; try discriminate;
    try rewrite negb_true_iff in E2; try rewrite negb_false_iff in E2;
    repeat match goal with
    | H : (_ =? _) = true |- _ => apply Z.eqb_eq in H
    | H : (_ =? _) = false |- _ => apply Z.eqb_neq in H
    | H : (_ <? _) = true |- _ => apply Z.ltb_lt in H
    | H : (_ <? _) = false |- _ => apply Z.ltb_ge in H
    | H : (_ <=? _) = true |- _ => apply Z.leb_le in H
    | H : (_ <=? _) = false |- _ => apply Z.leb_gt in H
    end; try lia.
Qed.

(* Every way of writing the check is recognised, with the effect on the semantically right branch. *)
Definition ptr v := {| o_kind := OPtr; o_val := v |}.
Definition nil_lit := {| o_kind := ONilLit; o_val := 0 |}.
Definition len_of v := {| o_kind := OLen; o_val := v |}.
Definition zero_lit := {| o_kind := OZeroLit; o_val := 0 |}.

Lemma nil_spellings : forall v,
  apply NEQ (ptr v) nil_lit = Some (true, false, ptr v) /\
  apply NEQ nil_lit (ptr v) = Some (true, false, ptr v) /\
  apply EQL (ptr v) nil_lit = Some (false, true, ptr v) /\
  apply EQL nil_lit (ptr v) = Some (false, true, ptr v).
Proof. intros v; repeat split; reflexivity. Qed.

Lemma len_spellings : forall v,
  apply NEQ (len_of v) zero_lit = Some (true, false, len_of v) /\
  apply NEQ zero_lit (len_of v) = Some (true, false, len_of v) /\
  apply EQL (len_of v) zero_lit = Some (false, true, len_of v) /\
  apply EQL zero_lit (len_of v) = Some (false, true, len_of v) /\
  apply GTR (len_of v) zero_lit = Some (true, false, len_of v) /\
  apply LSS zero_lit (len_of v) = Some (true, false, len_of v) /\
  apply LEQ (len_of v) zero_lit = Some (false, true, len_of v) /\
  apply GEQ zero_lit (len_of v) = Some (false, true, len_of v).
Proof. intros v; repeat split; reflexivity. Qed.

(* non-vacuity: a concrete operand pair meets the hypotheses and fires *)
Example attribution_nonvacuous :
  operand_ok (ptr 7) /\ operand_ok nil_lit /\ apply NEQ nil_lit (ptr 7) = Some (true, false, ptr 7).
Proof. repeat split. Qed.

(* ---------------- the expression layer ---------------- *)
Definition checke := check conv inv not_swaps_gen loop_gen checkers_gen.
Definition flat := run_flat conv inv loop_gen checkers_gen.

Lemma not_swaps : not_swaps_gen = true.
Proof. reflexivity. Qed.

(* on a comparison of two atoms the expression layer is the atomic interpreter *)
Lemma check_atoms : forall o x y, checke (ECmp o (EOp x) (EOp y)) = apply o x y.
Proof. intros o [kx vx] [ky vy]; destruct o, kx, ky; reflexivity. Qed.

Definition sound_val (v : Z) (r : res) : Prop :=
  match r with
  | Some (t, f, s) => (t = true -> v = 1 -> subject_nonnil s) /\ (f = true -> v = 0 -> subject_nonnil s)
  | None => True
  end.

Definition shp_ok (sh : shape) (v : Z) : Prop :=
  match sh with
  | ShAtom k => operand_ok {| o_kind := k; o_val := v |}
  | ShBool b => v = b2z b
  | ShCond r => sound_val v r /\ (r <> None -> v = 0 \/ v = 1)
  end.

Ltac cmp_arith :=
  repeat match goal with
  | H : (_ =? _) = true |- _ => apply Z.eqb_eq in H
  | H : (_ =? _) = false |- _ => apply Z.eqb_neq in H
  | H : (_ <? _) = true |- _ => apply Z.ltb_lt in H
  | H : (_ <? _) = false |- _ => apply Z.ltb_ge in H
  | H : (_ <=? _) = true |- _ => apply Z.leb_le in H
  | H : (_ <=? _) = false |- _ => apply Z.leb_gt in H
  end.

(* one comparison, whatever sound results its operands have *)
Lemma flat_step : forall binop sa va sb vb,
  shp_ok sa va -> shp_ok sb vb ->
  sound_val (b2z (eval binop va vb)) (flat binop sa va sb vb).
Proof.
  intros binop sa va sb vb Ha Hb.
  destruct sa as [ka|ba|[[[ta fa] sa]|]], sb as [kb|bb|[[[tb fb] sb]|]];
    try destruct ka; try destruct kb; try destruct ba; try destruct bb; destruct binop;
    match goal with |- sound_val _ ?R => let r := fresh "r" in set (r := R); vm_compute in r; subst r end;
    try exact I.
  all: unfold shp_ok, sound_val, operand_ok, subject_nonnil in *; cbn [o_kind o_val b2z eval] in *.
  all: split; intros E1 E2; try discriminate;
    unfold b2z in E2; match type of E2 with (if ?c then _ else _) = _ => destruct c eqn:E3; try discriminate end;
    try rewrite negb_true_iff in E3; try rewrite negb_false_iff in E3; cmp_arith; try lia.
  all: repeat match goal with
       | H : (_ /\ _) /\ (Some _ <> None -> _) |- _ =>
           let Ht := fresh "Ht" in let Hf := fresh "Hf" in let Hv := fresh "Hv" in
           destruct H as [[Ht Hf] Hv]; specialize (Hv ltac:(discriminate))
       end.
  all: first [ apply Ht; [assumption|lia] | apply Hf; [assumption|lia] ].
Qed.

Lemma check_some_cond : forall e r, checke e = Some r -> is_cond e = true.
Proof. intros [x|b|e|o a b] r H; try discriminate; reflexivity. Qed.

Lemma ev_cond : forall e, is_cond e = true -> ev e = 0 \/ ev e = 1.
Proof.
  intros [x|b|e|o a b] H; try discriminate; cbn [ev].
  - destruct b; auto.
  - destruct (negb _); auto.
  - destruct (eval _ _ _); auto.
Qed.

Lemma shape_of_ok : forall e, wf_expr e -> sound_val (ev e) (checke e) -> shp_ok (shape_of e (checke e)) (ev e).
Proof.
  intros [[k v]|b|e|o a b] W S; cbn [shape_of shp_ok]; auto;
    (split; [exact S|]; intros N; apply ev_cond; reflexivity).
Qed.

(* Branch attribution for nested conditions: negations, comparisons with boolean constants, to any depth. *)
Lemma branch_attribution_nested : forall e t f s,
  wf_expr e -> checke e = Some (t, f, s) ->
  (t = true -> ev e = 1 -> subject_nonnil s) /\ (f = true -> ev e = 0 -> subject_nonnil s).
Proof.
  assert (G : forall e, wf_expr e -> sound_val (ev e) (checke e)).
  { induction e as [x|b|e IH|o a IHa b IHb]; intros W; try exact I.
    - unfold checke in *; cbn [check]; rewrite not_swaps. specialize (IH W).
      destruct (check _ _ _ _ _ e) as [[[t f] s]|] eqn:E; [|exact I].
      cbn [swap_res sound_val ev] in *. destruct IH as [Ht Hf].
      assert (C : ev e = 0 \/ ev e = 1) by (apply ev_cond; eapply check_some_cond; exact E).
      split; intros E1 E2; [apply Hf|apply Ht]; auto;
        destruct (ev e =? 1) eqn:E3; cbn in E2; try discriminate; cmp_arith; lia.
    - destruct W as [Wa Wb]. specialize (IHa Wa). specialize (IHb Wb).
      change (checke (ECmp o a b)) with (flat o (shape_of a (checke a)) (ev a) (shape_of b (checke b)) (ev b)).
      cbn [ev]. apply flat_step; apply shape_of_ok; assumption. }
  intros e t f s W H. specialize (G e W). rewrite H in G. exact G.
Qed.

Definition cmp o a b := ECmp o a b.
Definition atom x := EOp x.

(* every way of comparing a check with a boolean constant, in either operand order, and negations of it *)
Lemma bool_const_spellings : forall v,
  let c := cmp NEQ (atom (ptr v)) (atom nil_lit) in            (* p != nil *)
  checke (cmp EQL c (EBool true)) = Some (true, false, ptr v) /\
  checke (cmp EQL (EBool true) c) = Some (true, false, ptr v) /\
  checke (cmp NEQ c (EBool false)) = Some (true, false, ptr v) /\
  checke (cmp NEQ (EBool false) c) = Some (true, false, ptr v) /\
  checke (cmp EQL c (EBool false)) = Some (false, true, ptr v) /\
  checke (cmp NEQ (EBool true) c) = Some (false, true, ptr v) /\
  checke (ENot (cmp EQL c (EBool false))) = Some (true, false, ptr v) /\
  checke (cmp EQL (cmp NEQ (ENot c) (EBool true)) (EBool true)) = Some (true, false, ptr v).
Proof. intros v; repeat split; reflexivity. Qed.

Example nested_nonvacuous :
  wf_expr (cmp EQL (cmp EQL (atom nil_lit) (atom (ptr 7))) (EBool false)) /\
  checke (cmp EQL (cmp EQL (atom nil_lit) (atom (ptr 7))) (EBool false)) = Some (true, false, ptr 7) /\
  ev (cmp EQL (cmp EQL (atom nil_lit) (atom (ptr 7))) (EBool false)) = 1.
Proof. repeat split; cbn; auto. Qed.
