From Coq Require Import ZArith Bool List Lia.
From NM Require Import Cmp.
From NG Require Import Tables.
Import ListNotations.
Open Scope Z_scope.

Definition conv := totalise converse_gen.
Definition inv := totalise inverse_gen.

Lemma tables_total : forall t, converse_gen t <> None /\ inverse_gen t <> None.
Proof. intros []; split; discriminate. Qed.

Lemma tables_closed : forall t, (exists u, converse_gen t = Some u) /\ (exists u, inverse_gen t = Some u).
Proof. intros []; split; eexists; reflexivity. Qed.

Lemma eval_converse : forall o a b, eval o a b = eval (conv o) b a.
Proof. intros [] a b; cbn; try reflexivity; rewrite Z.eqb_sym; reflexivity. Qed.

Lemma eval_inverse : forall o a b, eval o a b = negb (eval (inv o) a b).
Proof.
  intros [] a b; cbn; rewrite ?negb_involutive; try reflexivity;
  try (rewrite Z.ltb_antisym; rewrite ?negb_involutive; reflexivity);
  try (rewrite Z.leb_antisym; rewrite ?negb_involutive; reflexivity).
Qed.

Lemma conv_involutive : forall o, conv (conv o) = o.
Proof. intros []; reflexivity. Qed.
Lemma inv_involutive : forall o, inv (inv o) = o.
Proof. intros []; reflexivity. Qed.
Lemma conv_inv_commute : forall o, conv (inv o) = inv (conv o).
Proof. intros []; reflexivity. Qed.

Lemma shape_ok : tables_shape_ok = true.
Proof. reflexivity. Qed.

Lemma classes_known : forallb (fun ck => match ck_cls ck with ClsUnknown => false | _ => true end) checkers_gen = true.
Proof. reflexivity. Qed.

Definition apply := apply_checkers conv inv loop_gen checkers_gen.

(* Branch attribution: whenever the loop attaches the "non-nil" effect to a branch, then on that branch
   the subject really is non-nil, for every operator spelling and all operand values. *)
Lemma branch_attribution : forall binop x y t f s,
  operand_ok x -> operand_ok y ->
  apply binop x y = Some (t, f, s) ->
  (t = true -> eval binop (o_val x) (o_val y) = true -> subject_nonnil s) /\
  (f = true -> eval binop (o_val x) (o_val y) = false -> subject_nonnil s).
Proof.
  intros binop [kx vx] [ky vy] t f s Hx Hy H.
  unfold operand_ok, subject_nonnil in *; cbn [o_kind o_val] in *.
  destruct binop, kx, ky; vm_compute in H; try discriminate;
    injection H as <- <- <-; cbn [o_kind o_val eval]; split; intros E1 E2; try discriminate;
    try rewrite negb_true_iff in E2; try rewrite negb_false_iff in E2;
    repeat match goal with
    | H : (_ =? _) = true |- _ => apply Z.eqb_eq in H
    | H : (_ =? _) = false |- _ => apply Z.eqb_neq in H
    | H : (_ <? _) = true |- _ => apply Z.ltb_lt in H
    | H : (_ <? _) = false |- _ => apply Z.ltb_ge in H
    | H : (_ <=? _) = true |- _ => apply Z.leb_le in H
    | H : (_ <=? _) = false |- _ => apply Z.leb_gt in H
    end; try lia.
Qed.

(* Every way of writing the check is recognised, with the effect on the semantically right branch. *)
Definition ptr v := {| o_kind := OPtr; o_val := v |}.
Definition nil_lit := {| o_kind := ONilLit; o_val := 0 |}.
Definition len_of v := {| o_kind := OLen; o_val := v |}.
Definition zero_lit := {| o_kind := OZeroLit; o_val := 0 |}.

Lemma nil_spellings : forall v,
  apply NEQ (ptr v) nil_lit = Some (true, false, ptr v) /\
  apply NEQ nil_lit (ptr v) = Some (true, false, ptr v) /\
  apply EQL (ptr v) nil_lit = Some (false, true, ptr v) /\
  apply EQL nil_lit (ptr v) = Some (false, true, ptr v).
Proof. intros v; repeat split; reflexivity. Qed.

Lemma len_spellings : forall v,
  apply NEQ (len_of v) zero_lit = Some (true, false, len_of v) /\
  apply NEQ zero_lit (len_of v) = Some (true, false, len_of v) /\
  apply EQL (len_of v) zero_lit = Some (false, true, len_of v) /\
  apply EQL zero_lit (len_of v) = Some (false, true, len_of v) /\
  apply GTR (len_of v) zero_lit = Some (true, false, len_of v) /\
  apply LSS zero_lit (len_of v) = Some (true, false, len_of v) /\
  apply LEQ (len_of v) zero_lit = Some (false, true, len_of v) /\
  apply GEQ zero_lit (len_of v) = Some (false, true, len_of v).
Proof. intros v; repeat split; reflexivity. Qed.

(* non-vacuity: a concrete operand pair meets the hypotheses and fires *)
Example attribution_nonvacuous :
  operand_ok (ptr 7) /\ operand_ok nil_lit /\ apply NEQ nil_lit (ptr 7) = Some (true, false, ptr 7).
Proof. repeat split. Qed.
