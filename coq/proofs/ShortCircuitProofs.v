From Coq Require Import List Bool Arith PeanoNat Lia.
From NM Require Import ShortCircuit.
Import ListNotations.

Section Sound.
  Variable nilv : nat -> bool.
  Variable orc : nat -> bool.
  Notation ev := (eval nilv orc).

  Lemma discharge_keeps : forall v c acc, In c acc -> fst c <> v -> In c (discharge v acc).
  Proof.
    intros v c acc H N. unfold discharge. apply filter_In. split; [exact H|].
    apply negb_true_iff, Nat.eqb_neq. exact N.
  Qed.

  Lemma discharge_sub : forall v c acc, In c (discharge v acc) -> In c acc.
  Proof. intros v c acc H. unfold discharge in H. apply filter_In in H. tauto. Qed.

  (* a conclusion is only drawn from an operand that evaluated accordingly: a consumer of a nil variable survives it *)
  Lemma apply_true_keeps : forall e c acc, conds_ok e -> ev e = Val true -> nilv (fst c) = true -> In c acc -> In c (apply_true e acc).
  Proof.
    intros e c acc K E N H. destruct e as [v k| | | |]; cbn [apply_true]; try exact H.
    destruct (c_t k) eqn:T; [|exact H].
    apply discharge_keeps; [exact H|]. intros Heq. rewrite Heq in N. cbn in E, K.
    injection E as E. apply (proj1 K T) in E. rewrite N in E. discriminate.
  Qed.

  Lemma apply_false_keeps : forall e c acc, conds_ok e -> ev e = Val false -> nilv (fst c) = true -> In c acc -> In c (apply_false e acc).
  Proof.
    intros e c acc K E N H. destruct e as [v k| | | |]; cbn [apply_false]; try exact H.
    destruct (c_f k) eqn:T; [|exact H].
    apply discharge_keeps; [exact H|]. intros Heq. rewrite Heq in N. cbn in E, K.
    injection E as E. apply (proj2 K T) in E. rewrite N in E. discriminate.
  Qed.

  (* an operand that panics is not a condition *)
  Lemma apply_true_panic : forall e l acc, ev e = Panic l -> apply_true e acc = acc.
  Proof. intros e l acc E; destruct e as [v k| | | |]; try reflexivity; discriminate. Qed.
  Lemma apply_false_panic : forall e l acc, ev e = Panic l -> apply_false e acc = acc.
  Proof. intros e l acc E; destruct e as [v k| | | |]; try reflexivity; discriminate. Qed.

  (* pure conjunction trees, in a scope that already holds the consumers of operands to their right *)
  Lemma pure_and_sound : forall x, pure_and x = true -> conds_ok x -> forall acc,
    (ev x = Val true -> forall c, In c acc -> nilv (fst c) = true -> In c (proc x acc)) /\
    (forall l, ev x = Panic l -> exists v, nilv v = true /\ In (v, l) (proc x acc)).
  Proof.
    induction x as [v k|i|v l0|x IHx y IHy|x _ y _]; intros P K acc; cbn [pure_and] in P; try discriminate.
    - split; [intros _ c H _; exact H|intros l E; discriminate].
    - split; [intros _ c H _; exact H|intros l E; discriminate].
    - split.
      + intros _ c H _. right. exact H.
      + intros l E. cbn in E. destruct (nilv v) eqn:N; [|discriminate]. injection E as <-.
        exists v. split; [exact N|left; reflexivity].
    - apply andb_true_iff in P. destruct P as [Px Py]. destruct K as [Kx Ky]. specialize (IHx Px Kx). specialize (IHy Py Ky).
      cbn [proc eval]. split.
      + intros E c H N. destruct (ev x) as [[|]|] eqn:Ex; try discriminate.
        apply (proj1 (IHx _) eq_refl); [|exact N].
        apply apply_true_keeps; [exact Kx|exact Ex|exact N|]. apply apply_true_keeps; [exact Ky|exact E|exact N|].
        apply (proj1 (IHy _) E); assumption.
      + intros l E. destruct (ev x) as [[|]|l'] eqn:Ex.
        * destruct (proj2 (IHy acc) l E) as [v [N H]]. exists v. split; [exact N|].
          apply (proj1 (IHx _) eq_refl); [|exact N].
          apply apply_true_keeps; [exact Kx|exact Ex|exact N|]. rewrite (apply_true_panic y l _ E). exact H.
        * discriminate.
        * injection E as <-. apply (proj2 (IHx _)). reflexivity.
  Qed.

  Lemma pure_or_sound : forall x, pure_or x = true -> conds_ok x -> forall acc,
    (ev x = Val false -> forall c, In c acc -> nilv (fst c) = true -> In c (proc x acc)) /\
    (forall l, ev x = Panic l -> exists v, nilv v = true /\ In (v, l) (proc x acc)).
  Proof.
    induction x as [v k|i|v l0|x _ y _|x IHx y IHy]; intros P K acc; cbn [pure_or] in P; try discriminate.
    - split; [intros _ c H _; exact H|intros l E; discriminate].
    - split; [intros _ c H _; exact H|intros l E; discriminate].
    - split.
      + intros _ c H _. right. exact H.
      + intros l E. cbn in E. destruct (nilv v) eqn:N; [|discriminate]. injection E as <-.
        exists v. split; [exact N|left; reflexivity].
    - apply andb_true_iff in P. destruct P as [Px Py]. destruct K as [Kx Ky]. specialize (IHx Px Kx). specialize (IHy Py Ky).
      cbn [proc eval]. split.
      + intros E c H N. destruct (ev x) as [[|]|] eqn:Ex; try discriminate.
        apply (proj1 (IHx _) eq_refl); [|exact N].
        apply apply_false_keeps; [exact Kx|exact Ex|exact N|]. apply apply_false_keeps; [exact Ky|exact E|exact N|].
        apply (proj1 (IHy _) E); assumption.
      + intros l E. destruct (ev x) as [[|]|l'] eqn:Ex.
        * discriminate.
        * destruct (proj2 (IHy acc) l E) as [v [N H]]. exists v. split; [exact N|].
          apply (proj1 (IHx _) eq_refl); [|exact N].
          apply apply_false_keeps; [exact Kx|exact Ex|exact N|]. rewrite (apply_false_panic y l _ E). exact H.
        * injection E as <-. apply (proj2 (IHx _)). reflexivity.
  Qed.

  (* the whole expression, in its fresh scope *)
  Theorem left_pure_sound : forall e, left_pure e = true -> conds_ok e ->
    forall l, ev e = Panic l -> exists v, nilv v = true /\ In (v, l) (proc e []).
  Proof.
    induction e as [v k|i|v l0|x _ y IHy|x _ y IHy]; intros P K l E; cbn [left_pure] in P.
    - discriminate.
    - discriminate.
    - cbn in E. destruct (nilv v) eqn:N; [|discriminate]. injection E as <-. exists v. split; [exact N|left; reflexivity].
    - apply andb_true_iff in P. destruct P as [Px Py]. destruct K as [Kx Ky]. cbn [proc eval] in *.
      destruct (ev x) as [[|]|l'] eqn:Ex.
      + destruct (IHy Py Ky l E) as [v [N H]]. exists v. split; [exact N|].
        apply (proj1 (pure_and_sound x Px Kx _) Ex); [|exact N].
        apply apply_true_keeps; [exact Kx|exact Ex|exact N|]. rewrite (apply_true_panic y l _ E). exact H.
      + discriminate.
      + injection E as <-. apply (proj2 (pure_and_sound x Px Kx _)). exact Ex.
    - apply andb_true_iff in P. destruct P as [Px Py]. destruct K as [Kx Ky]. cbn [proc eval] in *.
      destruct (ev x) as [[|]|l'] eqn:Ex.
      + discriminate.
      + destruct (IHy Py Ky l E) as [v [N H]]. exists v. split; [exact N|].
        apply (proj1 (pure_or_sound x Px Kx _) Ex); [|exact N].
        apply apply_false_keeps; [exact Kx|exact Ex|exact N|]. rewrite (apply_false_panic y l _ E). exact H.
      + injection E as <-. apply (proj2 (pure_or_sound x Px Kx _)). exact Ex.
  Qed.
End Sound.

(* every dereference that can panic is reported *)
Theorem short_circuit_sound : forall e nilv orc l,
  left_pure e = true -> conds_ok e -> eval nilv orc e = Panic l -> In l (reported e).
Proof.
  intros e nilv orc l P K E. destruct (left_pure_sound nilv orc e P K l E) as [v [_ H]].
  unfold reported. apply in_map_iff. exists (v, l). split; [reflexivity|exact H].
Qed.

(* the two atomic checks draw right conclusions *)
Lemma atomic_ok : forall eq, cond1_ok (atomic eq).
Proof. intros [|]; split; cbn; intros T n E; try discriminate; destruct n; auto; discriminate. Qed.

(* a nil check protects what it guards: the classic chains are silent *)
Example guarded_chain_silent :
  reported (SAnd (SAnd (SChk 0 false) (SDer 0 1)) (SDer 0 2)) = [] /\      (* p != nil && p.f == 1 && p.f == 2 *)
  reported (SOr (SChk 0 true) (SDer 0 1)) = [] /\                          (* p == nil || p.f == 1 *)
  reported (SAnd (SOpq 0) (SOr (SChk 0 true) (SDer 0 1))) = [] /\          (* c && (p == nil || p.f == 1): right-nested mix *)
  reported (SAnd (SOpq 0) (SDer 0 1)) = [1].                               (* c && p.f == 1 *)
Proof. repeat split. Qed.

(* outside the class the statement is false of the code (finding F104): the conclusion of a check nested in the LEFT operand
   of the other operator is applied to the right operand, which runs on the other outcome of the check as well *)
Definition f104a := SAnd (SOr (SChk 0 true) (SOpq 0)) (SDer 0 1).          (* (p == nil || c) && p.f == 1 *)
Definition f104b := SOr (SAnd (SChk 0 false) (SOpq 0)) (SDer 0 1).         (* (p != nil && c) || p.f == 1 *)
Theorem short_circuit_refuted_outside_class :
  (left_pure f104a = false /\ eval (fun _ => true) (fun _ => true) f104a = Panic 1 /\ reported f104a = []) /\
  (left_pure f104b = false /\ eval (fun _ => true) (fun _ => false) f104b = Panic 1 /\ reported f104b = []).
Proof. repeat split. Qed.

Example sound_nonvacuous :
  left_pure (SAnd (SAnd (SOpq 0) (SChk 1 false)) (SDer 0 7)) = true /\
  eval (fun _ => true) (fun _ => true) (SAnd (SAnd (SOpq 0) (SChk 1 false)) (SDer 0 7)) = Val false /\
  eval (fun v => Nat.eqb v 0) (fun _ => true) (SAnd (SAnd (SOpq 0) (SChk 1 false)) (SDer 0 7)) = Panic 7 /\
  reported (SAnd (SAnd (SOpq 0) (SChk 1 false)) (SDer 0 7)) = [7].
Proof. repeat split. Qed.

(* what follows the statement is untouched by the checks inside the expression (finding F100, repaired) *)
Theorem after_survives : forall e after c, In c after -> In c (proc_stmt e after).
Proof. intros e after c H. unfold proc_stmt. apply in_or_app. right. exact H. Qed.

(* ... which was false of the code before the repair: `b := c && p != nil; return p.f` *)
Example before_F100_refuted :
  proc_stmt_before_F100 (SAnd (SOpq 0) (SChk 0 false)) [(0, 9)] = [] /\
  proc_stmt (SAnd (SOpq 0) (SChk 0 false)) [(0, 9)] = [(0, 9)].
Proof. split; reflexivity. Qed.
