(* Classification of the regenerated inventories (gen/Inventory.v). Hand-maintained: a new map range, goroutine,
   package-level variable or write through a driver-shared type that is not listed here breaks the obligations below. *)
From Coq Require Import List String Bool.
From NG Require Import Inventory.
Import ListNotations.
Open Scope string_scope.

Inductive range_class := SortedAfter | SetLike | StaticTable | OutOfModel.
(* SortedAfter: the visited entries are collected and sorted (or indexed) before anything order-sensitive happens
   SetLike: the loop body only inserts into / tests membership of a set or map, or folds with a commutative, idempotent operation
   StaticTable: a package-level table filled at init whose entries match disjoint inputs
   OutOfModel: only reachable under an experimental flag (struct-init v1/v2, anonymous functions) or in the golangci plugin glue *)
Definition range_classes : list (string * range_class) := [
  ("annotation/map.go:ObservedMap.Range:1:m.fieldAnnMap", SortedAfter);
  ("annotation/map.go:ObservedMap.Range:2:m.funcParamAnnMap", SortedAfter);
  ("annotation/map.go:ObservedMap.Range:3:m.funcRetAnnMap", SortedAfter);
  ("annotation/map.go:ObservedMap.Range:4:m.funcRecvAnnMap", SortedAfter);
  ("annotation/map.go:ObservedMap.Range:5:m.deepTypeAnnMap", SortedAfter);
  ("annotation/map.go:ObservedMap.Range:6:m.globalVarsAnnMap", SortedAfter);
  ("annotation/map.go:ObservedMap.Range:7:m.funcCallSiteParamAnnMap", SortedAfter);
  ("annotation/map.go:ObservedMap.Range:8:m.funcCallSiteRetAnnMap", SortedAfter);
  ("annotation/map.go:newObservedMap:1:nilabilityFromCommentGroup(specDoc)", SetLike);
  ("assertion/anonymousfunc/analyzer.go:run:1:closureMap", OutOfModel);
  ("assertion/function/analyzer.go:duplicateFullTriggersFromContractedFunctionsToCallers:1:funcResults", SortedAfter);
  ("assertion/function/analyzer.go:duplicateFullTriggersFromContractedFunctionsToCallers:2:callsByCtrtFunc", SortedAfter);
  ("assertion/function/analyzer.go:run:1:funcLitMap", SetLike);
  ("assertion/function/assertiontree/rich_check_effect.go:propagateRichChecks:1:reachingEffects", SetLike);
  ("assertion/function/assertiontree/rich_check_effect.go:propagateRichChecks:2:maskingEffects", SetLike);
  ("assertion/function/assertiontree/rich_check_effect.go:propagateRichChecks:3:reachingEffects", SetLike);
  ("assertion/function/assertiontree/rich_check_effect.go:weakPropagateRichChecks:1:reachability", SetLike);
  ("assertion/function/assertiontree/structinitv2.go:RootAssertionNode.bindCallResultFieldsToContext:1:pathSet", OutOfModel);
  ("assertion/function/assertiontree/util.go:FilterTriggersForErrorReturn:1:retTriggers", SetLike);
  ("assertion/function/functioncontracts/analyzer.go:run:1:contracts", SetLike);
  ("assertion/function/functioncontracts/infer.go:inferContracts:1:nilnessTablesUnderPred", SetLike);
  ("assertion/function/functioncontracts/infer.go:nilnessTable.addAll:1:other", SetLike);
  ("assertion/function/functioncontracts/infer.go:nilnessTable.copy:1:t", SetLike);
  ("assertion/function/functioncontracts/infer.go:nilnessTable.equals:1:t", SetLike);
  ("assertion/function/structfieldeffects/analyzer.go:importUsedParamEffects:1:calledFunctions", OutOfModel);
  ("assertion/function/structfieldeffects/analyzer.go:importUsedParamEffects:2:calleesByPackage", OutOfModel);
  ("assertion/function/structfieldeffects/analyzer.go:run:1:packageSummary.paramReads", OutOfModel);
  ("assertion/function/structfieldeffects/analyzer.go:run:2:packageSummary.paramWrites", OutOfModel);
  ("assertion/function/structfieldeffects/analyzer.go:run:3:packageSummary.returnEffects", OutOfModel);
  ("assertion/function/structfieldeffects/analyzer.go:run:4:packageSummary.returnParamSources", OutOfModel);
  ("assertion/function/structfieldeffects/analyzer.go:run:5:funcs", OutOfModel);
  ("assertion/function/structfieldeffects/collector.go:functionCollector.collectStableStructVars:1:fc.allocationVars", OutOfModel);
  ("assertion/function/structfieldeffects/collector.go:functionCollector.collectStableStructVars:2:fc.resultVars", OutOfModel);
  ("assertion/function/structfieldeffects/collector.go:functionCollector.collectStableStructVars:3:allowedUses", OutOfModel);
  ("assertion/function/structfieldeffects/effects.go:closeParamFieldSets:1:edges", OutOfModel);
  ("assertion/function/structfieldeffects/effects.go:closeParamFieldSets:2:fields[e.callee]", OutOfModel);
  ("assertion/function/structfieldeffects/effects.go:closeReturnEffects:1:edges", OutOfModel);
  ("assertion/function/structfieldeffects/effects.go:closeReturnEffects:2:effects[edge.callee]", OutOfModel);
  ("assertion/function/structfieldeffects/effects.go:fieldEffects.sortedPaths:1:e[funcObj]", OutOfModel);
  ("assertion/function/structfieldeffects/effects.go:fieldPathsForIndex:1:fields", OutOfModel);
  ("assertion/function/structfieldeffects/return_contracts.go:closeReturnParamSources:1:edges", OutOfModel);
  ("assertion/function/structfieldeffects/return_contracts.go:collectedFieldEffects.dropMixedResultParamSources:1:c.resultsWithConstructSite", OutOfModel);
  ("assertion/function/structfieldeffects/return_contracts.go:collectedFieldEffects.dropMixedResultParamSources:2:results", OutOfModel);
  ("assertion/function/structfieldeffects/return_contracts.go:collectedFieldEffects.dropMixedResultParamSources:3:c.summary.returnEffects", OutOfModel);
  ("assertion/function/structfieldeffects/return_contracts.go:collectedFieldEffects.dropMixedResultParamSources:4:effects", OutOfModel);
  ("assertion/function/structfieldeffects/return_contracts.go:collectedFieldEffects.dropMixedResultParamSources:5:constructed", OutOfModel);
  ("assertion/function/structfieldeffects/return_contracts.go:collectedFieldEffects.dropMixedResultParamSources:6:results", OutOfModel);
  ("assertion/function/structfieldeffects/return_contracts.go:collectedFieldEffects.dropMixedResultParamSources:7:c.summary.returnParamSources[fn]", OutOfModel);
  ("assertion/function/structfieldeffects/return_contracts.go:collectedFieldEffects.dropReturnEffects:1:c.summary.returnEffects[fn]", OutOfModel);
  ("assertion/function/structfieldeffects/return_contracts.go:collectedFieldEffects.dropReturnParamSources:1:c.summary.returnParamSources[fn]", OutOfModel);
  ("assertion/function/structfieldeffects/return_contracts.go:collectedFieldEffects.dropWholeResultParamSources:1:c.summary.returnParamSources[fn]", OutOfModel);
  ("assertion/function/structfieldeffects/return_contracts.go:composeReturnParamSources:1:sources[edge.callee]", OutOfModel);
  ("assertion/function/structfieldeffects/return_contracts.go:returnParamSourceSet.sortedSources:1:s[funcObj]", OutOfModel);
  ("assertion/global/globalvarinit.go:hasGlobalVarAssignInInitFunc:1:assignedVars", SetLike);
  ("cmd/gclplugin/gclplugin.go:New:1:s", OutOfModel);
  ("cmd/gclplugin/gclplugin.go:NilAwayPlugin.BuildAnalyzers:1:p.conf", OutOfModel);
  ("diagnostic/nolint.go:run:1:commentMap", SortedAfter);
  ("guard/guard.go:NonceSet.Intersection:1:out", SetLike);
  ("guard/guard.go:NonceSet.SubsetOf:1:g", SetLike);
  ("guard/guard.go:NonceSet.Union:1:g", SetLike);
  ("guard/guard.go:NonceSet.Union:2:other", SetLike);
  ("hook/assume_return.go:matchTrustedFuncs:1:_assumeReturns", StaticTable);
  ("hook/error_return.go:ErrorReturnNonnilArg:1:_errorReturnNonnilArgs", StaticTable);
  ("hook/replace_conditional.go:ReplaceConditional:1:_replaceConditionals", StaticTable);
  ("hook/split_blocks_on.go:SplitBlockOn:1:_splitBlockOn", StaticTable);
  ("inference/engine.go:Engine.ObservePackage:1:mapSiteGuardMissing", SetLike);
  ("inference/engine.go:Engine.ObservePackage:2:mapSiteReturn", SetLike)
].

Inductive write_class := CopiedGraph | FreshObject | ValueCopy.
(* CopiedGraph: the block/graph written to is the one returned by copyGraph (or a block appended to it)
   FreshObject: the object was allocated by the writing function itself
   ValueCopy: the written struct is a local value copy (token.Position, analysis.Diagnostic), not shared memory *)
Definition write_classes : list (string * write_class) := [
  ("assertion/function/assertiontree/backprop_util.go:blocksAndPreprocessingFromCFG:1:cfg.Block:blocks[i].Succs", CopiedGraph);
  (* called by blocksAndPreprocessingFromCFG only, on the same block list (repair of finding F71) *)
  ("assertion/function/assertiontree/backprop_util.go:linkEndlessLoopsToReturn:1:cfg.Block:b.Succs", CopiedGraph);
  ("assertion/function/preprocess/cfg.go:Preprocessor.CFG:1:cfg.CFG:graph.Blocks", CopiedGraph);
  ("assertion/function/preprocess/cfg.go:Preprocessor.canonicalizeConditional:1:cfg.Block:thisBlock.Nodes[len(thisBlock.Nodes)-1]", CopiedGraph);
  ("assertion/function/preprocess/cfg.go:Preprocessor.canonicalizeConditional:2:cfg.Block:thisBlock.Succs[0]", CopiedGraph);
  ("assertion/function/preprocess/cfg.go:Preprocessor.canonicalizeConditional:3:cfg.Block:thisBlock.Succs[1]", CopiedGraph);
  ("assertion/function/preprocess/cfg.go:Preprocessor.canonicalizeConditional:4:cfg.CFG:graph.Blocks", CopiedGraph);
  ("assertion/function/preprocess/cfg.go:Preprocessor.markTypeSwitch:1:cfg.Block:caseBlock.Nodes", CopiedGraph);
  ("assertion/function/preprocess/cfg.go:Preprocessor.markTypeSwitch:2:cfg.Block:body.Nodes", CopiedGraph);
  ("assertion/function/preprocess/cfg.go:Preprocessor.markTypeSwitch:3:cfg.Block:caseBlock.Nodes", CopiedGraph);
  ("assertion/function/preprocess/cfg.go:Preprocessor.replaceConditional:1:cfg.Block:block.Nodes[len(block.Nodes)-1]", CopiedGraph);
  ("assertion/function/preprocess/cfg.go:Preprocessor.restructureOnNoReturnCall:1:cfg.Block:block.Nodes", CopiedGraph);
  ("assertion/function/preprocess/cfg.go:Preprocessor.restructureOnNoReturnCall:2:cfg.Block:block.Succs", CopiedGraph);
  ("assertion/function/preprocess/cfg.go:Preprocessor.splitBlockOnTrustedFuncs:1:cfg.CFG:graph.Blocks", CopiedGraph);
  ("assertion/function/preprocess/cfg.go:Preprocessor.splitBlockOnTrustedFuncs:2:cfg.Block:thisBlock.Nodes", CopiedGraph);
  ("assertion/function/preprocess/cfg.go:Preprocessor.splitBlockOnTrustedFuncs:3:cfg.Block:thisBlock.Succs", CopiedGraph);
  ("assertion/function/preprocess/cfg.go:Preprocessor.splitBlockOnTrustedFuncs:4:cfg.Block:failureBlock.Live", CopiedGraph);
  ("assertion/function/preprocess/cfg.go:copyGraph:1:cfg.CFG:newGraph.Blocks", FreshObject);
  ("assertion/function/preprocess/cfg.go:copyGraph:2:cfg.Block:newBlock.Succs", FreshObject);
  ("assertion/function/preprocess/cfg.go:markRangeStatements:1:cfg.Block:block.Nodes", CopiedGraph);
  ("assertion/function/preprocess/cfg.go:markRangeStatements:2:cfg.Block:block.Nodes", CopiedGraph);
  ("assertion/function/preprocess/cfg.go:markRangeStatements:3:cfg.Block:block.Nodes", CopiedGraph);
  ("assertion/function/preprocess/cfg.go:markSwitchStatements:1:cfg.Block:block.Nodes", CopiedGraph);
  ("assertion/function/preprocess/cfg.go:markSwitchStatements:2:cfg.Block:caseBlock.Nodes", CopiedGraph);
  ("assertion/function/preprocess/templ.go:Preprocessor.inlineTemplComponentFuncLit:1:cfg.CFG:graph.Blocks", CopiedGraph);
  ("assertion/function/preprocess/templ.go:Preprocessor.inlineTemplComponentFuncLit:2:cfg.Block:b.Nodes[i]", CopiedGraph);
  ("diagnostic/engine.go:Engine.AddSingleAssertionConflict:1:token.Position:position.Filename", ValueCopy);
  ("inference/primitive.go:primitivizer.toPosition:1:token.Position:position.Filename", ValueCopy);
  ("nilaway.go:run:1:analysis.Diagnostic:e.Message", ValueCopy);
  ("util/analysishelper/pass.go:EnhancedPass.HumanReadablePosition:1:token.Position:position.Filename", ValueCopy);
  ("util/analysishelper/pass.go:EnhancedPass.HumanReadablePosition:2:token.Position:position.Filename", ValueCopy)
].

Definition expected_go_sites : list string := [
  "assertion/function/analyzer.go:run:go1";
  "assertion/function/analyzer.go:run:go2";
  "assertion/function/functioncontracts/analyzer.go:collectFunctionContracts:go1";
  "assertion/function/functioncontracts/analyzer.go:collectFunctionContracts:go2"
].

Inductive var_class := AnalyzerDescriptor | ImmutableAfterInit.
(* every package-level variable is an analysis.Analyzer descriptor or is assigned once at initialisation and only read afterwards *)
Definition var_classes : list (string * var_class) := [
  ("accumulation/analyzer.go:Analyzer", AnalyzerDescriptor);
  ("annotation/analyzer.go:Analyzer", AnalyzerDescriptor);
  ("annotation/map.go:EmptyVal", ImmutableAfterInit);
  ("config/config.go:_templHeaders", ImmutableAfterInit);
  ("assertion/function/assertiontree/backprop.go:ErrFuncTooLarge", ImmutableAfterInit);
  ("annotation/map.go:annotationKeyword", ImmutableAfterInit);
  ("annotation/map.go:paramRegexStr", ImmutableAfterInit);
  ("annotation/map.go:resultRegexStr", ImmutableAfterInit);
  ("annotation/map.go:tokenRegexStr", ImmutableAfterInit);
  ("annotation/map.go:deepIdentRegexStr", ImmutableAfterInit);
  ("annotation/map.go:seqRegexStr", ImmutableAfterInit);
  ("annotation/map.go:seqRegex", ImmutableAfterInit);
  ("assertion/affiliation/analyzer.go:Analyzer", AnalyzerDescriptor);
  ("assertion/analyzer.go:Analyzer", AnalyzerDescriptor);
  ("assertion/anonymousfunc/analyzer.go:Analyzer", AnalyzerDescriptor);
  ("assertion/function/analyzer.go:Analyzer", AnalyzerDescriptor);
  ("assertion/function/functioncontracts/analyzer.go:Analyzer", AnalyzerDescriptor);
  ("assertion/function/functioncontracts/infer.go:nilnessStrings", ImmutableAfterInit);
  ("assertion/function/functioncontracts/parse.go:_contractRE", ImmutableAfterInit);
  ("assertion/function/structfieldeffects/analyzer.go:Analyzer", AnalyzerDescriptor);
  ("assertion/global/analyzer.go:Analyzer", AnalyzerDescriptor);
  ("assertion/structfield/analyzer.go:Analyzer", AnalyzerDescriptor);
  ("cmd/nilaway/main.go:Analyzer", AnalyzerDescriptor);
  ("cmd/nilaway/main.go:_includeErrorsInFiles", ImmutableAfterInit);
  ("cmd/nilaway/main.go:_excludeErrorsInFiles", ImmutableAfterInit);
  ("config/config.go:Analyzer", AnalyzerDescriptor);
  ("diagnostic/nolint.go:NoLintAnalyzer", AnalyzerDescriptor);
  ("hook/assume_global_var.go:_assumeGlobalVarsNonnil", ImmutableAfterInit);
  ("hook/assume_return.go:_newErrorFuncNameRegex", ImmutableAfterInit);
  ("hook/assume_return.go:_assumeReturns", ImmutableAfterInit);
  ("hook/assume_return.go:nonnilProducer", ImmutableAfterInit);
  ("hook/error_return.go:_errorReturnNonnilArgs", ImmutableAfterInit);
  ("hook/no_return_call.go:_terminatingCalls", ImmutableAfterInit);
  ("hook/replace_conditional.go:_errorAsAction", ImmutableAfterInit);
  ("hook/replace_conditional.go:_assertConditionalAction", ImmutableAfterInit);
  ("hook/replace_conditional.go:_replaceConditionals", ImmutableAfterInit);
  ("hook/split_blocks_on.go:nilBinaryExpr", ImmutableAfterInit);
  ("hook/split_blocks_on.go:nonnilBinaryExpr", ImmutableAfterInit);
  ("hook/split_blocks_on.go:selfExpr", ImmutableAfterInit);
  ("hook/split_blocks_on.go:negatedSelfExpr", ImmutableAfterInit);
  ("hook/split_blocks_on.go:boolOrErrorExpr", ImmutableAfterInit);
  ("hook/split_blocks_on.go:_goconveyAssertions", ImmutableAfterInit);
  ("hook/split_blocks_on.go:goconveySoExpr", ImmutableAfterInit);
  ("hook/split_blocks_on.go:requireComparators", ImmutableAfterInit);
  ("hook/split_blocks_on.go:requireZeroComparators", ImmutableAfterInit);
  ("hook/split_blocks_on.go:requireLen", ImmutableAfterInit);
  ("hook/split_blocks_on.go:_splitBlockOn", ImmutableAfterInit);
  ("inference/engine.go:gobRegisteredTypes", ImmutableAfterInit);
  ("nilaway.go:Analyzer", AnalyzerDescriptor);
  ("nilaway.go:codeReferencePattern", ImmutableAfterInit);
  ("nilaway.go:pathPattern", ImmutableAfterInit);
  ("nilaway.go:nilabilityPattern", ImmutableAfterInit);
  ("util/tokenhelper/tokenhelper.go:_cwd", ImmutableAfterInit);
  ("util/tokenhelper/tokenhelper.go:_cwdErr", ImmutableAfterInit);
  ("util/typeshelper/typeshelper.go:ErrorType", ImmutableAfterInit);
  ("util/typeshelper/typeshelper.go:ErrorInterface", ImmutableAfterInit);
  ("util/typeshelper/typeshelper.go:BoolType", ImmutableAfterInit);
  ("util/typeshelper/typeshelper.go:BuiltinLen", ImmutableAfterInit);
  ("util/typeshelper/typeshelper.go:BuiltinMin", ImmutableAfterInit);
  ("util/typeshelper/typeshelper.go:BuiltinMax", ImmutableAfterInit);
  ("util/typeshelper/typeshelper.go:BuiltinAppend", ImmutableAfterInit);
  ("util/typeshelper/typeshelper.go:BuiltinNew", ImmutableAfterInit)
].

(* ---- ambient inputs: clocks, timers, deadlines, CPU count, environment, randomness, stack dumps ----
   Every use in the source tree is listed in gen/Inventory.v (ambient_gen); each must be one of the two kinds below.
   Anything else (a deadline on the analysis, a clock, a CPU count) makes the result depend on the machine and its
   load, and is an unclassified site: the lemma below stops checking. *)
Inductive ambient_class :=
  | PresentationOnly       (* decides colours of the printed message only (NO_COLOR, TERM); documented *)
  | OnlyInInternalError.   (* the stack dump inside an INTERNAL PANIC message, which C07 shows never to be produced *)

Definition ambient_classes : list (string * ambient_class) := [
  ("accumulation/analyzer.go:run:debug.Stack:1", OnlyInInternalError);
  ("assertion/function/analyzer.go:analyzeFunc:debug.Stack:1", OnlyInInternalError);
  ("assertion/function/functioncontracts/analyzer.go:collectFunctionContracts:debug.Stack:1", OnlyInInternalError);
  ("config/config.go:defaultPrettyPrint:os.Getenv:1", PresentationOnly);
  ("config/config.go:defaultPrettyPrint:os.Getenv:2", PresentationOnly);
  ("util/analysishelper/analyzer.go:WrapRun:debug.Stack:1", OnlyInInternalError)
].

Definition classified {A} (table : list (string * A)) (s : string) : bool := existsb (fun e => String.eqb (fst e) s) table.

Lemma map_ranges_classified : forallb (classified range_classes) map_ranges_gen = true.
Proof. vm_compute. reflexivity. Qed.

Lemma shared_writes_classified : forallb (classified write_classes) shared_writes_gen = true.
Proof. vm_compute. reflexivity. Qed.

Lemma ambient_classified : forallb (classified ambient_classes) ambient_gen = true.
Proof. vm_compute. reflexivity. Qed.

Lemma go_sites_expected : go_sites_gen = expected_go_sites.
Proof. reflexivity. Qed.

Lemma pkg_vars_classified : forallb (classified var_classes) pkg_vars_gen = true.
Proof. vm_compute. reflexivity. Qed.
