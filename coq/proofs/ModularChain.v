(* Modular analysis of a CHAIN of packages equals the analysis of the whole program.
   The one-step theorem (ModularComplete.modular_equals_whole) is about one publishing package P and an arbitrary
   importer-side system D.  Here: packages p1, ..., pn, each analysed with the facts its predecessors published (p1 sees
   `facts`, p2 sees facts ++ [fo1], ...), every package but the last conflict-free.  By induction over the chain, applying the
   one-step theorem with P = pi and D = the union of p(i+1) .. pn: the whole program -- one engine observing the union of
   all the packages' annotations and triggers -- reports a conflict iff the LAST package's modular run does. *)
From Coq Require Import List Bool Arith Permutation.
From NM Require Import Engine EngineSpec.
From NP Require Import EngineStep EngineMain ExportProofs ModularComplete EngineTerm EngineOrder.
Import ListNotations.

Record pkg := { p_ann : list (site * bool); p_ts : list trigger }.

Definition m_ann (l : list pkg) : list (site * bool) := concat (map p_ann l).
Definition m_ts (l : list pkg) : list trigger := concat (map p_ts l).

Section Chain.
  Variable exported : site -> bool.

  (* modular facts pkgs stI: the packages analysed one after the other, each with the facts published so far; stI is the
     state of the last one.  The side conditions are those of the one-step theorem, for every package but the last: it
     is conflict-free, everything downstream mentions its sites only through exported symbols, no controlled trigger of
     it is left pending (finding F15 shows this necessary), and the downstream triggers are well-formed (so that the
     engine terminates on them) *)
  Inductive modular : list (nat * fact) -> list pkg -> state -> Prop :=
  | mod_last : forall facts p st,
      pkg_run facts (p_ann p) (p_ts p) st -> modular facts [p] st
  | mod_cons : forall facts p rest up st fo n stI,
      pkg_run_up facts (p_ann p) (p_ts p) up st ->
      export exported up (mp st) = Some fo ->
      conflicts st = [] ->
      (forall s, In s (sites_of (csys_of [] (m_ann rest) (m_ts rest))) -> vis exported st s) ->
      (forall k a, In (k, a) (ctld (pkg_csys facts (p_ann p) (p_ts p))) -> dv st k <> None) ->
      wf_triggers (m_ts rest) ->
      modular (facts ++ opt_fact n fo) rest stI ->
      modular facts (p :: rest) stI.

  Theorem chain_equals_whole : forall facts pkgs stI,
    modular facts pkgs stI ->
    forall stW, pkg_run facts (m_ann pkgs) (m_ts pkgs) stW ->
    (conflicts stW <> [] <-> conflicts stI <> []).
  Proof.
    intros facts pkgs stI M. induction M as [facts p st R|facts p rest up st fo n stI Rp Ex Cf Vis Ctl Wf M IH]; intros stW RW.
    - unfold m_ann, m_ts in RW. cbn [map concat] in RW. rewrite !app_nil_r in RW.
      exact (proj1 (engine_order_independent _ _ _ _ _ _ _ _ (Permutation_refl _) (Permutation_refl _) (Permutation_refl _) RW R)).
    - unfold m_ann, m_ts in RW. cbn [map concat] in RW. fold (m_ann rest) in RW. fold (m_ts rest) in RW.
      destruct (engine_terminates (facts ++ opt_fact n fo) (m_ann rest) (m_ts rest) Wf) as [stM RM].
      rewrite (modular_equals_whole exported facts (p_ann p) (p_ts p) up st fo (m_ann rest) (m_ts rest) n Rp Ex Cf Vis Ctl stW stM RW RM).
      exact (IH stM RM).
  Qed.
  (* ... and when the last run is conflict-free, the whole-program run and the last package's modular run give the same
     verdict to every site of a set V that is visible (exported, or unknown to the package) at every link of the chain *)
  Inductive modularV (V : site -> Prop) : list (nat * fact) -> list pkg -> state -> Prop :=
  | modV_last : forall facts p st,
      pkg_run facts (p_ann p) (p_ts p) st -> modularV V facts [p] st
  | modV_cons : forall facts p rest up st fo n stI,
      pkg_run_up facts (p_ann p) (p_ts p) up st ->
      export exported up (mp st) = Some fo ->
      conflicts st = [] ->
      (forall s, In s (sites_of (csys_of [] (m_ann rest) (m_ts rest))) -> vis exported st s) ->
      (forall k a, In (k, a) (ctld (pkg_csys facts (p_ann p) (p_ts p))) -> dv st k <> None) ->
      wf_triggers (m_ts rest) ->
      (forall s, V s -> vis exported st s) ->
      modularV V (facts ++ opt_fact n fo) rest stI ->
      modularV V facts (p :: rest) stI.

  Lemma modularV_modular : forall V facts pkgs stI, modularV V facts pkgs stI -> modular facts pkgs stI.
  Proof. intros V facts pkgs stI M. induction M; [apply mod_last; assumption|eapply mod_cons; eauto]. Qed.

  Theorem chain_verdicts_equal : forall V facts pkgs stI,
    modularV V facts pkgs stI ->
    forall stW, pkg_run facts (m_ann pkgs) (m_ts pkgs) stW ->
    conflicts stI = [] ->
    forall s, V s -> dv stW s = dv stI s.
  Proof.
    intros V facts pkgs stI M.
    induction M as [facts p st R|facts p rest up st fo n stI Rp Ex Cf Vis Ctl Wf HV M IH]; intros stW RW CI s Vs.
    - unfold m_ann, m_ts in RW. cbn [map concat] in RW. rewrite !app_nil_r in RW.
      destruct (engine_order_independent _ _ _ _ _ _ _ _ (Permutation_refl _) (Permutation_refl _) (Permutation_refl _) RW R) as [I E].
      apply E. destruct (conflicts stW) eqn:CW; [reflexivity|]. exfalso. apply (proj1 I); [discriminate|exact CI].
    - unfold m_ann, m_ts in RW. cbn [map concat] in RW. fold (m_ann rest) in RW. fold (m_ts rest) in RW.
      destruct (engine_terminates (facts ++ opt_fact n fo) (m_ann rest) (m_ts rest) Wf) as [stM RM].
      assert (CM : conflicts stM = []).
      { destruct (conflicts stM) eqn:E; [reflexivity|]. exfalso.
        apply (proj1 (chain_equals_whole _ _ _ (modularV_modular _ _ _ _ M) stM RM)); [rewrite E; discriminate|exact CI]. }
      rewrite (modular_verdicts_equal exported facts (p_ann p) (p_ts p) up st fo (m_ann rest) (m_ts rest) n Rp Ex Cf Vis Ctl stW stM RW RM CM s (HV s Vs)).
      exact (IH stM RM CI s Vs).
  Qed.
End Chain.

(* ---------- a concrete chain of three packages meets every hypothesis ---------- *)
(* exported sites 1, 9, 8; p1 has 1 -> 2 -> 3 -> 9 (2, 3 unexported); p2 has 9 -> 4 -> 8 (4 unexported); p3 makes 1 nilable and
   requires 8 to be non-nil.  No single package has a flow; the whole program has nil -> 1 -> ... -> 8 -> non-nil, and so has
   the modular run of p3 with the facts of p1 and p2. *)
Definition exC_exported (s : site) : bool := Nat.eqb s 1 || Nat.eqb s 9 || Nat.eqb s 8.
Definition exC_p1 := {| p_ann := []; p_ts := [mk_t 10 (KCond 1) (KCond 2) None; mk_t 11 (KCond 2) (KCond 3) None; mk_t 12 (KCond 3) (KCond 9) None] |}.
Definition exC_p2 := {| p_ann := []; p_ts := [mk_t 13 (KCond 9) (KCond 4) None; mk_t 14 (KCond 4) (KCond 8) None] |}.
Definition exC_p3 := {| p_ann := []; p_ts := [mk_t 20 KAlways (KCond 1) None; mk_t 21 (KCond 8) KAlways None] |}.

Lemma wf_uncontrolled : forall ts, filter controlled ts = [] -> wf_triggers ts.
Proof. intros ts E. unfold wf_triggers. rewrite E. intros t c H. destruct H. Qed.

Lemma exC_chain : exists stI stW,
  modular exC_exported [] [exC_p1; exC_p2; exC_p3] stI /\
  pkg_run [] (m_ann [exC_p1; exC_p2; exC_p3]) (m_ts [exC_p1; exC_p2; exC_p3]) stW /\
  conflicts stI <> [] /\ conflicts stW <> [].
Proof.
  (* package 1 *)
  destruct (analyze_pkg exC_exported 100 [] (p_ann exC_p1) (p_ts exC_p1)) as [|r1|r1] eqn:E1; try (vm_compute in E1; discriminate).
  destruct (analyze_pkg_run_up _ _ _ _ _ _ E1) as [up1 [st1 [R1 [C1 [M1 X1]]]]].
  assert (H1 : r_conflicts r1 = [] /\ exists f1, r_fact r1 = Some f1 /\
               analyze_pkg exC_exported 100 ([] ++ opt_fact 0 (Some f1)) (p_ann exC_p2) (p_ts exC_p2) <> OutOfFuel).
  { vm_compute in E1. inversion E1; subst r1. split; [reflexivity|]. eexists. split; [reflexivity|]. vm_compute. discriminate. }
  destruct H1 as [Hc1 [f1 [Hf1 _]]].
  (* package 2, with the fact of package 1 *)
  destruct (analyze_pkg exC_exported 100 ([] ++ opt_fact 0 (r_fact r1)) (p_ann exC_p2) (p_ts exC_p2)) as [|r2|r2] eqn:E2;
    try (vm_compute in E1; inversion E1; subst r1; vm_compute in E2; discriminate).
  destruct (analyze_pkg_run_up _ _ _ _ _ _ E2) as [up2 [st2 [R2 [C2 [M2 X2]]]]].
  (* package 3, with both facts *)
  destruct (analyze_pkg exC_exported 100 (([] ++ opt_fact 0 (r_fact r1)) ++ opt_fact 1 (r_fact r2)) (p_ann exC_p3) (p_ts exC_p3)) as [|r3|r3] eqn:E3;
    try (vm_compute in E1; inversion E1; subst r1; vm_compute in E2; inversion E2; subst r2; vm_compute in E3; discriminate).
  destruct (analyze_pkg_run _ _ _ _ _ _ (or_introl E3)) as [st3 [R3 [C3 _]]].
  (* the whole program *)
  destruct (analyze_pkg exC_exported 100 [] (m_ann [exC_p1; exC_p2; exC_p3]) (m_ts [exC_p1; exC_p2; exC_p3])) as [|rW|rW] eqn:EW;
    try (vm_compute in EW; discriminate).
  destruct (analyze_pkg_run _ _ _ _ _ _ (or_introl EW)) as [stW [RW [CW _]]].
  exists st3, stW. split; [|split; [exact RW|split]].
  - eapply mod_cons with (n := 0); [exact R1|exact X1|congruence| | | |].
    + intros s Hs. vm_compute in Hs.
      repeat (destruct Hs as [<-|Hs]; [first [left; reflexivity | right; rewrite <- M1; vm_compute in E1; inversion E1; reflexivity]|]).
      destruct Hs.
    + intros k a H. vm_compute in H. destruct H.
    + apply wf_uncontrolled. reflexivity.
    + eapply mod_cons with (n := 1); [exact R2|exact X2| | | | |].
      * rewrite <- C2. vm_compute in E1. inversion E1; subst r1. vm_compute in E2. inversion E2; subst r2. reflexivity.
      * intros s Hs. vm_compute in Hs.
        repeat (destruct Hs as [<-|Hs]; [first [left; reflexivity | right; rewrite <- M2; vm_compute in E1; inversion E1; subst r1; vm_compute in E2; inversion E2; reflexivity]|]).
        destruct Hs.
      * intros k a H. vm_compute in E1. inversion E1; subst r1. vm_compute in H. destruct H.
      * apply wf_uncontrolled. reflexivity.
      * apply mod_last. exact R3.
  - rewrite <- C3. vm_compute in E1. inversion E1; subst r1. vm_compute in E2. inversion E2; subst r2.
    vm_compute in E3. inversion E3; subst r3. discriminate.
  - rewrite <- CW. vm_compute in EW. inversion EW; subst rW. discriminate.
Qed.

(* ---------- moving functions between packages ---------- *)
(* Two partitions of the same program into chains of packages (the unions of their annotations and triggers are
   permutations of each other: functions moved into a dependency or into an importer, packages merged or split), each
   meeting the side conditions of the chain theorem: the last modular run of the one reports a conflict iff the last
   modular run of the other does.  Both equal the one whole-program engine, which does not depend on the order. *)
Theorem chain_repartition : forall exported facts pkgs pkgs' stI stI',
  modular exported facts pkgs stI -> modular exported facts pkgs' stI' ->
  Permutation (m_ann pkgs) (m_ann pkgs') -> Permutation (m_ts pkgs) (m_ts pkgs') ->
  wf_triggers (m_ts pkgs) -> wf_triggers (m_ts pkgs') ->
  (conflicts stI <> [] <-> conflicts stI' <> []).
Proof.
  intros exported facts pkgs pkgs' stI stI' M M' Pa Pt Wf Wf'.
  destruct (engine_terminates facts (m_ann pkgs) (m_ts pkgs) Wf) as [stW RW].
  destruct (engine_terminates facts (m_ann pkgs') (m_ts pkgs') Wf') as [stW' RW'].
  rewrite <- (chain_equals_whole exported facts pkgs stI M stW RW).
  rewrite <- (chain_equals_whole exported facts pkgs' stI' M' stW' RW').
  exact (proj1 (engine_order_independent _ _ _ _ _ _ _ _ (Permutation_refl _) Pa Pt RW RW')).
Qed.

(* ... and when both last runs are conflict-free they give the same verdict to every site visible at every link of both *)
Theorem chain_repartition_verdicts : forall exported V facts pkgs pkgs' stI stI',
  modularV exported V facts pkgs stI -> modularV exported V facts pkgs' stI' ->
  Permutation (m_ann pkgs) (m_ann pkgs') -> Permutation (m_ts pkgs) (m_ts pkgs') ->
  wf_triggers (m_ts pkgs) -> wf_triggers (m_ts pkgs') ->
  conflicts stI = [] -> conflicts stI' = [] ->
  forall s, V s -> dv stI s = dv stI' s.
Proof.
  intros exported V facts pkgs pkgs' stI stI' M M' Pa Pt Wf Wf' C C' s Vs.
  destruct (engine_terminates facts (m_ann pkgs) (m_ts pkgs) Wf) as [stW RW].
  destruct (engine_terminates facts (m_ann pkgs') (m_ts pkgs') Wf') as [stW' RW'].
  rewrite <- (chain_verdicts_equal exported V facts pkgs stI M stW RW C s Vs).
  rewrite <- (chain_verdicts_equal exported V facts pkgs' stI' M' stW' RW' C' s Vs).
  destruct (engine_order_independent _ _ _ _ _ _ _ _ (Permutation_refl facts) Pa Pt RW RW') as [I E].
  apply E. destruct (conflicts stW) eqn:CW; [reflexivity|]. exfalso.
  apply (proj1 (chain_equals_whole exported facts pkgs stI (modularV_modular _ _ _ _ _ M) stW RW)); [rewrite CW; discriminate|exact C].
Qed.

(* non-vacuity: the three-package chain above and the two-package chain obtained by moving every function of p2 into p1 *)
Definition exC_p12 := {| p_ann := []; p_ts := p_ts exC_p1 ++ p_ts exC_p2 |}.

Lemma exC_chain2 : exists stI, modular exC_exported [] [exC_p12; exC_p3] stI /\ conflicts stI <> [].
Proof.
  destruct (analyze_pkg exC_exported 100 [] (p_ann exC_p12) (p_ts exC_p12)) as [|r1|r1] eqn:E1; try (vm_compute in E1; discriminate).
  destruct (analyze_pkg_run_up _ _ _ _ _ _ E1) as [up1 [st1 [R1 [C1 [M1 X1]]]]].
  destruct (analyze_pkg exC_exported 100 ([] ++ opt_fact 0 (r_fact r1)) (p_ann exC_p3) (p_ts exC_p3)) as [|r3|r3] eqn:E3;
    try (vm_compute in E1; inversion E1; subst r1; vm_compute in E3; discriminate).
  destruct (analyze_pkg_run _ _ _ _ _ _ (or_introl E3)) as [st3 [R3 [C3 _]]].
  exists st3. split.
  - eapply mod_cons with (n := 0); [exact R1|exact X1| | | | |].
    + rewrite <- C1. vm_compute in E1. inversion E1; subst r1. reflexivity.
    + intros s Hs. vm_compute in Hs.
      repeat (destruct Hs as [<-|Hs]; [first [left; reflexivity | right; rewrite <- M1; vm_compute in E1; inversion E1; reflexivity]|]).
      destruct Hs.
    + intros k a H. vm_compute in H. destruct H.
    + apply wf_uncontrolled. reflexivity.
    + apply mod_last. exact R3.
  - rewrite <- C3. vm_compute in E1. inversion E1; subst r1. vm_compute in E3. inversion E3; subst r3. discriminate.
Qed.

Lemma exC_repartition_hyps :
  Permutation (m_ann [exC_p1; exC_p2; exC_p3]) (m_ann [exC_p12; exC_p3]) /\
  Permutation (m_ts [exC_p1; exC_p2; exC_p3]) (m_ts [exC_p12; exC_p3]) /\
  wf_triggers (m_ts [exC_p1; exC_p2; exC_p3]) /\ wf_triggers (m_ts [exC_p12; exC_p3]).
Proof.
  split; [apply Permutation_refl|]. split; [vm_compute; apply Permutation_refl|].
  split; apply wf_uncontrolled; reflexivity.
Qed.
