(* M13 (model/RichFlow.v): what propagateRichChecks computes.  For a CFG whose effects are each created in one block,
   the result holds effect e at the end of block b exactly if e is not Lost there, where Lost is the least relation with
     - e is not created in b and no live predecessor of b is reachable from the block that creates e;
     - e is not created in b and b invalidates e;
     - e is not created in b and e is Lost at a live predecessor of b that is reachable from the block that creates e.
   i.e. the result is the greatest fixed point of the must-transfer: a check is dropped from a block only if some path from
   its originator really invalidates it (finding F26 was the least fixed point being computed instead). *)
From Coq Require Import List Bool Arith PeanoNat Lia.
From NM Require Import RichFlow.
Import ListNotations.

Lemma memb_in x l : memb x l = true <-> In x l.
Proof.
  unfold memb. rewrite existsb_exists. split.
  - intros (y & I & E). apply Nat.eqb_eq in E. now subst.
  - intros I. exists x. split; auto using Nat.eqb_refl.
Qed.

Lemma memb_false x l : memb x l = false <-> ~ In x l.
Proof. rewrite <- memb_in. destruct (memb x l); intuition congruence. Qed.

Lemma dedup_in x l : In x (dedup l) <-> In x l.
Proof.
  induction l as [|y l IH]; simpl; [tauto|].
  destruct (memb y l) eqn:M.
  - rewrite IH. apply memb_in in M. split; [auto|intros [<-|]; auto].
  - simpl. rewrite IH. tauto.
Qed.

Lemma filter_same_length {A} (f : A -> bool) l : length (filter f l) = length l -> filter f l = l.
Proof.
  induction l as [|x l IH]; simpl; auto. destruct (f x); simpl.
  - intros H. f_equal. apply IH. lia.
  - intros H. assert (L : length (filter f l) <= length l).
    { clear. induction l as [|y l IHl]; simpl; auto. destruct (f y); simpl; lia. }
    lia.
Qed.

Section G.
  Variable g : rcfg.
  Notation n := (nblocks g).

  Lemma blocks_in b : In b (blocks g) <-> b < n.
  Proof. unfold blocks. rewrite in_seq. lia. Qed.

  Lemma succs_out b : n <= b -> succs g b = [].
  Proof. intros H. unfold succs, nblocks in *. now rewrite nth_overflow. Qed.

  Lemma preds_spec b p : In p (preds g b) <-> p < n /\ live g p = true /\ In b (succs g p).
  Proof.
    unfold preds. rewrite filter_In, blocks_in, andb_true_iff, memb_in. tauto.
  Qed.

  (* ---------- reachability ---------- *)

  Lemma rstep_incl r x : In x r -> In x (rstep g r).
  Proof. intros I. unfold rstep. apply dedup_in, in_or_app. now left. Qed.

  Lemma closure_spec fuel : forall r0 r, closure g fuel r0 = Some r ->
    (forall x, In x r0 -> In x r) /\ (forall p b, In p r -> In b (succs g p) -> In b r).
  Proof.
    induction fuel as [|f IH]; intros r0 r H; simpl in H; [discriminate|].
    destruct (subset (rstep g r0) r0) eqn:S.
    - injection H as <-. split; auto. intros p b Ip Ib.
      unfold subset in S. rewrite forallb_forall in S. apply memb_in, S.
      unfold rstep. apply dedup_in, in_or_app. right. apply in_flat_map.
      destruct (Nat.lt_ge_cases p n) as [L|L].
      + exists p. split; [now apply blocks_in|]. apply memb_in in Ip. now rewrite Ip.
      + rewrite succs_out in Ib by exact L. destruct Ib.
    - destruct (IH _ _ H) as [A B]. split; auto. intros x I. apply A. now apply rstep_incl.
  Qed.

  Variable rt : list (nat * list nat).
  Hypothesis Hrt : reach_table g = Some rt.
  Hypothesis Hwf : wf_rcfg g = true.

  Lemma gen_len : length (rc_gen g) = n.
  Proof. unfold wf_rcfg in Hwf. apply andb_prop in Hwf. destruct Hwf as [H _]. now apply Nat.eqb_eq. Qed.

  Lemma nodupl_NoDup l : nodupl l = true -> NoDup l.
  Proof.
    induction l as [|x l IH]; simpl; [constructor|]. intros H. apply andb_prop in H. destruct H as [Hx Hl].
    constructor; auto. apply negb_true_iff in Hx. now apply memb_false.
  Qed.

  Lemma gens_nodup : NoDup (concat (rc_gen g)).
  Proof. unfold wf_rcfg in Hwf. apply andb_prop in Hwf. destruct Hwf as [_ H]. now apply nodupl_NoDup. Qed.

  Lemma effects_spec e : In e (effects g) <-> exists b, b < n /\ In e (gen g b).
  Proof.
    unfold effects. rewrite dedup_in, in_concat. split.
    - intros (l & Il & Ie). apply In_nth with (d := []) in Il. destruct Il as (b & Lb & <-).
      exists b. rewrite gen_len in Lb. split; auto.
    - intros (b & Lb & Ie). exists (gen g b). split; auto. unfold gen. apply nth_In. now rewrite gen_len.
  Qed.

  (* an effect is created in one block only *)
  Lemma concat_nodup_unique (ls : list (list nat)) : NoDup (concat ls) ->
    forall i j e, i < length ls -> j < length ls -> In e (nth i ls []) -> In e (nth j ls []) -> i = j.
  Proof.
    induction ls as [|l ls IH]; simpl; intros ND i j e Li Lj Ii Ij; [lia|].
    assert (NDl : NoDup (concat ls)).
    { clear - ND. induction l as [|y l IHl]; simpl in *; auto. inversion ND; auto. }
    assert (Disj : forall x, In x l -> ~ In x (concat ls)).
    { clear - ND. induction l as [|y l IHl]; simpl in *; [tauto|]. inversion ND; subst.
      intros x [<-|I]; [intros C; apply H1, in_or_app; now right|auto]. }
    destruct i as [|i], j as [|j]; auto.
    - exfalso. apply (Disj e Ii). apply in_concat. exists (nth j ls []). split; auto. apply nth_In. lia.
    - exfalso. apply (Disj e Ij). apply in_concat. exists (nth i ls []). split; auto. apply nth_In. lia.
    - f_equal. apply (IH NDl i j e); auto; lia.
  Qed.

  Lemma gen_unique e b b' : b < n -> b' < n -> In e (gen g b) -> In e (gen g b') -> b = b'.
  Proof. intros. apply (concat_nodup_unique _ gens_nodup b b' e); auto; now rewrite gen_len. Qed.

  Lemma origin_spec e b : b < n -> In e (gen g b) -> origin g e = Some b.
  Proof.
    intros Lb Ie. unfold origin.
    assert (G : forall l acc, (forall x, In x l -> x < n) ->
              fold_left (fun acc b => if memb e (gen g b) then Some b else acc) l acc = (if existsb (Nat.eqb b) l then Some b else acc)).
    { induction l as [|x l IH]; intros acc Hl; simpl; auto.
      rewrite IH by (intros; apply Hl; now right).
      destruct (memb e (gen g x)) eqn:M.
      - apply memb_in in M. assert (x = b) by (apply (gen_unique e); auto; apply Hl; now left). subst.
        rewrite Nat.eqb_refl. simpl. destruct (existsb (Nat.eqb b) l); reflexivity.
      - destruct (Nat.eqb_spec b x) as [->|]; [apply memb_false in M; tauto|reflexivity]. }
    rewrite G by (intros x I; now apply blocks_in).
    assert (existsb (Nat.eqb b) (blocks g) = true) as ->; [|reflexivity].
    apply existsb_exists. exists b. split; [now apply blocks_in|apply Nat.eqb_refl].
  Qed.

  (* the table answers for every effect what its closure says *)
  Lemma reaches_spec e : In e (effects g) -> exists r, reach_set g e = Some r /\ forall b, reaches rt e b = memb b r.
  Proof.
    unfold reach_table in Hrt. revert rt Hrt. generalize (effects g). induction l as [|e0 l IH]; intros rt0 H I; [destruct I|].
    simpl in H.
    destruct (fold_right _ (Some []) l) as [t|] eqn:F; [|discriminate].
    destruct (reach_set g e0) as [r0|] eqn:R0; [|discriminate]. injection H as <-.
    unfold reaches. simpl. destruct (Nat.eqb_spec e0 e) as [->|N].
    - exists r0. split; auto.
    - destruct I as [->|I]; [congruence|]. destruct (IH t eq_refl I) as (r & Hr & Hb). exists r. split; auto.
  Qed.

  Lemma reaches_origin e b : b < n -> In e (gen g b) -> reaches rt e b = true.
  Proof.
    intros Lb Ie. assert (Ie' : In e (effects g)) by (apply effects_spec; eauto).
    destruct (reaches_spec e Ie') as (r & Hr & Hb). rewrite Hb. apply memb_in.
    unfold reach_set in Hr. rewrite (origin_spec e b Lb Ie) in Hr.
    destruct (closure_spec _ _ _ Hr) as [A _]. apply A. now left.
  Qed.

  Lemma reaches_succ e p b : In e (effects g) -> reaches rt e p = true -> In b (succs g p) -> reaches rt e b = true.
  Proof.
    intros Ie Rp Ib. destruct (reaches_spec e Ie) as (r & Hr & Hb). rewrite Hb in *. apply memb_in in Rp. apply memb_in.
    unfold reach_set in Hr. destruct (origin g e); [|injection Hr as <-; destruct Rp].
    destruct (closure_spec _ _ _ Hr) as [_ B]. eauto.
  Qed.

  (* ---------- the specification ---------- *)

  Inductive Lost (e : nat) : nat -> Prop :=
    | lost_unreached b : ~ In e (gen g b) -> (forall p, In p (preds g b) -> reaches rt e p = false) -> Lost e b
    | lost_killed b : ~ In e (gen g b) -> In e (kill g b) -> Lost e b
    | lost_pred b p : ~ In e (gen g b) -> In p (preds g b) -> reaches rt e p = true -> Lost e p -> Lost e b.

  Lemma at_map (f : nat -> list nat) b : b < n -> at_ (map f (blocks g)) b = f b.
  Proof.
    intros L. unfold at_, blocks. rewrite nth_indep with (d' := f 0) by (now rewrite map_length, seq_length).
    rewrite map_nth. f_equal. now apply seq_nth.
  Qed.

  Lemma at_transfer s b : b < n -> at_ (transfer g rt s) b = filter (fun e => memb e (incoming g rt s b)) (at_ s b).
  Proof. intros L. unfold transfer. now rewrite at_map. Qed.

  Lemma incoming_spec s b e : In e (incoming g rt s b) <->
    In e (gen g b) \/ (preds g b <> [] /\ (exists p, In p (preds g b) /\ In e (at_ s p)) /\
                      (forall p, In p (preds g b) -> reaches rt e p = true -> In e (at_ s p)) /\ ~ In e (kill g b)).
  Proof.
    unfold incoming. destruct (preds g b) as [|p0 ps] eqn:P.
    - split; [auto|intros [H|(H & _)]; [auto|congruence]].
    - rewrite in_app_iff, filter_In, andb_true_iff, forallb_forall, negb_true_iff, memb_false, dedup_in, in_flat_map.
      split.
      + intros [H|((p & Ip & Ie) & A & K)]; [now left|right]. split; [discriminate|]. split; [eauto|]. split; auto.
        intros p' Ip' R. specialize (A p' Ip'). rewrite R in A. simpl in A. now apply memb_in.
      + intros [H|(_ & Ex & A & K)]; [now left|right]. split; [exact Ex|]. split; auto.
        intros p' Ip'. destruct (reaches rt e p') eqn:R; simpl; auto. apply memb_in. auto.
  Qed.

  (* what every state of the iteration contains: everything that is not Lost *)
  Definition Keeps (s : state) : Prop := forall b e, b < n -> In e (effects g) -> ~ Lost e b -> In e (at_ s b).

  Lemma not_lost_cases b e : ~ Lost e b ->
    In e (gen g b) \/ ((exists p, In p (preds g b) /\ reaches rt e p = true) /\ ~ In e (kill g b) /\
                      forall p, In p (preds g b) -> reaches rt e p = true -> ~ Lost e p).
  Proof.
    intros NL. destruct (memb e (gen g b)) eqn:G; [left; now apply memb_in|right]. apply memb_false in G.
    split; [|split].
    - destruct (existsb (reaches rt e) (preds g b)) eqn:X.
      + apply existsb_exists in X. destruct X as (p & I & R). eauto.
      + exfalso. apply NL. apply lost_unreached; auto. intros p I.
        destruct (reaches rt e p) eqn:R; auto.
        assert (existsb (reaches rt e) (preds g b) = true) by (apply existsb_exists; eauto). congruence.
    - intros K. apply NL. now apply lost_killed.
    - intros p I R L. apply NL. now apply lost_pred with p.
  Qed.

  Lemma keeps_init : Keeps (init g rt).
  Proof.
    intros b e Lb Ie NL. unfold init. rewrite at_map by exact Lb. apply dedup_in, in_or_app.
    destruct (not_lost_cases b e NL) as [G|((p & I & R) & _)]; [now left|right].
    apply filter_In. split; auto. apply existsb_exists. eauto.
  Qed.

  Lemma keeps_transfer s : Keeps s -> Keeps (transfer g rt s).
  Proof.
    intros K b e Lb Ie NL. rewrite at_transfer by exact Lb. apply filter_In. split; [now apply K|].
    apply memb_in, incoming_spec.
    destruct (not_lost_cases b e NL) as [G|((p & I & R) & NK & A)]; [now left|right].
    assert (Lp : forall q, In q (preds g b) -> q < n) by (intros q Iq; now apply preds_spec in Iq).
    split; [intros E; rewrite E in I; destruct I|]. split; [|split].
    - exists p. split; [exact I|]. apply K; auto.
    - intros q Iq Rq. apply K; auto.
    - exact NK.
  Qed.

  Lemma keeps_iterate fuel : forall s s', Keeps s -> iterate g rt fuel s = Some s' -> Keeps s'.
  Proof.
    induction fuel as [|f IH]; intros s s' K H; simpl in H; [discriminate|].
    destruct (same_size g s (transfer g rt s)); [injection H as <-; now apply keeps_transfer|].
    eapply IH; [|exact H]. now apply keeps_transfer.
  Qed.

  (* what every state of the iteration is contained in: the optimistic start *)
  Definition Below (s : state) : Prop := forall b e, b < n -> In e (at_ s b) -> In e (at_ (init g rt) b).

  Lemma below_transfer s : Below s -> Below (transfer g rt s).
  Proof. intros B b e Lb I. rewrite at_transfer in I by exact Lb. apply filter_In in I. apply B; tauto. Qed.

  Lemma below_iterate fuel : forall s s', Below s -> iterate g rt fuel s = Some s' -> Below s'.
  Proof.
    induction fuel as [|f IH]; intros s s' K H; simpl in H; [discriminate|].
    destruct (same_size g s (transfer g rt s)); [injection H as <-; now apply below_transfer|].
    eapply IH; [|exact H]. now apply below_transfer.
  Qed.

  Lemma init_reaches b e : b < n -> In e (at_ (init g rt) b) -> In e (effects g) /\ reaches rt e b = true.
  Proof.
    intros Lb I. unfold init in I. rewrite at_map in I by exact Lb. apply dedup_in, in_app_iff in I.
    destruct I as [G|F].
    - split; [apply effects_spec; eauto|now apply reaches_origin].
    - apply filter_In in F. destruct F as [Ie X]. split; auto.
      apply existsb_exists in X. destruct X as (p & Ip & R). apply preds_spec in Ip.
      apply reaches_succ with p; tauto.
  Qed.

  (* the result is a fixed point of the transfer *)
  Lemma iterate_fixed fuel : forall s s', iterate g rt fuel s = Some s' ->
    forall b, b < n -> at_ (transfer g rt s') b = at_ s' b.
  Proof.
    induction fuel as [|f IH]; intros s s' H b Lb; simpl in H; [discriminate|].
    destruct (same_size g s (transfer g rt s)) eqn:SS; [|eauto].
    injection H as <-.
    (* the sizes did not change, so nothing was filtered out: transfer s = s on every block *)
    assert (Eq : forall c, c < n -> at_ (transfer g rt s) c = at_ s c).
    { intros c Lc. unfold same_size in SS. rewrite forallb_forall in SS.
      specialize (SS c (proj2 (blocks_in c) Lc)). apply Nat.eqb_eq in SS.
      rewrite at_transfer in * by exact Lc. apply filter_same_length. now symmetry. }
    (* incoming only looks at the predecessors' sets, which are the same in both states *)
    assert (Inc : forall c, c < n -> incoming g rt (transfer g rt s) c = incoming g rt s c).
    { intros c Lc. unfold incoming.
      assert (Lp : forall q, In q (preds g c) -> q < n) by (intros q Iq; now apply preds_spec in Iq).
      destruct (preds g c) as [|p0 ps] eqn:P; auto. f_equal.
      assert (FM : flat_map (at_ (transfer g rt s)) (p0 :: ps) = flat_map (at_ s) (p0 :: ps)).
      { clear - Eq Lp. induction (p0 :: ps) as [|q l IHl]; simpl; auto. rewrite Eq by (apply Lp; now left).
        f_equal. apply IHl. intros; apply Lp; now right. }
      rewrite FM. apply filter_ext_in. intros e _. f_equal.
      assert (FE : forall l, (forall q, In q l -> q < n) ->
                forallb (fun p => negb (reaches rt e p) || memb e (at_ (transfer g rt s) p)) l =
                forallb (fun p => negb (reaches rt e p) || memb e (at_ s p)) l).
      { induction l as [|q l IHl]; intros Hl; simpl; auto. rewrite Eq by (apply Hl; now left).
        f_equal. apply IHl. intros; apply Hl; now right. }
      apply FE. exact Lp. }
    rewrite (at_transfer (transfer g rt s)) by exact Lb. rewrite Inc, Eq by exact Lb.
    rewrite <- (at_transfer s) by exact Lb. now apply Eq.
  Qed.

  Theorem propagate_spec fuel s : iterate g rt fuel (init g rt) = Some s ->
    forall b e, b < n -> In e (effects g) -> (In e (at_ s b) <-> ~ Lost e b).
  Proof.
    intros H b e Lb Ie. split.
    - (* a fixed point below the optimistic start contains nothing that is Lost *)
      intros I L. revert I. induction L as [b NG NR|b NG K|b p NG Ip R L IH]; intros I.
      + rewrite <- (iterate_fixed _ _ _ H b Lb), at_transfer in I by exact Lb.
        apply filter_In in I. destruct I as [_ I]. apply memb_in, incoming_spec in I.
        destruct I as [G|(_ & (p & Ip & Iep) & _)]; [tauto|].
        assert (Lp : p < n) by now apply preds_spec in Ip.
        pose proof (below_iterate _ _ _ (fun _ _ _ X => X) H p e Lp Iep) as Ii.
        destruct (init_reaches p e Lp Ii) as [_ Rp]. rewrite (NR p Ip) in Rp. discriminate.
      + rewrite <- (iterate_fixed _ _ _ H b Lb), at_transfer in I by exact Lb.
        apply filter_In in I. destruct I as [_ I]. apply memb_in, incoming_spec in I.
        destruct I as [G|(_ & _ & _ & NK)]; tauto.
      + rewrite <- (iterate_fixed _ _ _ H b Lb), at_transfer in I by exact Lb.
        apply filter_In in I. destruct I as [_ I]. apply memb_in, incoming_spec in I.
        destruct I as [G|(_ & _ & A & _)]; [tauto|].
        assert (Lp : p < n) by now apply preds_spec in Ip. apply (IH Lp). now apply A.
    - intros NL. exact (keeps_iterate _ _ _ keeps_init H b e Lb Ie NL).
  Qed.
End G.

(* the statement about propagate itself *)
Theorem propagate_is_gfp g fuel s : wf_rcfg g = true -> propagate g fuel = Some s ->
  exists rt, reach_table g = Some rt /\
    forall b e, b < nblocks g -> In e (effects g) -> (In e (at_ s b) <-> ~ Lost g rt e b).
Proof.
  intros W H. unfold propagate in H. destruct (reach_table g) as [rt|] eqn:R; [|discriminate].
  exists rt. split; auto. intros. now apply (propagate_spec g rt R W fuel).
Qed.

(* non-vacuity: the nested-loop shape of finding F26 -- the check created in the inner loop holds after both loops when
   nothing invalidates it, and is lost everywhere else when the outer loop body invalidates it *)
Definition ex_nested (k : list nat) : rcfg :=
  {| rc_succs := [[1; 4]; [2; 3]; [1]; [0]; []]; rc_live := [true; true; true; true; true];
     rc_gen := [[]; []; [7]; []; []]; rc_kill := [[]; []; []; k; []] |}.
Example propagate_examples :
  propagate (ex_nested []) 50 = Some [[7]; [7]; [7]; [7]; [7]] /\ propagate (ex_nested [7]) 50 = Some [[]; []; [7]; []; []] /\
  wf_rcfg (ex_nested []) = true.
Proof. vm_compute. repeat split. Qed.
