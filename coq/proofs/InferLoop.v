(* The work list of the contract inference (model M10) ends in a post-fixpoint: whenever `loop` returns IDone s, `stable s`
   holds -- for every function whose control-flow graph is well-formed (wf_cfg: entry block without predecessors, no block
   with the same predecessor twice).  With proofs/InferSound.v this removes the validation step from the soundness
   theorem: `infer F fuel = IInferred` alone implies the contract, for well-formed functions.

   Invariant of the loop (state s, queue q):
     I1  block 0 is queued or seen;
     I2  block 0 has no tables;
     I3  for every seen p and every successor c of p: c is queued, or c is seen and every table of p pushed over every
         edge p -> c lands on a table of c (SE). *)
From Coq Require Import List Bool Arith PeanoNat Lia.
From NM Require Import Infer.
From NP Require Import InferSound.
Import ListNotations.

Lemma table_eqb_refl t : table_eqb t t = true.
Proof.
  induction t as [|[k v] t IH]; simpl; auto. rewrite Nat.eqb_refl, IH. destruct v; reflexivity.
Qed.

Lemma aget_astore {A} (m : list (nat * A)) k v k' :
  aget (astore m k v) k' = if Nat.eqb k k' then Some v else aget m k'.
Proof.
  induction m as [|[k0 v0] m IH]; simpl.
  - destruct (Nat.eqb k k'); reflexivity.
  - destruct (Nat.eqb_spec k0 k) as [->|N]; simpl.
    + destruct (Nat.eqb k k'); reflexivity.
    + rewrite IH. destruct (Nat.eqb_spec k0 k') as [->|N'].
      * destruct (Nat.eqb_spec k k'); [congruence|reflexivity].
      * reflexivity.
Qed.

Lemma aget_in {A} (m : list (nat * A)) k v : aget m k = Some v -> In (k, v) m.
Proof.
  induction m as [|[k0 v0] m IH]; simpl; [discriminate|].
  destruct (Nat.eqb_spec k0 k) as [->|N]; [intros [= ->]; now left|auto].
Qed.

Section Fn.
  Variable F : ifn.
  Hypothesis Hcfg : wf_cfg F = true.

  Definition has (l : list table) (t : table) : Prop := existsb (table_eqb t) l = true.

  Lemma has_in l t : has l t <-> In t l.
  Proof.
    unfold has. rewrite existsb_exists. split.
    - intros (x & I & E). apply table_eqb_eq in E. now subst.
    - intros I. exists t. split; auto using table_eqb_refl.
  Qed.

  (* tadd *)
  Lemma tadd_spec s t : let '(s', a) := tadd s t in
    has s' t /\ (forall u, has s u -> has s' u) /\ (a = false -> s' = s).
  Proof.
    unfold tadd. destruct (existsb (table_eqb t) s) eqn:E.
    - split; [|split]; auto.
    - split; [|split]; try discriminate.
      + apply has_in, in_or_app. right. now left.
      + intros u H. apply has_in. apply has_in in H. apply in_or_app; now left.
  Qed.

  (* the inner fold of the loop: adding a list of tables, remembering whether anything was new *)
  Definition add_tables (acc : list table * bool) (l : list table) : list table * bool :=
    fold_left (fun (acc2 : list table * bool) t => let '(l, a) := tadd (fst acc2) t in (l, snd acc2 || a)) l acc.

  Lemma add_tables_spec l : forall acc,
    (forall t, In t l -> has (fst (add_tables acc l)) t) /\
    (forall u, has (fst acc) u -> has (fst (add_tables acc l)) u) /\
    (snd (add_tables acc l) = false -> fst (add_tables acc l) = fst acc /\ snd acc = false).
  Proof.
    unfold add_tables. induction l as [|t l IH]; intros acc; simpl.
    - split; [|split]; auto; tauto.
    - pose proof (tadd_spec (fst acc) t) as T. destruct (tadd (fst acc) t) as [s' a].
      destruct T as (T1 & T2 & T3).
      destruct (IH (s', snd acc || a)) as (I1 & I2 & I3). simpl in *.
      split; [|split].
      + intros u [<-|I]; auto.
      + intros u H. auto.
      + intros Z. destruct (I3 Z) as [E O]. apply orb_false_iff in O. destruct O as [O1 O2].
        split; auto. rewrite E. auto.
  Qed.

  Definition add_preds (acc : list table * bool) (m : list (nat * list table)) : list table * bool :=
    fold_left (fun (acc : list table * bool) (pt : nat * list table) => add_tables acc (snd pt)) m acc.

  Lemma add_preds_spec m : forall acc,
    (forall p l t, In (p, l) m -> In t l -> has (fst (add_preds acc m)) t) /\
    (forall u, has (fst acc) u -> has (fst (add_preds acc m)) u) /\
    (snd (add_preds acc m) = false -> fst (add_preds acc m) = fst acc /\ snd acc = false).
  Proof.
    unfold add_preds. induction m as [|[p0 l0] m IH]; intros acc; simpl.
    - split; [|split]; auto; intros; tauto.
    - destruct (add_tables_spec l0 acc) as (A1 & A2 & A3).
      destruct (IH (add_tables acc l0)) as (I1 & I2 & I3).
      split; [|split].
      + intros p l t [[= -> ->]|I] It; [apply I2; auto|eauto].
      + auto.
      + intros Z. destruct (I3 Z) as [E O]. destruct (A3 O) as [E' O']. split; congruence.
  Qed.

  (* set_of-level view of the state *)
  Definition tot (s : ist) (p : nat) : list table := match set_of s p with [] => [[]] | l => l end.

  Lemma tot_eq s p : tables_or_top (i_sets s) p = tot s p.
  Proof. unfold tables_or_top, tot, set_of. destruct (aget (i_sets s) p) as [[|x l]|]; reflexivity. Qed.

  Definition cov (s : ist) (c : nat) (t : table) : Prop := set_of s c = [] \/ has (set_of s c) t.

  Lemma covered_cov s c t : covered s c t = true <-> cov s c t.
  Proof.
    unfold covered, cov, has. destruct (set_of s c) as [|x l]; [intuition|].
    split; [auto|intros [Z|H]; [discriminate|auto]].
  Qed.

  Definition SE (s : ist) (p c idx : nat) : Prop :=
    forall t, In t (tot s p) -> forall l, learn F c p t = Some l -> cov s c (enter F c idx (add_all t l)).

  Lemma stable_edge_SE s p c idx : stable_edge F s p c idx = true <-> SE s p c idx.
  Proof.
    unfold stable_edge, SE. rewrite forallb_forall, tot_eq. split.
    - intros H t It l L. specialize (H t It). rewrite L in H. now apply covered_cov.
    - intros H t It. destruct (learn F c p t) eqn:L; auto. apply covered_cov. eauto.
  Qed.

  Lemma SE_ext s s' p c idx : set_of s p = set_of s' p -> set_of s c = set_of s' c -> SE s p c idx -> SE s' p c idx.
  Proof. unfold SE, tot, cov. intros -> ->. auto. Qed.

  (* from_pred contains every table the edge produces *)
  Lemma from_pred_has s b idx p t l :
    In t (tot s p) -> learn F b p t = Some l -> has (from_pred F s b idx p) (enter F b idx (add_all t l)).
  Proof.
    unfold from_pred. fold (tot s p).
    assert (G : forall ps acc,
      (forall u, has acc u -> has (fold_left (fun acc t => match learn F b p t with None => acc | Some l => fst (tadd acc (enter F b idx (add_all t l))) end) ps acc) u) /\
      (forall t l, In t ps -> learn F b p t = Some l ->
         has (fold_left (fun acc t => match learn F b p t with None => acc | Some l => fst (tadd acc (enter F b idx (add_all t l))) end) ps acc) (enter F b idx (add_all t l)))).
    { induction ps as [|t0 ps IH]; intros acc; simpl; [split; [auto|intros; tauto]|].
      destruct (learn F b p t0) as [l0|] eqn:L0.
      - pose proof (tadd_spec acc (enter F b idx (add_all t0 l0))) as T.
        destruct (tadd acc (enter F b idx (add_all t0 l0))) as [s' a]. destruct T as (T1 & T2 & _). simpl.
        destruct (IH s') as [I1 I2]. split; [auto|].
        intros t1 l1 [<-|I] L1; [|eauto]. rewrite L0 in L1. injection L1 as <-. auto.
      - destruct (IH acc) as [I1 I2]. split; [auto|].
        intros t1 l1 [<-|I] L1; [congruence|eauto]. }
    intros It L. exact (proj2 (G (tot s p) []) t l It L).
  Qed.

  (* under_preds has, for every seen predecessor, the tables of its edge *)
  Definition up_step (s : ist) (b : nat) (mi : list (nat * list table) * nat) (pred : nat) :=
    let '(m, idx) := mi in ((if is_seen s pred then astore m pred (from_pred F s b idx pred) else m), S idx).

  Lemma up_keep s b ps : forall m i q, ~ In q ps -> aget (fst (fold_left (up_step s b) ps (m, i))) q = aget m q.
  Proof.
    induction ps as [|x ps IH]; intros m i q N; simpl; auto.
    rewrite IH by (simpl in N; tauto).
    destruct (is_seen s x); auto. rewrite aget_astore.
    destruct (Nat.eqb_spec x q); [subst; simpl in N; tauto|reflexivity].
  Qed.

  Lemma up_has s b ps : forall m i k p, nodupb ps = true -> nth_error ps k = Some p -> is_seen s p = true ->
    aget (fst (fold_left (up_step s b) ps (m, i))) p = Some (from_pred F s b (i + k) p).
  Proof.
    induction ps as [|x ps IH]; intros m i k p N Nth Sp; [destruct k; discriminate|].
    simpl in N. apply andb_prop in N; destruct N as [Nx N].
    destruct k as [|k]; simpl in Nth.
    - injection Nth as ->. simpl. rewrite Sp. rewrite up_keep.
      + rewrite aget_astore, Nat.eqb_refl, Nat.add_0_r. reflexivity.
      + intros I. apply negb_true_iff in Nx.
        assert (existsb (Nat.eqb p) ps = true) by (apply existsb_exists; exists p; split; auto using Nat.eqb_refl).
        congruence.
    - simpl. rewrite (IH _ (S i) k p N Nth Sp). f_equal. f_equal. lia.
  Qed.

  Lemma under_preds_eq s b : under_preds F s b = fst (fold_left (up_step s b) (ib_preds (block F b)) ([], 0)).
  Proof. reflexivity. Qed.

  Lemma preds_nodup b : nodupb (ib_preds (block F b)) = true.
  Proof.
    unfold wf_cfg in Hcfg. apply andb_prop in Hcfg. destruct Hcfg as [_ H].
    unfold block. destruct (Nat.lt_ge_cases b (length (if_blocks F))) as [L|L].
    - rewrite forallb_forall in H. apply H. now apply nth_In.
    - rewrite nth_overflow by auto. reflexivity.
  Qed.

  Lemma preds0 : ib_preds (block F 0) = [].
  Proof.
    unfold wf_cfg in Hcfg. apply andb_prop in Hcfg. destruct Hcfg as [H _].
    destruct (ib_preds (block F 0)); [reflexivity|discriminate].
  Qed.

  (* ---------- the invariant ---------- *)

  Definition I3 (s : ist) (q : list nat) : Prop :=
    forall p c, is_seen s p = true -> In c (ib_succs (block F p)) ->
      In c q \/ (is_seen s c = true /\ forall idx, nth_error (ib_preds (block F c)) idx = Some p -> SE s p c idx).

  Definition LI (s : ist) (q : list nat) : Prop :=
    (In 0 q \/ is_seen s 0 = true) /\ set_of s 0 = [] /\ I3 s q.

  Lemma is_seen_cons s b x l : is_seen {| i_sets := l; i_seen := b :: i_seen s |} x = Nat.eqb x b || is_seen s x.
  Proof. reflexivity. Qed.

  (* one iteration, as the loop computes it *)
  Definition s0_of (s : ist) (b : nat) : ist :=
    match aget (i_sets s) b with Some _ => s | None => {| i_sets := astore (i_sets s) b []; i_seen := i_seen s |} end.

  Lemma s0_set s b x : set_of (s0_of s b) x = set_of s x.
  Proof.
    unfold s0_of. destruct (aget (i_sets s) b) eqn:G; auto.
    unfold set_of; simpl. rewrite aget_astore. destruct (Nat.eqb_spec b x); [subst; now rewrite G|reflexivity].
  Qed.

  Lemma s0_seen s b x : is_seen (s0_of s b) x = is_seen s x.
  Proof. unfold s0_of. destruct (aget (i_sets s) b); reflexivity. Qed.

  Lemma from_pred_ext s s' b idx p : set_of s p = set_of s' p -> from_pred F s b idx p = from_pred F s' b idx p.
  Proof. unfold from_pred. now intros ->. Qed.

  Lemma loop_S fuel s b rest : loop F (S fuel) s (b :: rest) =
    let s0 := s0_of s b in
    let '(newset, upd) := add_preds (set_of s0 b, false) (under_preds F s0 b) in
    let s1 := {| i_sets := astore (i_sets s0) b newset; i_seen := i_seen s0 |} in
    if is_seen s1 b && negb upd then loop F fuel s1 rest
    else
      let s2 := {| i_sets := i_sets s1; i_seen := if is_seen s1 b then i_seen s1 else b :: i_seen s1 |} in
      if Nat.leb max_tables (length newset) then IGaveUp
      else loop F fuel s2 (rest ++ ib_succs (block F b)).
  Proof. reflexivity. Qed.

  Lemma loop_inv : forall fuel s q s', LI s q -> loop F fuel s q = IDone s' -> LI s' [].
  Proof.
    induction fuel as [|fuel IH]; intros s q s' Inv L.
    - destruct q; simpl in L; [injection L as <-; exact Inv|discriminate].
    - destruct q as [|b rest]; [simpl in L; injection L as <-; exact Inv|].
      rewrite loop_S in L. cbv zeta in L.
      set (s0 := s0_of s b) in *.
      assert (Set0 : forall x, set_of s0 x = set_of s x) by (intros x; apply s0_set).
      assert (Seen0 : forall x, is_seen s0 x = is_seen s x) by (intros x; apply s0_seen).
      destruct (add_preds_spec (under_preds F s0 b) (set_of s0 b, false)) as (A1 & A2 & A3).
      destruct (add_preds (set_of s0 b, false) (under_preds F s0 b)) as [newset upd] eqn:AP. simpl in A1, A2, A3.
      set (s1 := {| i_sets := astore (i_sets s0) b newset; i_seen := i_seen s0 |}) in *.
      assert (Set1 : forall x, set_of s1 x = if Nat.eqb b x then newset else set_of s x).
      { intros x. unfold set_of at 1. simpl. rewrite aget_astore. destruct (Nat.eqb b x); auto. apply Set0. }
      assert (Seen1 : forall x, is_seen s1 x = is_seen s x) by (intros x; apply Seen0).
      destruct Inv as (Q0 & Z0 & Q3).
      (* edges into b from a seen predecessor are stable in s1 *)
      assert (Into : forall p idx, is_seen s p = true -> nth_error (ib_preds (block F b)) idx = Some p ->
                (p <> b \/ newset = set_of s b) -> SE s1 p b idx).
      { intros p idx Sp Nth Cond t It l Lr. right. rewrite Set1, Nat.eqb_refl.
        assert (E : set_of s1 p = set_of s0 p).
        { rewrite Set1, Set0. destruct (Nat.eqb_spec b p) as [->|]; auto. destruct Cond; [congruence|auto]. }
        assert (It0 : In t (tot s0 p)) by (unfold tot in *; now rewrite <- E).
        pose proof (from_pred_has s0 b idx p t l It0 Lr) as H.
        apply has_in in H.
        assert (Sp0 : is_seen s0 p = true) by (now rewrite Seen0).
        pose proof (up_has s0 b _ [] 0 idx p (preds_nodup b) Nth Sp0) as G. simpl in G.
        rewrite <- under_preds_eq in G. apply aget_in in G.
        exact (A1 _ _ _ G H). }
      assert (Z1 : b = 0 -> newset = []).
      { intros ->. unfold add_preds in AP. rewrite under_preds_eq, preds0 in AP. simpl in AP.
        injection AP as <- _. now rewrite Set0. }
      destruct (is_seen s1 b && negb upd) eqn:Br.
      + (* nothing new and seen before *)
        apply andb_prop in Br. destruct Br as [Sb U]. apply negb_true_iff in U. subst upd.
        destruct (A3 eq_refl) as [En _]. rewrite Set0 in En.
        rewrite Seen1 in Sb.
        apply (IH s1 rest s'); auto.
        split; [|split].
        * destruct Q0 as [[<-|I]|S0]; [right; now rewrite Seen1|now left|right; now rewrite Seen1].
        * rewrite Set1. destruct (Nat.eqb_spec b 0); auto.
        * intros p c Sp Ic. rewrite Seen1 in Sp.
          destruct (Nat.eq_dec c b) as [->|Ncb].
          { right. split; [now rewrite Seen1|]. intros idx Nth. apply Into; auto. }
          destruct (Q3 p c Sp Ic) as [[E|I]|[Sc St]]; [congruence|now left|].
          right. split; [now rewrite Seen1|]. intros idx Nth.
          apply SE_ext with s; auto.
          { rewrite Set1. destruct (Nat.eqb_spec b p); [subst; auto|reflexivity]. }
          { rewrite Set1. destruct (Nat.eqb_spec b c); [congruence|reflexivity]. }
      + (* the set grew, or b is seen for the first time: successors are queued *)
        destruct (Nat.leb max_tables (length newset)); [discriminate L|].
        set (s2 := {| i_sets := i_sets s1; i_seen := if is_seen s1 b then i_seen s1 else b :: i_seen s1 |}) in *.
        assert (Set2 : forall x, set_of s2 x = set_of s1 x) by reflexivity.
        assert (Seen2 : forall x, is_seen s2 x = Nat.eqb x b || is_seen s x).
        { intros x. unfold s2. destruct (is_seen s1 b) eqn:Sb.
          - change (is_seen {| i_sets := i_sets s1; i_seen := i_seen s1 |} x) with (is_seen s1 x).
            rewrite Seen1. destruct (Nat.eqb_spec x b) as [->|]; auto. simpl. now rewrite <- Seen1.
          - rewrite is_seen_cons. f_equal. apply Seen0. }
        apply (IH s2 (rest ++ ib_succs (block F b)) s'); auto.
        split; [|split].
        * destruct Q0 as [[<-|I]|S0].
          { right. rewrite Seen2, Nat.eqb_refl. reflexivity. }
          { left. apply in_or_app; now left. }
          { right. rewrite Seen2, S0. apply orb_true_r. }
        * rewrite Set2, Set1. destruct (Nat.eqb_spec b 0); auto.
        * intros p c Sp Ic. rewrite Seen2 in Sp.
          destruct (Nat.eq_dec p b) as [->|Npb].
          { left. apply in_or_app; now right. }
          assert (Sp' : is_seen s p = true).
          { destruct (Nat.eqb_spec p b); [congruence|]. simpl in Sp. exact Sp. }
          destruct (Nat.eq_dec c b) as [->|Ncb].
          { right. split; [rewrite Seen2, Nat.eqb_refl; reflexivity|]. intros idx Nth.
            apply SE_ext with s1; auto. }
          destruct (Q3 p c Sp' Ic) as [[E|I]|[Sc St]]; [congruence|left; apply in_or_app; now left|].
          right. split; [rewrite Seen2, Sc; apply orb_true_r|]. intros idx Nth.
          apply SE_ext with s; auto.
          { rewrite Set2, Set1. destruct (Nat.eqb_spec b p); [congruence|reflexivity]. }
          { rewrite Set2, Set1. destruct (Nat.eqb_spec b c); [congruence|reflexivity]. }
  Qed.

  Lemma forallb_idx_intro {A} (f : nat -> A -> bool) l : forall i0,
    (forall idx x, nth_error l idx = Some x -> f (i0 + idx) x = true) -> forallb_idx f i0 l = true.
  Proof.
    induction l as [|y l IH]; intros i0 H; simpl; auto.
    rewrite <- (Nat.add_0_r i0) at 1. rewrite (H 0 y eq_refl). simpl.
    apply IH. intros idx x N. rewrite Nat.add_succ_comm. apply (H (S idx)). exact N.
  Qed.

  Lemma LI_stable s : LI s [] -> stable F s = true.
  Proof.
    intros (Q0 & Z0 & Q3). unfold stable. destruct Q0 as [[]|S0]. rewrite S0, Z0. simpl.
    apply forallb_forall. intros p Ip. apply forallb_forall. intros c Ic.
    assert (Sp : is_seen s p = true).
    { unfold is_seen. apply existsb_exists. exists p. split; auto using Nat.eqb_refl. }
    destruct (Q3 p c Sp Ic) as [[]|[Sc St]]. rewrite Sc. simpl.
    apply forallb_idx_intro. intros idx x Nth. simpl.
    destruct (Nat.eqb_spec x p) as [->|]; auto. apply stable_edge_SE. auto.
  Qed.

  Theorem loop_stable fuel s : loop F fuel {| i_sets := []; i_seen := [] |} [0] = IDone s -> stable F s = true.
  Proof.
    intros L. apply LI_stable. apply (loop_inv fuel _ _ _) with (2 := L).
    split; [left; now left|split; [reflexivity|]]. intros p c Sp. discriminate.
  Qed.
End Fn.

(* the soundness theorem without validation: what inferContracts returns is true *)
Theorem infer_sound F fuel : wf_fn F = true -> wf_cfg F = true -> infer F fuel = IInferred ->
  forall b e r, reach F b e -> ib_ret (block F b) = Some r -> e (if_param F) = false -> e r = false.
Proof.
  intros W C H. apply (infer_checked_is_sound F fuel).
  unfold infer_checked. rewrite W. simpl. unfold infer in H.
  destruct (derive F []); auto.
  destruct (loop F fuel _ _) as [| |s] eqn:L; try discriminate.
  rewrite (loop_stable F C fuel s L). simpl. destruct (derive F (i_sets s)); [reflexivity|discriminate].
Qed.
