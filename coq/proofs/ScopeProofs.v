From Coq Require Import List Bool Arith PeanoNat Lia.
From NM Require Import Scope.
Import ListNotations.

Lemma has_prefix_spec s p : has_prefix s p = true <-> exists t, s = p ++ t.
Proof.
  revert s. induction p as [|b p IH]; intros s; cbn.
  - split; [intros _; now exists s | auto].
  - destruct s as [|a s].
    { split; [discriminate | intros [t H]; discriminate]. }
    rewrite andb_true_iff, Nat.eqb_eq, IH. split.
    + intros [-> [t ->]]. now exists t.
    + intros [t H]. inversion H; subst. split; auto. now exists t.
Qed.

(* a package is analysed iff its path starts with an include prefix and with no exclude prefix *)
Theorem scope_iff inc exc path :
  is_pkg_in_scope inc exc path = true <->
  (exists i, In i inc /\ has_prefix path i = true) /\ (forall e, In e exc -> has_prefix path e = false).
Proof.
  induction inc as [|i inc IH]; cbn.
  - split; [discriminate | intros [[i [[] _]] _]].
  - destruct (has_prefix path i) eqn:E.
    + rewrite negb_true_iff. split.
      * intros H. split; [exists i; auto|]. intros e He.
        destruct (has_prefix path e) eqn:E2; auto.
        assert (existsb (has_prefix path) exc = true) by (apply existsb_exists; eauto). congruence.
      * intros [_ H]. destruct (existsb (has_prefix path) exc) eqn:E2; auto.
        apply existsb_exists in E2. destruct E2 as [e [He E2]]. rewrite (H e He) in E2. discriminate.
    + rewrite IH. split.
      * intros [[j [Hj Ej]] H]. split; auto. exists j. auto.
      * intros [[j [[<-|Hj] Ej]] H]; [congruence|]. split; auto. exists j. auto.
Qed.

Theorem exclude_wins inc exc path e : In e exc -> has_prefix path e = true -> is_pkg_in_scope inc exc path = false.
Proof.
  intros He Hp. destruct (is_pkg_in_scope inc exc path) eqn:E; auto.
  apply scope_iff in E. destruct E as [_ H]. rewrite (H e He) in Hp. discriminate.
Qed.

(* an empty include flag means everything (that is not excluded) *)
Theorem empty_include_means_all exc_flag path :
  in_scope_flags [] exc_flag path = negb (existsb (has_prefix path) (excludes_of_flag exc_flag)).
Proof. reflexivity. Qed.

Theorem empty_flags_all path : in_scope_flags [] [] path = true.
Proof. reflexivity. Qed.

(* the elements of a split flag are exactly its comma-separated pieces: joining them gives the flag back *)
Fixpoint join_comma (l : list str) : str :=
  match l with
  | [] => []
  | [x] => x
  | x :: l' => x ++ comma :: join_comma l'
  end.

Lemma split_comma_nonempty s : forall cur, split_comma s cur <> [].
Proof.
  induction s as [|c s IH]; intros cur; cbn; [discriminate|].
  destruct (Nat.eqb c comma); [discriminate | apply IH].
Qed.

Lemma split_comma_join s : forall cur, join_comma (split_comma s cur) = rev cur ++ s.
Proof.
  induction s as [|c s IH]; intros cur; cbn.
  - now rewrite app_nil_r.
  - destruct (Nat.eqb c comma) eqn:E.
    + apply Nat.eqb_eq in E; subst c.
      pose proof (split_comma_nonempty s []) as Hne.
      pose proof (IH []) as IH0. cbn [rev app] in IH0.
      destruct (split_comma s []) as [|y l] eqn:Es; [congruence|].
      change (join_comma (rev cur :: y :: l)) with (rev cur ++ comma :: join_comma (y :: l)).
      now rewrite IH0.
    + rewrite IH. cbn. rewrite <- app_assoc. reflexivity.
Qed.

Theorem split_join flag : join_comma (split_comma flag []) = flag.
Proof. apply (split_comma_join flag []). Qed.

Lemma split_no_comma s : forall cur, ~ In comma cur -> forall x, In x (split_comma s cur) -> ~ In comma x.
Proof.
  induction s as [|c s IH]; intros cur Hc x Hx; cbn in Hx.
  - destruct Hx as [<-|[]]. now rewrite <- in_rev.
  - destruct (Nat.eqb c comma) eqn:E.
    + destruct Hx as [<-|Hx]; [now rewrite <- in_rev | apply (IH [] (fun H => H) x Hx)].
    + apply Nat.eqb_neq in E. apply (IH (c :: cur)); auto. intros [H|H]; auto.
Qed.

Theorem file_scope_spec templ excluded present :
  is_file_in_scope templ excluded present = true <->
  templ = true \/ (forall e, In e excluded -> ~ In e present).
Proof.
  unfold is_file_in_scope. rewrite orb_true_iff, negb_true_iff. split.
  - intros [H|H]; auto. right. intros e He Hp.
    assert (existsb (fun e => existsb (Nat.eqb e) present) excluded = true).
    { apply existsb_exists. exists e. split; auto. apply existsb_exists. exists e. split; auto. apply Nat.eqb_refl. }
    congruence.
  - intros [H|H]; auto. right.
    destruct (existsb (fun e => existsb (Nat.eqb e) present) excluded) eqn:E; auto.
    apply existsb_exists in E. destruct E as [e [He E]]. apply existsb_exists in E. destruct E as [x [Hx E]].
    apply Nat.eqb_eq in E. subst. exfalso. eapply H; eauto.
Qed.

Example scope_example :
  is_pkg_in_scope [[1;2]; [1]] [[1;2;3]] [1;2;4] = true /\ is_pkg_in_scope [[1;2]; [1]] [[1;2;3]] [1;2;3;9] = false /\
  is_pkg_in_scope [[1;2]] [] [7] = false.
Proof. repeat split. Qed.

(* ---- regenerated inventory of analyzers: everything that can publish facts or findings starts with the
   package-scope guard ---- *)
From NG Require Import Inventory.
From Coq Require Import String.

(* analyzers that run no analysis of their own: the flag holder, the two top-level wrappers (they only relay the
   accumulation analyzer's result) and the nolint reader, whose NoLint fact is outside C12's statement *)
Definition scope_exempt : list string :=
  ["config/config.go:Analyzer"; "nilaway.go:Analyzer"; "cmd/nilaway/main.go:Analyzer"; "diagnostic/nolint.go:NoLintAnalyzer"]%string.

Definition analyzer_ok (a : string * bool * bool) : bool :=
  let '(name, facts, guarded) := a in
  if existsb (String.eqb name) scope_exempt then true else guarded.

Lemma analyzers_guarded : forallb analyzer_ok analyzers_gen = true.
Proof. vm_compute. reflexivity. Qed.

(* the ones that declare the three fact kinds of the statement are present and guarded *)
Lemma fact_analyzers_guarded :
  forallb (fun n => existsb (fun a => let '(name, facts, guarded) := a in String.eqb name n && facts && guarded) analyzers_gen)
    ["accumulation/analyzer.go:Analyzer"; "assertion/affiliation/analyzer.go:Analyzer";
     "assertion/function/functioncontracts/analyzer.go:Analyzer"]%string = true.
Proof. vm_compute. reflexivity. Qed.

(* loops over the package's files: every one of them first consults IsFileInScope, except lookups by file name,
   the experimental struct-init-v2 collector, the grouping key (which filters inside its condition) and the nolint
   reader *)
Definition file_loop_exempt : list string :=
  ["assertion/function/assertiontree/util.go:lookupAstFromFile:files1";
   "assertion/function/assertiontree/util.go:lookupAstFromFilename:files1";
   "assertion/function/structfieldeffects/collector.go:computeBoundaryFieldEffects:files1";
   "diagnostic/conflict.go:groupConflicts:files1";
   "diagnostic/nolint.go:run:files1"]%string.

Lemma file_loops_guarded :
  forallb (fun a : string * bool => snd a || existsb (String.eqb (fst a)) file_loop_exempt) file_loops_gen = true.
Proof. vm_compute. reflexivity. Qed.
