(* C20, first half: a contract accepted by infer_sem (model/Contract.v) is true of every execution of the function,
   whatever its callees and the package-level variables do. *)
From Coq Require Import List Bool Arith PeanoNat Lia.
From NM Require Import MiniGo Contract.
From NP Require Import FlowProofs.
Import ListNotations.

Lemma value_eqb_eq a b : value_eqb a b = true <-> anil a = anil b.
Proof. unfold value_eqb. split; intros H; [now apply eqb_prop | rewrite H; apply eqb_reflx]. Qed.

Section Sets.
  Variable vars : list nat.

  (* a concrete store (locals and package-level variables) is represented by an abstract local store *)
  Definition sim (s a : store) : Prop := forall x, In x vars -> anil (sget s (VL x)) = anil (sget a (VL x)).
  Definition covers (S : list store) (s : store) : Prop := exists a, In a S /\ sim s a.

  Lemma st_eqb_spec a b : st_eqb vars a b = true <-> forall x, In x vars -> anil (sget a (VL x)) = anil (sget b (VL x)).
  Proof.
    unfold st_eqb. rewrite forallb_forall. split; intros H x Hx.
    - apply value_eqb_eq. auto.
    - apply value_eqb_eq. auto.
  Qed.

  Lemma sim_eqb s a b : sim s a -> st_eqb vars a b = true -> sim s b.
  Proof. intros H E x Hx. rewrite (H x Hx). apply (proj1 (st_eqb_spec a b) E x Hx). Qed.

  Lemma st_mem_covers a S s : st_mem vars a S = true -> sim s a -> covers S s.
  Proof.
    unfold st_mem. intros H Hs. apply existsb_exists in H. destruct H as [b [Hb E]].
    exists b. split; auto. eapply sim_eqb; eauto.
  Qed.

  Lemma covers_add a S s : covers (st_add vars a S) s <-> sim s a \/ covers S s.
  Proof.
    unfold st_add. destruct (st_mem vars a S) eqn:E.
    - split; [auto|]. intros [H|H]; auto. eapply st_mem_covers; eauto.
    - split.
      + intros [b [[<-|Hb] Hs]]; [auto|right; exists b; auto].
      + intros [H|[b [Hb Hs]]]; [exists a; split; [left; auto|auto] | exists b; split; [right; auto|auto]].
  Qed.

  Lemma covers_fold_add L T s : covers (fold_right (st_add vars) T L) s <-> covers L s \/ covers T s.
  Proof.
    induction L as [|a L IH]; cbn.
    - split; [auto|]. intros [[b [[] _]]|H]; auto.
    - rewrite covers_add, IH. split.
      + intros [H|[H|H]]; auto.
        * left. exists a. split; [left; auto|auto].
        * destruct H as [b [Hb Hs]]. left. exists b. split; [right; auto|auto].
      + intros [[b [[<-|Hb] Hs]]|H]; auto. right. left. exists b. auto.
  Qed.

  Lemma covers_union S T s : covers (st_union vars S T) s <-> covers S s \/ covers T s.
  Proof. apply covers_fold_add. Qed.

  Lemma covers_subset S T s : st_subset vars S T = true -> covers S s -> covers T s.
  Proof.
    unfold st_subset. rewrite forallb_forall. intros H [a [Ha Hs]]. eapply st_mem_covers; eauto.
  Qed.

  Lemma covers_filter (P : store -> bool) S s :
    (exists a, In a S /\ sim s a /\ P a = true) -> covers (filter P S) s.
  Proof. intros [a [Ha [Hs Hp]]]. exists a. split; auto. apply filter_In. auto. Qed.

  Lemma covers_nil s : ~ covers [] s.
  Proof. intros [a [[] _]]. Qed.
End Sets.

Section Sound.
  Variable prog : program.
  Variable vars : list nat.

  Lemma hvals_sound s a at_ : sim vars s a -> incl (latom at_) vars ->
    exists v, In v (hvals a at_) /\ anil v = anil (eval_atom s at_).
  Proof.
    intros Hs Hi. destruct at_ as [| |[x|k]]; cbn.
    - exists VNil. auto.
    - exists (VPtr None). auto.
    - exists (sget a (VL x)). split; auto. symmetry. apply Hs. apply Hi. left. reflexivity.
    - destruct (sget s (VG k)); [exists VNil|exists (VPtr None)]; cbn; auto.
  Qed.

  Lemma hcond_sound c : forall s a oracle b o', sim vars s a -> incl (lcond c) vars ->
    eval_cond s c oracle = CVal b o' -> In b (hcond a c).
  Proof.
    induction c as [|x|d x|c IH|c1 IH1 c2 IH2|c1 IH1 c2 IH2]; intros s a oracle b o' Hs Hi He; cbn in He, Hi |- *.
    - destruct (ask oracle) as [b0 o0]. inversion He; subst. destruct b; cbn; auto.
    - inversion He; subst. destruct x as [x|k].
      + rewrite <- (Hs x) by (apply Hi; left; reflexivity). left. destruct (sget s (VL x)); reflexivity.
      + destruct (sget s (VG k)); cbn; auto.
    - destruct x as [x|k].
      + rewrite <- (Hs x) by (apply Hi; left; reflexivity). destruct (sget s (VL x)); [discriminate|]. cbn.
        destruct (ask oracle) as [b0 o0]. inversion He; subst. destruct b; cbn; auto.
      + destruct (sget s (VG k)); [discriminate|]. destruct (ask oracle) as [b0 o0]. inversion He; subst. destruct b; cbn; auto.
    - destruct (eval_cond s c oracle) as [b0 o0|] eqn:E; [|discriminate]. inversion He; subst.
      apply in_map. eapply IH; eauto.
    - destruct (eval_cond s c1 oracle) as [b0 o0|] eqn:E; [|discriminate].
      apply in_flat_map. exists b0. split; [eapply IH1; eauto; intros y Hy; apply Hi; apply in_or_app; auto|].
      destruct b0.
      + eapply IH2; eauto. intros y Hy; apply Hi; apply in_or_app; auto.
      + inversion He; subst. left. reflexivity.
    - destruct (eval_cond s c1 oracle) as [b0 o0|] eqn:E; [|discriminate].
      apply in_flat_map. exists b0. split; [eapply IH1; eauto; intros y Hy; apply Hi; apply in_or_app; auto|].
      destruct b0.
      + inversion He; subst. left. reflexivity.
      + eapply IH2; eauto. intros y Hy; apply Hi; apply in_or_app; auto.
  Qed.

  Lemma sim_sset_local s a x v v' : sim vars s a -> anil v = anil v' -> sim vars (sset s (VL x) v) (sset a (VL x) v').
  Proof. intros H E y Hy. rewrite !sget_sset. destruct (var_eqb (VL x) (VL y)); auto. Qed.
  Lemma sim_sset_global s a k v : sim vars s a -> sim vars (sset s (VG k) v) a.
  Proof. intros H y Hy. rewrite sget_sset. cbn. auto. Qed.

  (* assigning any value the abstraction allows *)
  Lemma assign_covers S s a x v v' (vf : store -> list value) :
    In a S -> sim vars s a -> In v' (vf a) -> anil v = anil v' ->
    covers vars (fold_right (st_add vars) [] (flat_map (fun a => assign_all vars a x (vf a)) S)) (sset s x v).
  Proof.
    intros Ha Hs Hv E. apply covers_fold_add. left. destruct x as [x|k]; cbn.
    - exists (sset a (VL x) v'). split; [|now apply sim_sset_local].
      apply in_flat_map. exists a. split; auto. cbn. apply in_map. auto.
    - exists a. split; [|now apply sim_sset_global]. apply in_flat_map. exists a. split; auto. cbn. auto.
  Qed.

  Lemma sim_after s s' a : sim vars s a -> sim vars (globals_of s' ++ locals_of s) a.
  Proof. intros H x Hx. rewrite sget_after. cbn. auto. Qed.

  Lemma hloop_spec (body : list store -> option hres) c : forall n S Sinv b,
    hloop vars body c n S = Some (Sinv, b) ->
    (forall s, covers vars S s -> covers vars Sinv s) /\
    exists r, body (filter (fun s => existsb (fun b : bool => b) (hcond s c)) Sinv) = Some r /\
              st_subset vars (h_norm r) Sinv = true /\ (h_bad r = true -> b = true).
  Proof.
    induction n as [|n IH]; intros S Sinv b H; cbn in H; [discriminate|].
    destruct (body (filter (fun s => existsb (fun b : bool => b) (hcond s c)) S)) as [r|] eqn:Eb; [|discriminate].
    destruct (st_subset vars (h_norm r) S) eqn:Es.
    - inversion H; subst. split; auto. exists r. auto.
    - destruct (hloop vars body c n (st_union vars (h_norm r) S)) as [[S' b']|] eqn:El; [|discriminate].
      inversion H; subst. destruct (IH _ _ _ El) as [A [r' [B1 [B2 B3]]]]. split.
      + intros s Hs. apply A. apply covers_union. auto.
      + exists r'. repeat split; auto. intros Hb. rewrite (B3 Hb). reflexivity.
  Qed.

  Definition enter c := fun s : store => existsb (fun b : bool => b) (hcond s c).
  Definition leave c := fun s : store => existsb negb (hcond s c).

  Theorem hreach_sound hf : forall fuelx st s oracle S r,
    hreach vars hf st S = Some r -> incl (lstmt st) vars -> covers vars S s ->
    match exec prog fuelx st s oracle with
    | ONormal s' _ => covers vars (h_norm r) s'
    | OReturn v _ _ => v = VNil -> h_bad r = true
    | _ => True
    end.
  Proof.
    induction fuelx as [|fuelx IH]; intros st s oracle S r Hh Hi Hc; cbn [exec]; auto.
    destruct st as [| s1 s2 | x a | cs x g args | d x | c s1 s2 | c body | a | x ik j | x y ik ik2 | cs d x xi ik m args | a er | cs x xe g args | cs g args]; cbn in Hh, Hi.
    - inversion Hh; subst. exact Hc.
    - destruct (hreach vars hf s1 S) as [r1|] eqn:E1; [|discriminate].
      destruct (hreach vars hf s2 (h_norm r1)) as [r2|] eqn:E2; [|discriminate]. inversion Hh; subst. cbn.
      assert (I1 : incl (lstmt s1) vars) by (intros y Hy; apply Hi; apply in_or_app; auto).
      assert (I2 : incl (lstmt s2) vars) by (intros y Hy; apply Hi; apply in_or_app; auto).
      pose proof (IH s1 s oracle S r1 E1 I1 Hc) as R1.
      destruct (exec prog fuelx s1 s oracle) as [s' o'|v s' o'|d|]; auto.
      + pose proof (IH s2 s' o' _ r2 E2 I2 R1) as R2.
        destruct (exec prog fuelx s2 s' o') as [s'' o''|v s'' o''|d|]; auto.
        intros Hv. rewrite (R2 Hv). apply orb_true_r.
      + intros Hv. now rewrite (R1 Hv).
    - inversion Hh; subst. cbn. destruct Hc as [a0 [Ha Hs]].
      destruct (hvals_sound s a0 a Hs) as [v' [Hv' Ev]]; [intros y Hy; apply Hi; apply in_or_app; auto|].
      eapply (assign_covers S s a0 x (eval_atom s a) v' (fun s0 => hvals s0 a)); eauto.
    - inversion Hh; subst. cbn. destruct Hc as [a0 [Ha Hs]].
      assert (Step : forall s1 v, sim vars s1 a0 ->
                covers vars (match x with
                             | Some y => fold_right (st_add vars) [] (flat_map (fun s0 => assign_all vars s0 y [VNil; VPtr None]) S)
                             | None => S end)
                       (match x with Some y => sset s1 y v | None => s1 end)).
      { intros s1 v H1. destruct x as [y|]; [|exists a0; auto].
        eapply (assign_covers S s1 a0 y v (if anil v then VNil else VPtr None) (fun _ => [VNil; VPtr None])); eauto;
          destruct v; cbn; auto. }
      destruct (nth_error (p_funcs prog) g) as [fd|].
      + destruct (exec prog fuelx (f_body fd) (bind_params 0 (map (eval_atom s) args) ++ globals_of s) oracle) as [s' o'|v s' o'|d|]; auto.
        * apply Step. now apply sim_after.
        * destruct (sget s' VERR); auto. apply Step. now apply sim_after.
      + destruct x as [y|]; [|exists a0; auto].
        apply covers_fold_add. left. destruct y as [y|k]; cbn.
        * exists (sset a0 (VL y) (if anil (sget s (VL y)) then VNil else VPtr None)). split.
          -- apply in_flat_map. exists a0. split; auto. cbn. destruct (sget s (VL y)); cbn; auto.
          -- intros z Hz. rewrite sget_sset. cbn. destruct (Nat.eqb y z) eqn:E; auto. apply Nat.eqb_eq in E. subst.
             destruct (sget s (VL z)); reflexivity.
        * exists a0. split; auto. apply in_flat_map. exists a0. split; auto. cbn. auto.
    - inversion Hh; subst. cbn. destruct Hc as [a0 [Ha Hs]]. destruct (sget s x) eqn:E; auto.
      destruct x as [x|k]; [|exists a0; auto].
      apply covers_filter. exists a0. repeat split; auto.
      rewrite <- (Hs x) by (apply Hi; left; reflexivity). now rewrite E.
    - destruct (hreach vars hf s1 (filter (fun s0 => existsb (fun b : bool => b) (hcond s0 c)) S)) as [r1|] eqn:E1; [|discriminate].
      destruct (hreach vars hf s2 (filter (fun s0 => existsb negb (hcond s0 c)) S)) as [r2|] eqn:E2; [|discriminate].
      inversion Hh; subst. cbn.
      assert (Ic : incl (lcond c) vars) by (intros y Hy; apply Hi; apply in_or_app; auto).
      assert (I1 : incl (lstmt s1) vars) by (intros y Hy; apply Hi; apply in_or_app; right; apply in_or_app; auto).
      assert (I2 : incl (lstmt s2) vars) by (intros y Hy; apply Hi; apply in_or_app; right; apply in_or_app; auto).
      destruct Hc as [a0 [Ha Hs]].
      destruct (eval_cond s c oracle) as [b o'|d] eqn:Ec; auto.
      pose proof (hcond_sound c s a0 oracle b o' Hs Ic Ec) as Hb.
      destruct b.
      + assert (Hc1 : covers vars (filter (fun s0 => existsb (fun b : bool => b) (hcond s0 c)) S) s).
        { apply covers_filter. exists a0. repeat split; auto. apply existsb_exists. exists true. auto. }
        pose proof (IH s1 s o' _ r1 E1 I1 Hc1) as R.
        destruct (exec prog fuelx s1 s o') as [s' o''|v s' o''|d|]; auto.
        * apply covers_union. auto.
        * intros Hv. now rewrite (R Hv).
      + assert (Hc2 : covers vars (filter (fun s0 => existsb negb (hcond s0 c)) S) s).
        { apply covers_filter. exists a0. repeat split; auto. apply existsb_exists. exists false. auto. }
        pose proof (IH s2 s o' _ r2 E2 I2 Hc2) as R.
        destruct (exec prog fuelx s2 s o') as [s' o''|v s' o''|d|]; auto.
        * apply covers_union. auto.
        * intros Hv. rewrite (R Hv). apply orb_true_r.
    - destruct (hloop vars (hreach vars hf body) c hf S) as [[Sinv b]|] eqn:El; [|discriminate].
      inversion Hh; subst. cbn.
      destruct (hloop_spec _ _ _ _ _ _ El) as [Hsub [rb [Hb1 [Hb2 Hb3]]]].
      assert (Ic : incl (lcond c) vars) by (intros y Hy; apply Hi; apply in_or_app; auto).
      assert (Ib : incl (lstmt body) vars) by (intros y Hy; apply Hi; apply in_or_app; auto).
      pose proof (Hsub s Hc) as [a0 [Ha Hs]].
      destruct (eval_cond s c oracle) as [bb o'|d] eqn:Ec; auto.
      pose proof (hcond_sound c s a0 oracle bb o' Hs Ic Ec) as Hbb.
      destruct bb.
      + assert (Hc1 : covers vars (filter (fun s0 => existsb (fun b : bool => b) (hcond s0 c)) Sinv) s).
        { apply covers_filter. exists a0. repeat split; auto. apply existsb_exists. exists true. auto. }
        pose proof (IH body s o' _ rb Hb1 Ib Hc1) as R.
        destruct (exec prog fuelx body s o') as [s' o''|v s' o''|d|]; auto.
        (* the invariant is closed: analysing the loop from it gives the same exits *)
          assert (Hl : hreach vars hf (SWhile c body) Sinv =
                       Some {| h_norm := filter (fun s0 => existsb negb (hcond s0 c)) Sinv; h_bad := h_bad rb |}).
          { cbn. destruct hf as [|hf']; [cbn in El; discriminate|]. cbn. rewrite Hb1, Hb2. reflexivity. }
          pose proof (IH (SWhile c body) s' o'' Sinv _ Hl Hi (covers_subset vars _ _ s' Hb2 R)) as R2.
          destruct (exec prog fuelx (SWhile c body) s' o'') as [s2 o2|v s2 o2|d|]; auto.
      + apply covers_filter. exists a0. repeat split; auto. apply existsb_exists. exists false. auto.
    - inversion Hh; subst. cbn. intros Hv. destruct Hc as [a0 [Ha Hs]].
      apply existsb_exists. exists a0. split; auto. apply existsb_exists.
      destruct (hvals_sound s a0 a Hs Hi) as [v' [Hv' Ev]]. exists v'. split; auto. rewrite Ev, Hv. reflexivity.
    - inversion Hh; subst. cbn. destruct Hc as [a0 [Ha Hs]].
      eapply (assign_covers S s a0 x (VPtr (Some (ik, j))) (VPtr None) (fun _ => [VPtr None])); eauto. cbn. auto.
    - (* x = y between interface types: nil stays nil, a value stays a value *)
      inversion Hh; subst. cbn. destruct Hc as [a0 [Ha Hs]].
      destruct (hvals_sound s a0 (AVar y) Hs) as [v' [Hv' Ev]]; [intros z Hz; apply Hi; apply in_or_app; auto|].
      cbn [eval_atom] in Ev.
      destruct (sget s y) as [|[[k' j]|]] eqn:Ey; auto.
      + eapply (assign_covers S s a0 x VNil v' (fun s0 => hvals s0 (AVar y))); eauto.
      + destruct (Nat.eqb ik2 k'); auto.
        eapply (assign_covers S s a0 x (VPtr (Some (ik, j))) v' (fun s0 => hvals s0 (AVar y))); eauto.
    - inversion Hh; subst. cbn. destruct Hc as [a0 [Ha Hs]].
      destruct (sget s xi) as [|[[k' j]|]] eqn:Exi; auto.
      destruct (if Nat.eqb ik k' then nth_error (nth j (p_impls prog) []) m else None) as [f|]; auto.
      destruct (nth_error (p_funcs prog) f) as [fd|]; auto.
      set (S' := match xi with VL _ => filter (fun s0 => negb (anil (sget s0 xi))) S | VG _ => S end).
      assert (Ha' : In a0 S').
      { subst S'. destruct xi as [y|g]; auto. apply filter_In. split; auto.
        rewrite <- (Hs y) by (apply Hi; apply in_or_app; right; apply in_or_app; left; left; reflexivity). now rewrite Exi. }
      assert (Step : forall s1 v, sim vars s1 a0 ->
                covers vars (match x with
                             | Some y => fold_right (st_add vars) [] (flat_map (fun s0 => assign_all vars s0 y [VNil; VPtr None]) S')
                             | None => S' end)
                       (match x with Some y => sset s1 y v | None => s1 end)).
      { intros s1 v H1. destruct x as [y|]; [|exists a0; auto].
        eapply (assign_covers S' s1 a0 y v (if anil v then VNil else VPtr None) (fun _ => [VNil; VPtr None])); eauto;
          destruct v; cbn; auto. }
      match goal with |- context [exec prog fuelx (f_body fd) ?st0 oracle] =>
        destruct (exec prog fuelx (f_body fd) st0 oracle) as [s' o'|v s' o'|d'|]; auto end.
      + apply Step. now apply sim_after.
      + destruct (sget s' VERR); auto. apply Step. now apply sim_after.
    - (* return a, er *)
      inversion Hh; subst. cbn. intros Hv. destruct Hc as [a0 [Ha Hs]].
      apply existsb_exists. exists a0. split; auto. apply existsb_exists.
      destruct (hvals_sound s a0 a Hs) as [v' [Hv' Ev]]; [intros y Hy; apply Hi; apply in_or_app; auto|].
      exists v'. split; auto. rewrite Ev, Hv. reflexivity.
    - (* x, xe = g(args) *)
      inversion Hh; subst. cbn. destruct Hc as [a0 [Ha Hs]].
      set (S1 := match x with
                 | Some y => fold_right (st_add vars) [] (flat_map (fun s0 => assign_all vars s0 y [VNil; VPtr None]) S)
                 | None => S end).
      assert (Step : forall s1 v ev, sim vars s1 a0 ->
                covers vars (match xe with
                             | Some y => fold_right (st_add vars) [] (flat_map (fun s0 => assign_all vars s0 y [VNil; VPtr None]) S1)
                             | None => S1 end)
                       (match xe with Some y => sset (match x with Some y' => sset s1 y' v | None => s1 end) y ev
                                    | None => match x with Some y' => sset s1 y' v | None => s1 end end)).
      { intros s1 v ev H1.
        assert (C1 : covers vars S1 (match x with Some y' => sset s1 y' v | None => s1 end)).
        { subst S1. destruct x as [y|]; [|exists a0; auto].
          eapply (assign_covers S s1 a0 y v (if anil v then VNil else VPtr None) (fun _ => [VNil; VPtr None])); eauto;
            destruct v; cbn; auto. }
        destruct xe as [ye|]; auto. destruct C1 as [a1 [Ha1 Hs1]].
        eapply (assign_covers S1 _ a1 ye ev (if anil ev then VNil else VPtr None) (fun _ => [VNil; VPtr None])); eauto;
          destruct ev; cbn; auto. }
      destruct (nth_error (p_funcs prog) g) as [fd|].
      + destruct (exec prog fuelx (f_body fd) (bind_params 0 (map (eval_atom s) args) ++ globals_of s) oracle) as [s' o'|v s' o'|d|]; auto.
        * apply (Step _ VNil VNil). now apply sim_after.
        * apply (Step _ v (sget s' VERR)). now apply sim_after.
      + (* no such function: nothing happens; the state is one of those the abstraction allows *)
        assert (E : forall s0 z w, sim vars (sset s0 z (sget s0 z)) w -> sim vars s0 w).
        { intros s0 z w H y Hy. rewrite <- (H y Hy). rewrite sget_sset. destruct (var_eqb z (VL y)) eqn:Ez; auto.
          apply var_eqb_eq in Ez. now subst. }
        pose proof (Step s (match x with Some y' => sget s y' | None => VNil end)
                           (match xe with Some y => sget (match x with Some y' => sset s y' (sget s y') | None => s end) y | None => VNil end) Hs) as [w [Hw Hsw]].
        exists w. split; auto.
        destruct xe as [ye|]; destruct x as [y|]; auto.
        * apply (E s y). apply (E _ ye). exact Hsw.
        * apply (E s ye). exact Hsw.
        * apply (E s y). exact Hsw.
    - (* return g(args): the state is covered, so the abstract state set is not empty *)
      inversion Hh; subst. cbn. destruct Hc as [a0 [Ha Hs]].
      assert (Hne : match S with [] => false | _ => true end = true) by (destruct S; [destruct Ha|reflexivity]).
      destruct (nth_error (p_funcs prog) g) as [fd|]; auto.
      destruct (exec prog fuelx (f_body fd) (bind_params 0 (map (eval_atom s) args) ++ globals_of s) oracle) as [s' o'|v s' o'|d|]; auto.
  Qed.
End Sound.

(* an accepted contract is true: started with a non-nil argument the function never returns nil nor falls off its
   end, in any program, for any values of the package-level variables and any opaque answers *)
Theorem infer_sem_sound prog hf fd : infer_sem hf fd = true -> contract_true prog fd.
Proof.
  unfold infer_sem. intros H. apply andb_true_iff in H. destruct H as [Hn H].
  set (vars := 0 :: lstmt (f_body fd)) in *.
  destruct (hreach vars hf (f_body fd) [[(VL 0, VPtr None)]]) as [r|] eqn:Eh; [|discriminate].
  apply andb_true_iff in H. destruct H as [Hb Hnorm]. apply negb_true_iff in Hb.
  destruct (h_norm r) eqn:En; [|discriminate].
  intros fuel gs oracle dd Hgs.
  assert (Hc : covers vars [[(VL 0, VPtr None)]] (bind_params 0 [VPtr dd] ++ gs)).
  { exists [(VL 0, VPtr None)]. split; [left; reflexivity|]. intros x _. cbn. destruct x as [|x]; auto. now rewrite Hgs. }
  assert (Hi : incl (lstmt (f_body fd)) vars) by (intros y Hy; right; auto).
  pose proof (hreach_sound prog vars hf fuel (f_body fd) _ oracle _ r Eh Hi Hc) as R.
  destruct (exec prog fuel (f_body fd) (bind_params 0 [VPtr dd] ++ gs) oracle) as [s' o'|v s' o'|d|]; auto.
  - rewrite En in R. exact (covers_nil vars s' R).
  - destruct v; [|discriminate]. rewrite (R eq_refl) in Hb. discriminate.
Qed.
