(* C10 at engine level: annotations are binding. *)
From Coq Require Import List Bool Arith PeanoNat Lia Permutation.
From NM Require Import Engine EngineSpec.
From NP Require Import EngineBasics EngineStep EngineSound EngineComplete EngineMain EngineTerm.
Import ListNotations.

(* a determined entry is never replaced *)
Lemma step_det_mono st it st1 new s e : step st it = (st1, new) -> det_l (mp st) s = Some e -> det_l (mp st1) s = Some e.
Proof.
  intros Hs Hd. destruct it as [s0 e0 | t | p c t]; cbn in Hs.
  - pose proof (lookup_view (mp st) s0) as V.
    destruct (lookup (mp st) s0) as [[e'|i o]|] eqn:El.
    + destruct (Bool.eqb _ _); inversion Hs; subst; auto.
    + inversion Hs; subst. cbn. rewrite det_store_det. destruct (Nat.eqb s0 s) eqn:E; auto.
      apply Nat.eqb_eq in E; subst. destruct V as [V _]. congruence.
    + inversion Hs; subst. cbn. rewrite det_store_det. destruct (Nat.eqb s0 s) eqn:E; auto.
      apply Nat.eqb_eq in E; subst. destruct V as [V _]. congruence.
  - destruct (t_prod t), (t_cons t); inversion Hs; subst; auto.
  - destruct (step_impl_cases _ _ _ _ _ _ Hs) as
        [[_ [-> _]]|[[_ [-> _]]|[[_ [_ [-> _]]]|[[_ [_ [-> _]]]|[_ [_ [-> _]]]]]]]; auto.
    cbn. now rewrite store_impl_det.
Qed.

Lemma Run_det_mono st work st' s e : Run st work st' -> det_l (mp st) s = Some e -> det_l (mp st') s = Some e.
Proof. induction 1; auto. intros D. apply IHRun. eapply step_det_mono; eauto. Qed.

(* observing annotations on fresh sites, with no controlled triggers registered yet *)
Lemma annots_run : forall (l : list (site * bool)) st st',
  ctl st = [] -> NoDup (map fst l) -> (forall s, In s (map fst l) -> lookup (mp st) s = None) ->
  Run st (map (fun sb => ISite (fst sb) (EAnnot (snd sb) (fst sb))) l) st' ->
  forall s b, In (s, b) l -> det_l (mp st') s = Some (EAnnot b s).
Proof.
  induction l as [|[s0 b0] l IH]; intros st st' Hc Hnd Hfresh HR s b Hin; [destruct Hin|].
  cbn in HR. inversion HR as [|? ? ? st1 new ? Hs HR']; subst.
  cbn in Hs. rewrite (Hfresh s0 (or_introl eq_refl)) in Hs. inversion Hs; subst st1 new; clear Hs.
  unfold activate in HR'. rewrite Hc in HR'. cbn in HR'.
  assert (HR'' : Run (set_mp st (store (mp st) s0 (Det (EAnnot b0 s0))))
                     (map (fun sb => ISite (fst sb) (EAnnot (snd sb) (fst sb))) l) st').
  { destruct b0; cbn in HR'; exact HR'. }
  inversion Hnd as [|? ? Hnotin Hnd']; subst.
  destruct Hin as [Hin|Hin].
  - inversion Hin; subst s0 b0. eapply Run_det_mono; eauto. cbn. rewrite det_store_det. now rewrite Nat.eqb_refl.
  - apply (IH (set_mp st (store (mp st) s0 (Det (EAnnot b0 s0)))) st'); auto.
    intros x Hx. cbn. rewrite lookup_store. destruct (Nat.eqb s0 x) eqn:E.
    + apply Nat.eqb_eq in E; subst. contradiction.
    + apply Hfresh. right; auto.
Qed.

Lemma sort_by_fst_nodup {B} (l : list (nat * B)) : NoDup (map fst l) -> NoDup (map fst (sort_by fst l)).
Proof.
  intros H. eapply Permutation_NoDup; [|exact H]. apply Permutation_map. symmetry. apply sort_by_perm.
Qed.

Section Annot.
  Variables (facts : list (nat * fact)) (annots : list (site * bool)) (ts : list trigger).
  Let C := pkg_csys facts annots ts.

  (* sites that the imported facts mention *)
  Definition fact_sites : list site := flat_map sites_of_item (upstream_items facts).

  Theorem annotation_wins st :
    pkg_run facts annots ts st -> NoDup (map fst annots) ->
    (forall s, In s (map fst annots) -> ~ In s fact_sites) ->
    forall s b, In (s, b) annots -> det_l (mp st) s = Some (EAnnot b s).
  Proof.
    intros [st0 [st1 [RA [RB RC]]]] Hnd Hfresh s b Hin.
    assert (CA : closed fact_sites init_state (upstream_items facts)).
    { constructor; cbn; try (intros; contradiction).
      intros it x Hit Hx. unfold fact_sites. apply in_flat_map. eauto. }
    pose proof (Run_closed _ _ _ _ RA CA) as C0.
    assert (H1 : det_l (mp st1) s = Some (EAnnot b s)).
    { eapply (annots_run (sort_by fst annots) st0 st1); eauto.
      - now rewrite (Run_ctl _ _ _ RA).
      - now apply sort_by_fst_nodup.
      - intros x Hx. destruct (lookup (mp st0) x) eqn:E; auto. exfalso.
        apply (Hfresh x).
        + apply in_map_iff in Hx. destruct Hx as [[x' b'] [<- Hx]]. apply In_sort_by in Hx.
          apply in_map_iff. exists (x', b'). auto.
        + apply (cl_dom _ _ _ C0). congruence.
      - now apply In_sort_by. }
    eapply Run_det_mono; eauto.
  Qed.

  (* nil flowing into a nonnil-annotated site is reported; an unguarded use of a nilable-annotated site is reported *)
  Theorem annotated_nonnil_reported st s :
    pkg_run facts annots ts st -> In (s, false) annots -> nilr C s -> conflicts st <> [].
  Proof.
    intros HR Hin Hn. apply (engine_conflict_iff_flow _ _ _ _ HR). right. exists s. split; auto.
    apply nn_snk. left. apply (in_base_annot facts annots ts s false Hin).
  Qed.

  Theorem annotated_nilable_reported st s :
    pkg_run facts annots ts st -> In (s, true) annots -> nonr C s -> conflicts st <> [].
  Proof.
    intros HR Hin Hn. apply (engine_conflict_iff_flow _ _ _ _ HR). right. exists s. split; auto.
    apply nr_src. apply (in_base_annot facts annots ts s true Hin).
  Qed.

  (* annotating a site nilable adds no conflict when the site reaches no non-nil requirement
     (all its uses are guarded: no active constraint path from it to a sink) *)
  Theorem nilable_annotation_silent st st' s :
    pkg_run facts annots ts st -> pkg_run facts ((s, true) :: annots) ts st' ->
    conflicts st = [] -> ~ nonr (pkg_csys facts ((s, true) :: annots) ts) s ->
    (forall k a, In (k, a) (ctld C) -> False) ->
    conflicts st' = [].
  Proof.
    intros HR HR' Hc Hnn Hnoctl.
    destruct (conflicts st') eqn:E; auto. exfalso.
    assert (HF : has_flow (pkg_csys facts ((s, true) :: annots) ts)) by (apply (engine_conflict_iff_flow _ _ _ _ HR'); congruence).
    assert (NF : ~ has_flow C) by (intros HF0; apply (engine_conflict_iff_flow _ _ _ _ HR) in HF0; congruence).
    set (C' := pkg_csys facts ((s, true) :: annots) ts) in *.
    (* without guarded atoms, C' = C + one source at s *)
    assert (Hbase : forall a, In a (base C') -> a = ASrc s \/ In a (base C)).
    { intros a Ha. unfold C', C, pkg_csys, csys_of in *. cbn in *.
      apply in_app_or in Ha. destruct Ha as [Ha|[Ha|Ha]]; auto.
      - right. apply in_or_app. now left.
      - right. apply in_or_app. now right. }
    assert (Hctld : forall ka, In ka (ctld C') -> In ka (ctld C)) by (intros ka Ha; exact Ha).
    assert (Hact : forall a, act C' a -> a = ASrc s \/ act C a).
    { intros a [Ha|[k [Ha _]]]; [destruct (Hbase a Ha); auto; right; now left|]. exfalso. eapply Hnoctl. apply Hctld. eauto. }
    (* sites reached in C' are reached in C or reached from s in C' *)
    assert (Hnon : forall x, nonr C' x -> nonr C x \/ False).
    { intros x Hx. left. induction Hx as [x Ha | p c0 t Ha Hx IH].
      - destruct (Hact _ Ha) as [Heq|Ha']; [discriminate|]. now apply nn_snk.
      - destruct (Hact _ Ha) as [Heq|Ha']; [discriminate|]. eapply nn_edge; eauto. }
    assert (Hnil : forall x, nilr C' x -> nilr C x \/ (nonr C' x -> nonr C' s)).
    { intros x Hx. induction Hx as [x Hin | k x Hin Hk IH | p c0 t Hin Hp IH | k p c0 t Hin Hk IHk Hp IHp].
      - destruct (Hbase _ Hin) as [Heq|Hin']; [inversion Heq; subst; right; auto | left; now apply nr_src].
      - exfalso. eapply Hnoctl. apply Hctld. eauto.
      - destruct (Hbase _ Hin) as [Heq|Hin']; [discriminate|].
        destruct IH as [IH|IH]; [left; eapply nr_edge; eauto|].
        right. intros Hc'. apply IH. eapply nn_edge; [left; exact Hin|exact Hc'].
      - exfalso. eapply Hnoctl. apply Hctld. eauto. }
    destruct HF as [[t Ha]|[x [Hx1 Hx2]]].
    - destruct (Hact _ Ha) as [Heq|Ha']; [discriminate|]. apply NF. left. eauto.
    - destruct (Hnil x Hx1) as [H|H].
      + destruct (Hnon x Hx2) as [H2|[]]. apply NF. right. eauto.
      + apply Hnn. auto.
  Qed.
End Annot.
