(* The whole analysis on MiniGo: flow analysis (M7) + inference engine (M1).  Combines flow_sound / guarded_no_flow
   with the engine theorems of C05, and gives the concrete witnesses (non-vacuity, refutation without the
   call-safety side condition). *)
From Coq Require Import List Bool Arith PeanoNat Lia.
From NM Require Import Engine EngineSpec MiniGo Flow Guard.
From NP Require Import EngineBasics EngineStep EngineSound EngineComplete EngineMain EngineOrder FlowProofs GuardProofs.
Import ListNotations.

Lemma engine_clean_no_flow ts st : pkg_run [] [] ts st -> conflicts st = [] -> ~ has_flow (csys_of [] [] ts).
Proof.
  intros Hr Hc Hf. pose proof (engine_conflict_iff_flow [] [] ts st Hr) as [_ H].
  apply H; auto.
Qed.

(* clean means panic-free *)
Theorem whole_sound prog afuel ctr pk r st :
  analyze_program afuel ctr pk prog = Some r -> r_gsafe r = true -> r_clocal r = true -> r_nodel r = true ->
  wf_program prog = true -> ctr_arity ctr 0 (p_funcs prog) = true -> impls_plain prog ctr = true ->
  (forall g fd, ctr g = true -> nth_error (p_funcs prog) g = Some fd -> contract_true prog fd) ->
  pkg_run [] [] (all_triggers r) st -> conflicts st = [] ->
  forall fuel oracle, panic_of (run_program prog fuel oracle) = None.
Proof.
  intros Han Hg Hl Hnd Hwf Har Him Hct Hr Hc. eapply flow_sound; eauto. eapply engine_clean_no_flow; eauto.
Qed.

(* some execution dereferences nil => at least one conflict is reported *)
Theorem whole_reported prog afuel ctr pk r st fuel oracle d :
  analyze_program afuel ctr pk prog = Some r -> r_gsafe r = true -> r_clocal r = true -> r_nodel r = true ->
  wf_program prog = true -> ctr_arity ctr 0 (p_funcs prog) = true -> impls_plain prog ctr = true ->
  (forall g fd, ctr g = true -> nth_error (p_funcs prog) g = Some fd -> contract_true prog fd) ->
  pkg_run [] [] (all_triggers r) st ->
  panic_of (run_program prog fuel oracle) = Some d -> conflicts st <> [].
Proof.
  intros Han Hg Hl Hnd Hwf Har Him Hct Hr Hp Hc.
  rewrite (whole_sound _ _ _ _ _ _ Han Hg Hl Hnd Hwf Har Him Hct Hr Hc fuel oracle) in Hp. discriminate.
Qed.

(* every sink of the emitted constraints is a dereference whose producers can fire: if those all sit at one
   dereference d, every sink of a reported flow is at d *)
Theorem lone_sink ts d :
  (forall t, In t ts -> t_cons t = KAlways -> t_prod t <> KNever -> t_id t = d) ->
  forall t a, In t ts -> In a (atoms_of_trigger t) ->
  match a with ASnk _ | ADirect _ => t_id t = d | _ => True end.
Proof.
  intros H t a Ht Ha. unfold atoms_of_trigger, atom_of_kinds in Ha.
  destruct (t_prod t) eqn:Ep, (t_cons t) eqn:Ec; cbn in Ha; try contradiction;
    destruct Ha as [<-|[]]; auto; apply H; auto; rewrite Ep; discriminate.
Qed.

(* guarded programs are clean *)
Theorem guarded_clean prog afuel ctr pk r st :
  guarded prog = true -> analyze_program afuel ctr pk prog = Some r ->
  pkg_run [] [] (all_triggers r) st -> conflicts st = [].
Proof.
  intros Hg Han Hr. destruct (conflicts st) eqn:E; auto. exfalso.
  apply (guarded_no_flow prog afuel ctr pk r Hg Han). apply (engine_conflict_iff_flow [] [] _ st Hr). rewrite E. discriminate.
Qed.

(* ---------- witnesses ---------- *)
(* compute the analysis result first (closed term), then everything else about it *)
Ltac ex_solve := do 2 eexists; split; [vm_compute; reflexivity|]; repeat split; vm_compute; try reflexivity; try discriminate.
Definition all_exported (s : site) := true.
Definition no_ctr (f : fname) := false.
Definition one_pkg (f : fname) := 0.

(* F0: x := new; y := F1(x, nil) under a guard; dereferences under guards; a loop; a package-level variable *)
Definition ex_ok : program :=
  {| p_funcs :=
       [ {| f_nparams := 0;
            f_body := SSeq (SAssign (VL 0) ANew)
                     (SSeq (SCall 1 (Some (VL 1)) 1 [AVar (VL 0); ANil])
                     (SSeq (SIf (CAnd (CNonNil (VL 1)) COpaque) (SDeref 1 (VL 1)) SSkip)
                     (SSeq (SWhile (CAnd COpaque (CNonNil (VG 0))) (SSeq (SDeref 2 (VG 0)) (SAssign (VL 1) (AVar (VG 0)))))
                           (SAssign (VG 0) ANew)))) |};
         {| f_nparams := 2;
            f_body := SSeq (SIf (COr (CNot (CNonNil (VL 0))) (CDeref 3 (VL 0))) (SReturn ANil) SSkip)
                           (SReturn (AVar (VL 1))) |} ];
     p_ginit := [false]; p_impls := []; p_isig := [] |}.

Example ex_ok_premises :
  exists r res,
    analyze_program 8 no_ctr one_pkg ex_ok = Some r /\ r_gsafe r = true /\ r_clocal r = true /\ r_nodel r = true /\
    wf_program ex_ok = true /\ ctr_arity no_ctr 0 (p_funcs ex_ok) = true /\
    analyze_pkg all_exported 200 [] [] (all_triggers r) = Finished res /\ r_conflicts res = [] /\
    guarded ex_ok = true.
Proof. ex_solve. Qed.

(* F2: the tracked package-level variable is not invalidated by the call that re-assigns it *)
Definition ex_global : program :=
  {| p_funcs :=
       [ {| f_nparams := 0;
            f_body := SSeq (SAssign (VG 0) ANew) (SSeq (SCall 1 None 1 []) (SDeref 1 (VG 0))) |};
         {| f_nparams := 0; f_body := SAssign (VG 0) ANil |} ];
     p_ginit := [true]; p_impls := []; p_isig := [] |}.

Theorem refuted_without_call_safety :
  exists prog r st fuel oracle,
    analyze_program 8 no_ctr one_pkg prog = Some r /\ r_gsafe r = false /\ r_clocal r = true /\
    wf_program prog = true /\
    pkg_run [] [] (all_triggers r) st /\ conflicts st = [] /\
    panic_of (run_program prog fuel oracle) = Some 1.
Proof.
  assert (H : exists r res, analyze_program 8 no_ctr one_pkg ex_global = Some r /\ r_gsafe r = false /\ r_clocal r = true /\
             analyze_pkg all_exported 200 [] [] (all_triggers r) = Finished res /\ r_conflicts res = []).
  { ex_solve. }
  destruct H as [r [res [Ha [Hg [Hl [Hr Hc]]]]]].
  destruct (analyze_pkg_run all_exported 200 [] [] _ res (or_introl Hr)) as [st [Hrun [Hcs _]]].
  exists ex_global, r, st, 10, []. repeat split; auto. congruence.
Qed.

(* a contracted callee in another package: the call-site sites are never connected to the callee (F4) *)
Definition ex_xpkg : program :=
  {| p_funcs :=
       [ {| f_nparams := 0;
            f_body := SSeq (SCall 1 (Some (VL 1)) 1 [AVar (VL 0)]) (SDeref 1 (VL 1)) |};
         {| f_nparams := 1; f_body := SReturn (AVar (VL 0)) |} ];
     p_ginit := []; p_impls := []; p_isig := [] |}.
Definition ctr1 (f : fname) := Nat.eqb f 1.
Definition two_pkgs (f : fname) := match f with 0 => 1 | _ => 0 end.

Theorem refuted_without_contract_locality :
  exists prog r st fuel oracle,
    analyze_program 8 ctr1 two_pkgs prog = Some r /\ r_gsafe r = true /\ r_clocal r = false /\
    wf_program prog = true /\ ctr_arity ctr1 0 (p_funcs prog) = true /\
    pkg_run [] [] (all_triggers r) st /\ conflicts st = [] /\
    panic_of (run_program prog fuel oracle) = Some 1.
Proof.
  assert (H : exists r res, analyze_program 8 ctr1 two_pkgs ex_xpkg = Some r /\ r_gsafe r = true /\ r_clocal r = false /\
             analyze_pkg all_exported 200 [] [] (all_triggers r) = Finished res /\ r_conflicts res = []).
  { ex_solve. }
  destruct H as [r [res [Ha [Hg [Hl [Hr Hc]]]]]].
  destruct (analyze_pkg_run all_exported 200 [] [] _ res (or_introl Hr)) as [st [Hrun [Hcs _]]].
  exists ex_xpkg, r, st, 10, []. repeat split; auto. congruence.
Qed.

(* with the callee in the caller's package the same program is reported *)
Example xpkg_local_reported :
  exists r res, analyze_program 8 ctr1 one_pkg ex_xpkg = Some r /\ r_clocal r = true /\
    analyze_pkg all_exported 200 [] [] (all_triggers r) = Finished res /\ r_conflicts res <> [].
Proof. ex_solve. Qed.

(* ---------- contracts (C20) ---------- *)
From NM Require Import Contract.
From NP Require Import ContractProofs.

Lemma inferred_arity hf ctr : forall fds f0,
  (forall i fd, nth_error fds i = Some fd -> ctr (f0 + i) = true -> infer_sem hf fd = true) ->
  ctr_arity ctr f0 fds = true.
Proof.
  induction fds as [|fd fds IH]; intros f0 H; cbn; auto. apply andb_true_iff. split.
  - destruct (ctr f0) eqn:E; auto. cbn. specialize (H 0 fd eq_refl). rewrite Nat.add_0_r in H. specialize (H E).
    unfold infer_sem in H. apply andb_true_iff in H. tauto.
  - apply IH. intros i fd' Hn Hc. apply (H (S i) fd' Hn). now replace (f0 + S i) with (S f0 + i) by lia.
Qed.

(* clean means panic-free when the contracts are those the (intraprocedural) inference accepts *)
Theorem whole_sound_inferred prog afuel hf ctr pk r st :
  analyze_program afuel ctr pk prog = Some r -> r_gsafe r = true -> r_clocal r = true -> r_nodel r = true ->
  wf_program prog = true -> impls_plain prog ctr = true ->
  (forall g fd, ctr g = true -> nth_error (p_funcs prog) g = Some fd -> infer_sem hf fd = true) ->
  pkg_run [] [] (all_triggers r) st -> conflicts st = [] ->
  forall fuel oracle, panic_of (run_program prog fuel oracle) = None.
Proof.
  intros Han Hg Hl Hnd Hwf Him Hinf Hr Hc. eapply whole_sound; eauto.
  - apply (inferred_arity hf). intros i fd Hn Hci. eapply Hinf; eauto.
  - intros g fd Hcg Hn. eapply infer_sem_sound. eauto.
Qed.

(* bodies the inference accepts / rejects *)
Definition fd_id : func := {| f_nparams := 1; f_body := SReturn (AVar (VL 0)) |}.
Definition fd_guarded_new : func :=
  {| f_nparams := 1; f_body := SSeq (SIf (CNonNil (VL 0)) (SReturn ANew) SSkip) (SReturn ANil) |}.
(* F23: the parameter is overwritten by a nil local inside a loop *)
Definition fd_loop_overwrite : func :=
  {| f_nparams := 1;
     f_body := SSeq (SIf (CNot (CNonNil (VL 0))) (SReturn (AVar (VG 0))) SSkip)
              (SSeq (SWhile COpaque (SAssign (VL 0) (AVar (VL 1)))) (SReturn (AVar (VL 0)))) |}.
(* F3: a path that returns nil whatever the argument *)
Definition fd_opaque_nil : func :=
  {| f_nparams := 1;
     f_body := SSeq (SIf COpaque (SReturn ANil) SSkip)
              (SSeq (SIf (CNot (CNonNil (VL 0))) (SReturn ANil) SSkip) (SReturn (AVar (VL 0)))) |}.
Example infer_examples :
  infer_sem 16 fd_id = true /\ infer_sem 16 fd_guarded_new = true /\
  infer_sem 16 fd_loop_overwrite = false /\ infer_sem 16 fd_opaque_nil = false.
Proof. vm_compute. repeat split; reflexivity. Qed.

(* the loop body really returns nil for a non-nil argument *)
Example loop_overwrite_not_a_contract :
  exists fuel oracle s', exec {| p_funcs := [fd_loop_overwrite]; p_ginit := [true]; p_impls := []; p_isig := [] |} fuel (f_body fd_loop_overwrite)
                              (bind_params 0 [VPtr None]) oracle = OReturn VNil s' [].
Proof. exists 10, [true]. eexists. reflexivity. Qed.


(* ---------- interfaces (C09) ---------- *)
(* I0 { X0x0(a *T) *T }; S0 implements it by function 1 (receiver, a): dereferences a, returns nil.
   F0: y := &S0{} as I0; x := y.X0x0(nil); x.V  -- both directions of the flow are reported *)
Definition ex_iface : program :=
  {| p_funcs :=
       [ {| f_nparams := 0;
            f_body := SSeq (SConv (VL 40) 0 0)
                     (SSeq (SCallI 1 1 (Some (VL 0)) (VL 40) 0 0 [ANil]) (SDeref 2 (VL 0))) |};
         {| f_nparams := 2; f_body := SSeq (SDeref 3 (VL 1)) (SReturn ANil) |} ];
     p_ginit := []; p_impls := [[1]]; p_isig := [[1]] |}.

Example iface_flows_reported :
  exists r res, analyze_program 8 no_ctr one_pkg ex_iface = Some r /\ wf_program ex_iface = true /\
    impls_plain ex_iface no_ctr = true /\
    analyze_pkg all_exported 200 [] [] (all_triggers r) = Finished res /\ length (r_conflicts res) = 2.
Proof. ex_solve. Qed.

(* the same program with the nil flows removed (argument allocated, implementation returns an allocation) is clean
   and meets every premise of the soundness theorem *)
Definition ex_iface_ok : program :=
  {| p_funcs :=
       [ {| f_nparams := 0;
            f_body := SSeq (SConv (VL 40) 0 0)
                     (SSeq (SCallI 1 1 (Some (VL 0)) (VL 40) 0 0 [ANew]) (SDeref 2 (VL 0))) |};
         {| f_nparams := 2; f_body := SSeq (SDeref 3 (VL 1)) (SReturn ANew) |} ];
     p_ginit := []; p_impls := [[1]]; p_isig := [[1]] |}.

Example iface_ok_premises :
  exists r res, analyze_program 8 no_ctr one_pkg ex_iface_ok = Some r /\ r_gsafe r = true /\ r_clocal r = true /\ r_nodel r = true /\
    wf_program ex_iface_ok = true /\ impls_plain ex_iface_ok no_ctr = true /\
    analyze_pkg all_exported 200 [] [] (all_triggers r) = Finished res /\ r_conflicts res = [].
Proof. ex_solve. Qed.

(* without the triggers of the (interface, implementation) pair the flow through dynamic dispatch is lost: the
   constraint system of ex_iface minus its affiliation triggers has no flow into dereference 3 / from the result *)
Example iface_affiliation_needed :
  exists r res, analyze_program 8 no_ctr one_pkg ex_iface = Some r /\
    analyze_pkg all_exported 200 [] [] (map etrig (r_decl r ++ concat (r_funcs r) ++ concat (r_dups r))) = Finished res /\
    r_conflicts res = [].
Proof. ex_solve. Qed.


(* interface-to-interface conversion: I1 has the same method as I0; the value is made as an I1 and used as an I0:
   F0: y := &S0{} as I1; z := y as I0; x := z.X0x0(nil); x.V      -- both flows are reported through the two links;
   without the triggers of the (I0, I1) pair they are lost *)
Definition ex_iface2 (arg ret : atom_e) : program :=
  {| p_funcs :=
       [ {| f_nparams := 0;
            f_body := SSeq (SConv (VL 40) 1 0) (SSeq (SConvI (VL 41) (VL 40) 0 1)
                     (SSeq (SCallI 1 1 (Some (VL 0)) (VL 41) 0 0 [arg]) (SDeref 2 (VL 0)))) |};
         {| f_nparams := 2; f_body := SSeq (SDeref 3 (VL 1)) (SReturn ret) |} ];
     p_ginit := []; p_impls := [[1]]; p_isig := [[1]; [1]] |}.

Example iface2_flows_reported :
  exists r res, analyze_program 8 no_ctr one_pkg (ex_iface2 ANil ANil) = Some r /\ wf_program (ex_iface2 ANil ANil) = true /\
    analyze_pkg all_exported 200 [] [] (all_triggers r) = Finished res /\ length (r_conflicts res) = 2 /\
    panic_of (run_program (ex_iface2 ANil ANil) 20 []) = Some 3 /\ panic_of (run_program (ex_iface2 ANew ANil) 20 []) = Some 2.
Proof. ex_solve. Qed.

Example iface2_ok_premises :
  exists r res, analyze_program 8 no_ctr one_pkg (ex_iface2 ANew ANew) = Some r /\ r_gsafe r = true /\ r_clocal r = true /\ r_nodel r = true /\
    wf_program (ex_iface2 ANew ANew) = true /\ impls_plain (ex_iface2 ANew ANew) no_ctr = true /\
    analyze_pkg all_exported 200 [] [] (all_triggers r) = Finished res /\ r_conflicts res = [].
Proof. ex_solve. Qed.

Example iface2_link_needed :
  exists r res, analyze_program 8 no_ctr one_pkg (ex_iface2 ANil ANil) = Some r /\
    analyze_pkg all_exported 200 [] []
      (map etrig (r_decl r ++ concat (r_funcs r) ++ concat (r_dups r) ++ affil (ex_iface2 ANil ANil) (1, 0))) = Finished res /\
    r_conflicts res = [].
Proof. ex_solve. Qed.

(* ---------- the (value, error) convention (C08) ---------- *)
(* F1: if opaque { return nil, fresh error }; return new, nil     (respects the convention)
   F2: if opaque { return nil, nil }; return new, nil             (violates it)
   F0: x, e = F1(); if e != nil { return nil }; x.V               checked: clean
       y, e2 = F1(); y.V                                          unchecked: reported ("lacking guarding")
       z, e3 = F2(); if e3 != nil { return nil }; z.V             checked, but the callee returns nil with a nil error: reported
       w, e4 = F1(); e4 = nil; if e4 != nil { return nil }; w.V   error overwritten before the check: reported *)
Definition fd_err_ok : func :=
  {| f_nparams := 0; f_body := SSeq (SIf COpaque (SReturn2 ANil ANew) SSkip) (SReturn2 ANew ANil) |}.
Definition fd_err_bad : func :=
  {| f_nparams := 0; f_body := SSeq (SIf COpaque (SReturn2 ANil ANil) SSkip) (SReturn2 ANew ANil) |}.
Definition chk (x xe : nat) (d : nat) : stmt :=
  SSeq (SIf (CNonNil (VL xe)) (SReturn ANil) SSkip) (SDeref d (VL x)).
Definition mk_err_prog (body : stmt) : program :=
  {| p_funcs := [ {| f_nparams := 0; f_body := body |}; fd_err_ok; fd_err_bad ]; p_ginit := []; p_impls := []; p_isig := [] |}.
Definition ex_err_checked := mk_err_prog (SSeq (SCall2 1 (Some (VL 0)) (Some (VL 50)) 1 []) (chk 0 50 1)).
Definition ex_err_unchecked := mk_err_prog (SSeq (SCall2 1 (Some (VL 0)) (Some (VL 50)) 1 []) (SDeref 1 (VL 0))).
Definition ex_err_callee_bad := mk_err_prog (SSeq (SCall2 1 (Some (VL 0)) (Some (VL 50)) 2 []) (chk 0 50 1)).
Definition ex_err_overwritten :=
  mk_err_prog (SSeq (SCall2 1 (Some (VL 0)) (Some (VL 50)) 1 []) (SSeq (SAssign (VL 50) ANil) (chk 0 50 1))).

Definition nconf (p : program) : option nat :=
  match analyze_program 8 no_ctr one_pkg p with
  | Some r => match analyze_pkg all_exported 200 [] [] (all_triggers r) with
              | Finished res => Some (length (r_conflicts res))
              | _ => None
              end
  | None => None
  end.

Example err_convention_both_ends :
  nconf ex_err_checked = Some 0 /\ nconf ex_err_unchecked = Some 1 /\
  nconf ex_err_callee_bad = Some 1 /\ nconf ex_err_overwritten = Some 1.
Proof. vm_compute. repeat split; reflexivity. Qed.

Example err_checked_premises :
  exists r res, analyze_program 8 no_ctr one_pkg ex_err_checked = Some r /\ r_gsafe r = true /\ r_clocal r = true /\
    r_nodel r = true /\ wf_program ex_err_checked = true /\
    analyze_pkg all_exported 200 [] [] (all_triggers r) = Finished res /\ r_conflicts res = [].
Proof. ex_solve. Qed.

(* the runs of the three reported programs that panic *)
Example err_reported_programs_panic :
  panic_of (run_program ex_err_unchecked 20 [true]) = Some 1 /\
  panic_of (run_program ex_err_callee_bad 20 [true]) = Some 1 /\
  panic_of (run_program ex_err_overwritten 20 [true]) = Some 1.
Proof. vm_compute. repeat split; reflexivity. Qed.

(* an unchecked use at a dereference is a flow whatever the callee does *)
Lemma unchecked_is_flow ALLs t :
  In t ALLs -> s_ctrl t = None -> kind_of (s_prod t) = KAlways -> s_cons t = CAlways ->
  has_flow (csys_of [] [] (map etrig ALLs)).
Proof.
  intros Ht Hc Hk Hs. left. exists (s_id t). left. unfold csys_of. cbn. apply in_flat_map. exists (etrig t). split.
  - apply filter_In. split; [now apply in_map|]. unfold controlled, etrig. cbn. now rewrite Hc.
  - unfold atoms_of_trigger, etrig. cbn. rewrite Hk, Hs. left. reflexivity.
Qed.

(* direct forwarding `return f()`: F3 forwards F1 (respects the convention), F4 forwards F2 (does not);
   F0: x, e = F3(); if e != nil { return nil }; x.V     clean
       x, e = F4(); if e != nil { return nil }; x.V     reported, and panics *)
Definition mk_fwd_prog (body : stmt) : program :=
  {| p_funcs := [ {| f_nparams := 0; f_body := body |}; fd_err_ok; fd_err_bad;
                  {| f_nparams := 0; f_body := SRetCall 7 1 [] |}; {| f_nparams := 0; f_body := SRetCall 8 2 [] |} ];
     p_ginit := []; p_impls := []; p_isig := [] |}.
Definition ex_fwd_ok := mk_fwd_prog (SSeq (SCall2 1 (Some (VL 0)) (Some (VL 50)) 3 []) (chk 0 50 1)).
Definition ex_fwd_bad := mk_fwd_prog (SSeq (SCall2 1 (Some (VL 0)) (Some (VL 50)) 4 []) (chk 0 50 1)).

Example err_forwarding :
  nconf ex_fwd_ok = Some 0 /\ nconf ex_fwd_bad = Some 1 /\
  panic_of (run_program ex_fwd_bad 20 [true]) = Some 1 /\
  (forall o, In o [[true]; [false]] -> panic_of (run_program ex_fwd_ok 20 o) = None).
Proof. vm_compute. repeat split; try reflexivity. intros o [<-|[<-|[]]]; reflexivity. Qed.

Example err_forwarding_premises :
  exists r res, analyze_program 8 no_ctr one_pkg ex_fwd_ok = Some r /\ r_gsafe r = true /\ r_clocal r = true /\
    r_nodel r = true /\ wf_program ex_fwd_ok = true /\
    analyze_pkg all_exported 200 [] [] (all_triggers r) = Finished res /\ r_conflicts res = [].
Proof. ex_solve. Qed.

(* `return g(args)` in f: the callee's result site flows into f's, and f is never "always safe" *)
Lemma retcall_triggers ng ctr sp f fuel e cs g args :
  exists r, analyze ng ctr sp f fuel (SRetCall cs g args) e = Some r /\
            In (mk_trigger 0 (PSite (SResult g)) (CSite (SResult f))) (a_trig r) /\ a_rsafe r = false /\ a_env r = None.
Proof. eexists; split; [reflexivity|]. cbn. split; [apply in_or_app; right; left; reflexivity|auto]. Qed.

(* the triggers of the two kinds of return, and of a checked / unchecked use *)
Lemma return2_triggers ng ctr sp f fuel e a :
  (exists r, analyze ng ctr sp f fuel (SReturn2 a ANil) e = Some r /\
             a_trig r = map (fun p => mk_trigger 0 p (CSite (SResult f))) (uprods e a)) /\
  (exists r, analyze ng ctr sp f fuel (SReturn2 a ANew) e = Some r /\ a_trig r = []).
Proof. split; eexists; split; reflexivity. Qed.
