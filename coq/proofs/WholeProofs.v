(* The whole analysis on MiniGo: flow analysis (M7) + inference engine (M1).  Combines flow_sound / guarded_no_flow
   with the engine theorems of C05, and gives the concrete witnesses (non-vacuity, refutation without the
   call-safety side condition). *)
From Coq Require Import List Bool Arith PeanoNat Lia.
From NM Require Import Engine EngineSpec MiniGo Flow Guard.
From NP Require Import EngineBasics EngineStep EngineSound EngineComplete EngineMain EngineOrder FlowProofs GuardProofs.
Import ListNotations.

Lemma engine_clean_no_flow ts st : pkg_run [] [] ts st -> conflicts st = [] -> ~ has_flow (csys_of [] [] ts).
Proof.
  intros Hr Hc Hf. pose proof (engine_conflict_iff_flow [] [] ts st Hr) as [_ H].
  apply H; auto.
Qed.

(* clean means panic-free *)
Theorem whole_sound prog afuel ctr pk r st :
  analyze_program afuel ctr pk prog = Some r -> r_gsafe r = true -> r_clocal r = true ->
  wf_program prog = true -> ctr_arity ctr 0 (p_funcs prog) = true ->
  (forall g fd, ctr g = true -> nth_error (p_funcs prog) g = Some fd -> contract_true prog fd) ->
  pkg_run [] [] (all_triggers r) st -> conflicts st = [] ->
  forall fuel oracle, panic_of (run_program prog fuel oracle) = None.
Proof.
  intros Han Hg Hl Hwf Har Hct Hr Hc. eapply flow_sound; eauto. eapply engine_clean_no_flow; eauto.
Qed.

(* some execution dereferences nil => at least one conflict is reported *)
Theorem whole_reported prog afuel ctr pk r st fuel oracle d :
  analyze_program afuel ctr pk prog = Some r -> r_gsafe r = true -> r_clocal r = true ->
  wf_program prog = true -> ctr_arity ctr 0 (p_funcs prog) = true ->
  (forall g fd, ctr g = true -> nth_error (p_funcs prog) g = Some fd -> contract_true prog fd) ->
  pkg_run [] [] (all_triggers r) st ->
  panic_of (run_program prog fuel oracle) = Some d -> conflicts st <> [].
Proof.
  intros Han Hg Hl Hwf Har Hct Hr Hp Hc.
  rewrite (whole_sound _ _ _ _ _ _ Han Hg Hl Hwf Har Hct Hr Hc fuel oracle) in Hp. discriminate.
Qed.

(* every sink of the emitted constraints is a dereference whose producers can fire: if those all sit at one
   dereference d, every sink of a reported flow is at d *)
Theorem lone_sink ts d :
  (forall t, In t ts -> t_cons t = KAlways -> t_prod t <> KNever -> t_id t = d) ->
  forall t a, In t ts -> In a (atoms_of_trigger t) ->
  match a with ASnk _ | ADirect _ => t_id t = d | _ => True end.
Proof.
  intros H t a Ht Ha. unfold atoms_of_trigger, atom_of_kinds in Ha.
  destruct (t_prod t) eqn:Ep, (t_cons t) eqn:Ec; cbn in Ha; try contradiction;
    destruct Ha as [<-|[]]; auto; apply H; auto; rewrite Ep; discriminate.
Qed.

(* guarded programs are clean *)
Theorem guarded_clean prog afuel ctr pk r st :
  guarded prog = true -> analyze_program afuel ctr pk prog = Some r ->
  pkg_run [] [] (all_triggers r) st -> conflicts st = [].
Proof.
  intros Hg Han Hr. destruct (conflicts st) eqn:E; auto. exfalso.
  apply (guarded_no_flow prog afuel ctr pk r Hg Han). apply (engine_conflict_iff_flow [] [] _ st Hr). rewrite E. discriminate.
Qed.

(* ---------- witnesses ---------- *)
Definition all_exported (s : site) := true.
Definition no_ctr (f : fname) := false.
Definition one_pkg (f : fname) := 0.

(* F0: x := new; y := F1(x, nil) under a guard; dereferences under guards; a loop; a package-level variable *)
Definition ex_ok : program :=
  {| p_funcs :=
       [ {| f_nparams := 0;
            f_body := SSeq (SAssign (VL 0) ANew)
                     (SSeq (SCall 1 (Some (VL 1)) 1 [AVar (VL 0); ANil])
                     (SSeq (SIf (CAnd (CNonNil (VL 1)) COpaque) (SDeref 1 (VL 1)) SSkip)
                     (SSeq (SWhile (CAnd COpaque (CNonNil (VG 0))) (SSeq (SDeref 2 (VG 0)) (SAssign (VL 1) (AVar (VG 0)))))
                           (SAssign (VG 0) ANew)))) |};
         {| f_nparams := 2;
            f_body := SSeq (SIf (COr (CNot (CNonNil (VL 0))) (CDeref 3 (VL 0))) (SReturn ANil) SSkip)
                           (SReturn (AVar (VL 1))) |} ];
     p_ginit := [false] |}.

Example ex_ok_premises :
  exists r res,
    analyze_program 8 no_ctr one_pkg ex_ok = Some r /\ r_gsafe r = true /\ r_clocal r = true /\
    wf_program ex_ok = true /\ ctr_arity no_ctr 0 (p_funcs ex_ok) = true /\
    analyze_pkg all_exported 200 [] [] (all_triggers r) = Finished res /\ r_conflicts res = [] /\
    guarded ex_ok = true.
Proof. vm_compute. do 2 eexists. repeat split; reflexivity. Qed.

(* F2: the tracked package-level variable is not invalidated by the call that re-assigns it *)
Definition ex_global : program :=
  {| p_funcs :=
       [ {| f_nparams := 0;
            f_body := SSeq (SAssign (VG 0) ANew) (SSeq (SCall 1 None 1 []) (SDeref 1 (VG 0))) |};
         {| f_nparams := 0; f_body := SAssign (VG 0) ANil |} ];
     p_ginit := [true] |}.

Theorem refuted_without_call_safety :
  exists prog r st fuel oracle,
    analyze_program 8 no_ctr one_pkg prog = Some r /\ r_gsafe r = false /\ r_clocal r = true /\
    wf_program prog = true /\
    pkg_run [] [] (all_triggers r) st /\ conflicts st = [] /\
    panic_of (run_program prog fuel oracle) = Some 1.
Proof.
  assert (H : exists r res, analyze_program 8 no_ctr one_pkg ex_global = Some r /\ r_gsafe r = false /\ r_clocal r = true /\
             analyze_pkg all_exported 200 [] [] (all_triggers r) = Finished res /\ r_conflicts res = []).
  { vm_compute. do 2 eexists. repeat split; reflexivity. }
  destruct H as [r [res [Ha [Hg [Hl [Hr Hc]]]]]].
  destruct (analyze_pkg_run all_exported 200 [] [] _ res (or_introl Hr)) as [st [Hrun [Hcs _]]].
  exists ex_global, r, st, 10, []. repeat split; auto. congruence.
Qed.

(* a contracted callee in another package: the call-site sites are never connected to the callee (F4) *)
Definition ex_xpkg : program :=
  {| p_funcs :=
       [ {| f_nparams := 0;
            f_body := SSeq (SCall 1 (Some (VL 1)) 1 [AVar (VL 0)]) (SDeref 1 (VL 1)) |};
         {| f_nparams := 1; f_body := SReturn (AVar (VL 0)) |} ];
     p_ginit := [] |}.
Definition ctr1 (f : fname) := Nat.eqb f 1.
Definition two_pkgs (f : fname) := match f with 0 => 1 | _ => 0 end.

Theorem refuted_without_contract_locality :
  exists prog r st fuel oracle,
    analyze_program 8 ctr1 two_pkgs prog = Some r /\ r_gsafe r = true /\ r_clocal r = false /\
    wf_program prog = true /\ ctr_arity ctr1 0 (p_funcs prog) = true /\
    pkg_run [] [] (all_triggers r) st /\ conflicts st = [] /\
    panic_of (run_program prog fuel oracle) = Some 1.
Proof.
  assert (H : exists r res, analyze_program 8 ctr1 two_pkgs ex_xpkg = Some r /\ r_gsafe r = true /\ r_clocal r = false /\
             analyze_pkg all_exported 200 [] [] (all_triggers r) = Finished res /\ r_conflicts res = []).
  { vm_compute. do 2 eexists. repeat split; reflexivity. }
  destruct H as [r [res [Ha [Hg [Hl [Hr Hc]]]]]].
  destruct (analyze_pkg_run all_exported 200 [] [] _ res (or_introl Hr)) as [st [Hrun [Hcs _]]].
  exists ex_xpkg, r, st, 10, []. repeat split; auto. congruence.
Qed.

(* with the callee in the caller's package the same program is reported *)
Example xpkg_local_reported :
  exists r res, analyze_program 8 ctr1 one_pkg ex_xpkg = Some r /\ r_clocal r = true /\
    analyze_pkg all_exported 200 [] [] (all_triggers r) = Finished res /\ r_conflicts res <> [].
Proof. vm_compute. do 2 eexists. repeat split; try reflexivity. discriminate. Qed.
