(* Basic facts about the ordered map, the step function and runs of the engine model. *)
From Coq Require Import List Bool Arith PeanoNat Lia.
From NM Require Import Engine.
Import ListNotations.

Lemma lookup_store_same {A} (m : list (site * A)) s v : lookup (store m s v) s = Some v.
Proof.
  induction m as [|[k x] m IH]; cbn.
  - now rewrite Nat.eqb_refl.
  - destruct (Nat.eqb k s) eqn:E; cbn; rewrite E; auto.
Qed.

Lemma lookup_store_other {A} (m : list (site * A)) s s' v : s <> s' -> lookup (store m s v) s' = lookup m s'.
Proof.
  intros Hne. induction m as [|[k x] m IH]; cbn.
  - destruct (Nat.eqb s s') eqn:E; auto. apply Nat.eqb_eq in E; contradiction.
  - destruct (Nat.eqb k s) eqn:E; cbn.
    + apply Nat.eqb_eq in E; subst k. destruct (Nat.eqb s s') eqn:E2; auto.
      apply Nat.eqb_eq in E2; contradiction.
    + destruct (Nat.eqb k s'); auto.
Qed.

Lemma lookup_store {A} (m : list (site * A)) s s' v :
  lookup (store m s v) s' = if Nat.eqb s s' then Some v else lookup m s'.
Proof.
  destruct (Nat.eqb s s') eqn:E.
  - apply Nat.eqb_eq in E; subst; apply lookup_store_same.
  - apply Nat.eqb_neq in E; now apply lookup_store_other.
Qed.

Lemma In_store {A} (m : list (site * A)) s v k x : In (k, x) (store m s v) -> (k = s /\ x = v) \/ In (k, x) m.
Proof.
  induction m as [|[k' x'] m IH]; cbn.
  - intros [H|[]]; inversion H; auto.
  - destruct (Nat.eqb k' s) eqn:E; cbn.
    + intros [H|H]; [inversion H; subst; apply Nat.eqb_eq in E; auto | auto].
    + intros [H|H]; auto. destruct (IH H); auto.
Qed.

Lemma In_store_new {A} (m : list (site * A)) s v : In (s, v) (store m s v).
Proof.
  induction m as [|[k' x'] m IH]; cbn; auto.
  destruct (Nat.eqb k' s) eqn:E; cbn; auto.
  apply Nat.eqb_eq in E; subst; auto.
Qed.

Lemma lookup_Some_In {A} (m : list (site * A)) s v : lookup m s = Some v -> In (s, v) m.
Proof.
  induction m as [|[k x] m IH]; cbn; [discriminate|].
  destruct (Nat.eqb k s) eqn:E; intros H.
  - apply Nat.eqb_eq in E; inversion H; subst; auto.
  - auto.
Qed.

Lemma In_lookup_not_None {A} (m : list (site * A)) s v : In (s, v) m -> lookup m s <> None.
Proof.
  induction m as [|[k x] m IH]; cbn; [tauto|].
  intros [H|H].
  - inversion H; subst. rewrite Nat.eqb_refl. discriminate.
  - destruct (Nat.eqb k s); [discriminate | auto].
Qed.

Lemma lookup_not_None_In {A} (m : list (site * A)) s : lookup m s <> None -> exists v, In (s, v) m.
Proof.
  destruct (lookup m s) eqn:E; [|tauto]. intros _. eexists. eapply lookup_Some_In; eauto.
Qed.

(* ---- determined values ---- *)
Definition detv (st : state) (s : site) : option bool :=
  match lookup (mp st) s with Some (Det e) => Some (eval_expl e) | _ => None end.

Definition dom (st : state) (s : site) : Prop := lookup (mp st) s <> None.

(* ---- big-step runs (fuel-free view) ---- *)
Inductive Run : state -> list item -> state -> Prop :=
  | Run_nil st : Run st [] st
  | Run_cons st it rest st1 new st' :
      step st it = (st1, new) -> Run st1 (new ++ rest) st' -> Run st (it :: rest) st'.

Lemma run_Run fuel : forall st work st', run fuel st work = Some st' -> Run st work st'.
Proof.
  induction fuel as [|f IH]; intros st work st' H; destruct work as [|it rest]; cbn in H.
  - inversion H; constructor.
  - discriminate.
  - inversion H; constructor.
  - destruct (step st it) as [st1 new] eqn:E. econstructor; eauto.
Qed.

Lemma Run_run st work st' : Run st work st' -> exists fuel, forall f, fuel <= f -> run f st work = Some st'.
Proof.
  induction 1 as [st | st it rest st1 new st' Hs HR [fuel IH]].
  - exists 0. intros f _. destruct f; reflexivity.
  - exists (S fuel). intros f Hf. destruct f as [|f]; [lia|]. cbn. rewrite Hs. apply IH. lia.
Qed.

Lemma run_fuel_mono fuel st work st' f : run fuel st work = Some st' -> fuel <= f -> run f st work = Some st'.
Proof.
  revert st work f. induction fuel as [|n IH]; intros st work f H Hle; destruct work as [|it rest]; cbn in H.
  - destruct f; cbn; auto.
  - discriminate.
  - destruct f; cbn; auto.
  - destruct f as [|f]; [lia|]. cbn. destruct (step st it) as [st1 new]. apply IH; auto. lia.
Qed.

Lemma Run_app st w1 w2 st'' : Run st (w1 ++ w2) st'' -> exists st', Run st w1 st' /\ Run st' w2 st''.
Proof.
  remember (w1 ++ w2) as w eqn:Ew. intros H. revert w1 Ew.
  induction H as [st | st it rest st1 new st' Hs HR IH]; intros w1 Ew.
  - destruct w1; [|discriminate]. cbn in Ew; subst. exists st; split; constructor.
  - destruct w1 as [|i1 w1]; cbn in Ew.
    + subst w2. exists st. split; [constructor|]. econstructor; eauto.
    + inversion Ew; subst i1 rest.
      destruct (IH (new ++ w1)) as [stm [H1 H2]]; [now rewrite app_assoc|].
      exists stm; split; auto. econstructor; eauto.
Qed.

Lemma Run_app_inv st w1 st' w2 st'' : Run st w1 st' -> Run st' w2 st'' -> Run st (w1 ++ w2) st''.
Proof.
  induction 1 as [st | st it rest st1 new st' Hs HR IH]; intros H2; cbn; auto.
  econstructor; eauto. rewrite app_assoc. auto.
Qed.

(* invariants lift from steps to runs *)
Lemma Run_invariant (P : state -> list item -> Prop) :
  (forall st it rest st1 new, P st (it :: rest) -> step st it = (st1, new) -> P st1 (new ++ rest)) ->
  forall st work st', Run st work st' -> P st work -> P st' [].
Proof.
  intros Hstep st work st' H. induction H; intros HP; auto.
  apply IHRun. eapply Hstep; eauto.
Qed.

(* ---- step: what never changes ---- *)
Lemma step_ctl st it st1 new : step st it = (st1, new) -> ctl st1 = ctl st.
Proof.
  destruct it as [s e | t | p c t]; cbn.
  - destruct (lookup (mp st) s) as [[e'|i o]|]; [destruct (Bool.eqb _ _)| |]; intros H; inversion H; reflexivity.
  - destruct (t_prod t), (t_cons t); intros H; inversion H; reflexivity.
  - destruct (lookup (mp st) p) as [[ep|i o]|].
    + destruct (eval_expl ep); intros H; inversion H; reflexivity.
    + destruct (lookup (mp st) c) as [[ec|i' o']|]; [destruct (eval_expl ec)| |]; intros H; inversion H; reflexivity.
    + destruct (lookup (mp st) c) as [[ec|i' o']|]; [destruct (eval_expl ec)| |]; intros H; inversion H; reflexivity.
Qed.

Lemma Run_ctl st work st' : Run st work st' -> ctl st' = ctl st.
Proof. induction 1; auto. rewrite IHRun. eapply step_ctl; eauto. Qed.

(* conflicts only grow *)
Lemma step_conflicts st it st1 new : step st it = (st1, new) -> exists l, conflicts st1 = conflicts st ++ l.
Proof.
  destruct it as [s e | t | p c t]; cbn.
  - destruct (lookup (mp st) s) as [[e'|i o]|]; [destruct (Bool.eqb _ _)| |]; intros H; inversion H; cbn;
      try (exists []; now rewrite app_nil_r); eexists; reflexivity.
  - destruct (t_prod t), (t_cons t); intros H; inversion H; cbn;
      try (exists []; now rewrite app_nil_r); eexists; reflexivity.
  - destruct (lookup (mp st) p) as [[ep|i o]|].
    + destruct (eval_expl ep); intros H; inversion H; exists []; now rewrite app_nil_r.
    + destruct (lookup (mp st) c) as [[ec|i' o']|]; [destruct (eval_expl ec)| |]; intros H; inversion H; exists []; now rewrite app_nil_r.
    + destruct (lookup (mp st) c) as [[ec|i' o']|]; [destruct (eval_expl ec)| |]; intros H; inversion H; exists []; now rewrite app_nil_r.
Qed.

Lemma step_conflicts_nil st it st1 new : step st it = (st1, new) -> conflicts st1 = [] -> conflicts st = [].
Proof.
  intros H E. destruct (step_conflicts _ _ _ _ H) as [l Hl]. rewrite Hl in E.
  destruct (conflicts st); auto. discriminate.
Qed.

Lemma Run_conflicts_nil st work st' : Run st work st' -> conflicts st' = [] -> conflicts st = [].
Proof. induction 1; auto. intros E. eapply step_conflicts_nil; eauto. Qed.

(* ---- store_impl ---- *)
Lemma store_impl_lookup_other m p c t s : s <> p -> s <> c -> lookup (store_impl m p c t) s = lookup m s.
Proof.
  intros Hp Hc. unfold store_impl.
  set (m1 := match lookup m p with None => store m p (Undet [] []) | Some _ => m end).
  set (m2 := match lookup m1 c with None => store m1 c (Undet [] []) | Some _ => m1 end).
  set (m3 := match lookup m2 p with Some (Undet i o) => store m2 p (Undet i (store o c t)) | _ => m2 end).
  assert (H1 : lookup m1 s = lookup m s).
  { unfold m1. destruct (lookup m p); auto. apply lookup_store_other; auto. }
  assert (H2 : lookup m2 s = lookup m s).
  { unfold m2. destruct (lookup m1 c); auto. rewrite lookup_store_other; auto. }
  assert (H3 : lookup m3 s = lookup m s).
  { unfold m3. destruct (lookup m2 p) as [[e|i o]|]; auto. rewrite lookup_store_other; auto. }
  destruct (lookup m3 c) as [[e|i o]|]; auto. rewrite lookup_store_other; auto.
Qed.

(* ---- a finer description of store_impl ---- *)
Definition outs_l (m : list (site * ival)) (s : site) : list (site * tid) :=
  match lookup m s with Some (Undet _ o) => o | _ => [] end.
Definition ins_l (m : list (site * ival)) (s : site) : list (site * tid) :=
  match lookup m s with Some (Undet i _) => i | _ => [] end.
Definition det_l (m : list (site * ival)) (s : site) : option expl :=
  match lookup m s with Some (Det e) => Some e | _ => None end.

Definition ensure (m : list (site * ival)) (s : site) :=
  match lookup m s with None => store m s (Undet [] []) | Some _ => m end.
Definition add_out (m : list (site * ival)) (p c : site) (t : tid) :=
  match lookup m p with Some (Undet i o) => store m p (Undet i (store o c t)) | _ => m end.
Definition add_in (m : list (site * ival)) (c p : site) (t : tid) :=
  match lookup m c with Some (Undet i o) => store m c (Undet (store i p t) o) | _ => m end.

Lemma store_impl_decomp m p c t : store_impl m p c t = add_in (add_out (ensure (ensure m p) c) p c t) c p t.
Proof. reflexivity. Qed.

Lemma ensure_det m s x : det_l (ensure m s) x = det_l m x.
Proof.
  unfold ensure, det_l. destruct (lookup m s) eqn:E; auto.
  rewrite lookup_store. destruct (Nat.eqb s x) eqn:E2; auto.
  apply Nat.eqb_eq in E2; subst. now rewrite E.
Qed.
Lemma ensure_outs m s x : outs_l (ensure m s) x = outs_l m x.
Proof.
  unfold ensure, outs_l. destruct (lookup m s) eqn:E; auto.
  rewrite lookup_store. destruct (Nat.eqb s x) eqn:E2; auto.
  apply Nat.eqb_eq in E2; subst. now rewrite E.
Qed.
Lemma ensure_ins m s x : ins_l (ensure m s) x = ins_l m x.
Proof.
  unfold ensure, ins_l. destruct (lookup m s) eqn:E; auto.
  rewrite lookup_store. destruct (Nat.eqb s x) eqn:E2; auto.
  apply Nat.eqb_eq in E2; subst. now rewrite E.
Qed.
Lemma ensure_dom m s x : lookup (ensure m s) x <> None <-> (x = s \/ lookup m x <> None).
Proof.
  unfold ensure. destruct (lookup m s) eqn:E.
  - split; auto. intros [->|H]; auto; congruence.
  - rewrite lookup_store. destruct (Nat.eqb s x) eqn:E2.
    + apply Nat.eqb_eq in E2; subst. split; intros; try discriminate; auto.
    + apply Nat.eqb_neq in E2. split; auto. intros [->|H]; auto; congruence.
Qed.

Lemma add_out_det m p c t x : det_l (add_out m p c t) x = det_l m x.
Proof.
  unfold add_out, det_l. destruct (lookup m p) as [[e|i o]|] eqn:E; auto.
  rewrite lookup_store. destruct (Nat.eqb p x) eqn:E2; auto.
  apply Nat.eqb_eq in E2; subst. now rewrite E.
Qed.
Lemma add_out_ins m p c t x : ins_l (add_out m p c t) x = ins_l m x.
Proof.
  unfold add_out, ins_l. destruct (lookup m p) as [[e|i o]|] eqn:E; auto.
  rewrite lookup_store. destruct (Nat.eqb p x) eqn:E2; auto.
  apply Nat.eqb_eq in E2; subst. now rewrite E.
Qed.
Lemma add_out_outs m p c t x :
  outs_l (add_out m p c t) x =
  if Nat.eqb p x then (match lookup m p with Some (Undet _ o) => store o c t | _ => [] end) else outs_l m x.
Proof.
  unfold add_out, outs_l. destruct (lookup m p) as [[e|i o]|] eqn:E.
  - destruct (Nat.eqb p x) eqn:E2; auto. apply Nat.eqb_eq in E2; subst. now rewrite E.
  - rewrite lookup_store. destruct (Nat.eqb p x) eqn:E2; auto.
  - destruct (Nat.eqb p x) eqn:E2; auto. apply Nat.eqb_eq in E2; subst. now rewrite E.
Qed.
Lemma add_out_dom m p c t x : lookup (add_out m p c t) x <> None <-> lookup m x <> None.
Proof.
  unfold add_out. destruct (lookup m p) as [[e|i o]|] eqn:E; try tauto.
  rewrite lookup_store. destruct (Nat.eqb p x) eqn:E2; try tauto.
  apply Nat.eqb_eq in E2; subst. rewrite E. split; discriminate.
Qed.

Lemma add_in_det m c p t x : det_l (add_in m c p t) x = det_l m x.
Proof.
  unfold add_in, det_l. destruct (lookup m c) as [[e|i o]|] eqn:E; auto.
  rewrite lookup_store. destruct (Nat.eqb c x) eqn:E2; auto.
  apply Nat.eqb_eq in E2; subst. now rewrite E.
Qed.
Lemma add_in_outs m c p t x : outs_l (add_in m c p t) x = outs_l m x.
Proof.
  unfold add_in, outs_l. destruct (lookup m c) as [[e|i o]|] eqn:E; auto.
  rewrite lookup_store. destruct (Nat.eqb c x) eqn:E2; auto.
  apply Nat.eqb_eq in E2; subst. now rewrite E.
Qed.
Lemma add_in_ins m c p t x :
  ins_l (add_in m c p t) x =
  if Nat.eqb c x then (match lookup m c with Some (Undet i _) => store i p t | _ => [] end) else ins_l m x.
Proof.
  unfold add_in, ins_l. destruct (lookup m c) as [[e|i o]|] eqn:E.
  - destruct (Nat.eqb c x) eqn:E2; auto. apply Nat.eqb_eq in E2; subst. now rewrite E.
  - rewrite lookup_store. destruct (Nat.eqb c x) eqn:E2; auto.
  - destruct (Nat.eqb c x) eqn:E2; auto. apply Nat.eqb_eq in E2; subst. now rewrite E.
Qed.
Lemma add_in_dom m c p t x : lookup (add_in m c p t) x <> None <-> lookup m x <> None.
Proof.
  unfold add_in. destruct (lookup m c) as [[e|i o]|] eqn:E; try tauto.
  rewrite lookup_store. destruct (Nat.eqb c x) eqn:E2; try tauto.
  apply Nat.eqb_eq in E2; subst. rewrite E. split; discriminate.
Qed.

Lemma store_impl_det m p c t x : det_l (store_impl m p c t) x = det_l m x.
Proof. rewrite store_impl_decomp, add_in_det, add_out_det, !ensure_det. reflexivity. Qed.

Lemma store_impl_dom m p c t x : lookup (store_impl m p c t) x <> None <-> (x = p \/ x = c \/ lookup m x <> None).
Proof. rewrite store_impl_decomp, add_in_dom, add_out_dom, !ensure_dom. tauto. Qed.

(* a site in the domain is either determined or has (possibly empty) edge lists *)
Lemma lookup_view m s :
  match lookup m s with
  | Some (Det e) => det_l m s = Some e /\ outs_l m s = [] /\ ins_l m s = []
  | Some (Undet i o) => det_l m s = None /\ outs_l m s = o /\ ins_l m s = i
  | None => det_l m s = None /\ outs_l m s = [] /\ ins_l m s = []
  end.
Proof. unfold det_l, outs_l, ins_l. destruct (lookup m s) as [[e|i o]|]; auto. Qed.

Lemma undet_after_ensure m s : det_l m s = None -> exists i o, lookup (ensure m s) s = Some (Undet i o) /\ i = ins_l m s /\ o = outs_l m s.
Proof.
  unfold det_l, ensure, ins_l, outs_l. destruct (lookup m s) as [[e|i o]|] eqn:E; try discriminate; intros _.
  - rewrite E. eauto.
  - rewrite lookup_store_same. eauto.
Qed.

Lemma store_impl_outs m p c t x : det_l m p = None ->
  forall a b, In (a, b) (outs_l (store_impl m p c t) x) -> In (a, b) (outs_l m x) \/ (x = p /\ a = c /\ b = t).
Proof.
  intros Hp a b. rewrite store_impl_decomp, add_in_outs, add_out_outs.
  destruct (Nat.eqb p x) eqn:E.
  - apply Nat.eqb_eq in E; subst x.
    assert (Hd : det_l (ensure (ensure m p) c) p = None) by now rewrite !ensure_det.
    pose proof (lookup_view (ensure (ensure m p) c) p) as V.
    destruct (lookup (ensure (ensure m p) c) p) as [[e|i o]|] eqn:E2.
    + destruct V as [V _]. congruence.
    + destruct V as [_ [V _]]. rewrite !ensure_outs in V. subst o.
      intros H. apply In_store in H. destruct H as [[-> ->]|H]; auto.
    + intros [].
  - rewrite !ensure_outs. auto.
Qed.

Lemma store_impl_ins m p c t x : det_l m c = None ->
  forall a b, In (a, b) (ins_l (store_impl m p c t) x) -> In (a, b) (ins_l m x) \/ (x = c /\ a = p /\ b = t).
Proof.
  intros Hc a b. rewrite store_impl_decomp, add_in_ins.
  destruct (Nat.eqb c x) eqn:E.
  - apply Nat.eqb_eq in E; subst x.
    set (m3 := add_out (ensure (ensure m p) c) p c t).
    assert (Hd : det_l m3 c = None) by (unfold m3; now rewrite add_out_det, !ensure_det).
    pose proof (lookup_view m3 c) as V.
    destruct (lookup m3 c) as [[e|i o]|] eqn:E2.
    + destruct V as [V _]. congruence.
    + destruct V as [_ [_ V]]. unfold m3 in V. rewrite add_out_ins, !ensure_ins in V. subst i.
      intros H. apply In_store in H. destruct H as [[-> ->]|H]; auto.
    + intros [].
  - rewrite add_out_ins, !ensure_ins. auto.
Qed.

(* membership of keys in the edge lists is preserved, and the new edge is there *)
Lemma lookup_store_key {A} (l : list (site * A)) k v x : lookup l x <> None -> lookup (store l k v) x <> None.
Proof. rewrite lookup_store. destruct (Nat.eqb k x); auto. discriminate. Qed.

Lemma store_impl_outs_keep m p c t x k : det_l m p = None ->
  lookup (outs_l m x) k <> None -> lookup (outs_l (store_impl m p c t) x) k <> None.
Proof.
  intros Hp. rewrite store_impl_decomp, add_in_outs, add_out_outs.
  destruct (Nat.eqb p x) eqn:E.
  - apply Nat.eqb_eq in E; subst x.
    destruct (undet_after_ensure m p Hp) as [i [o [H1 [Hi Ho]]]].
    assert (H2 : lookup (ensure (ensure m p) c) p = Some (Undet i o)).
    { unfold ensure at 1. destruct (lookup (ensure m p) c) eqn:E; auto.
      rewrite lookup_store. destruct (Nat.eqb c p) eqn:E3; auto.
      apply Nat.eqb_eq in E3; subst. congruence. }
    rewrite H2. subst o. apply lookup_store_key.
  - now rewrite !ensure_outs.
Qed.

Lemma store_impl_ins_keep m p c t x k : det_l m c = None ->
  lookup (ins_l m x) k <> None -> lookup (ins_l (store_impl m p c t) x) k <> None.
Proof.
  intros Hc. rewrite store_impl_decomp, add_in_ins.
  destruct (Nat.eqb c x) eqn:E.
  - apply Nat.eqb_eq in E; subst x.
    set (m3 := add_out (ensure (ensure m p) c) p c t).
    assert (Hd : det_l m3 c = None) by (unfold m3; now rewrite add_out_det, !ensure_det).
    assert (Hdom : lookup m3 c <> None).
    { unfold m3. rewrite add_out_dom, ensure_dom. auto. }
    pose proof (lookup_view m3 c) as V.
    destruct (lookup m3 c) as [[e|i o]|] eqn:E2; try tauto.
    + destruct V as [V _]. congruence.
    + destruct V as [_ [_ V]]. unfold m3 in V. rewrite add_out_ins, !ensure_ins in V. subst i.
      apply lookup_store_key.
  - now rewrite add_out_ins, !ensure_ins.
Qed.

Lemma store_impl_new_out m p c t : det_l m p = None -> In (c, t) (outs_l (store_impl m p c t) p).
Proof.
  intros Hp. rewrite store_impl_decomp, add_in_outs, add_out_outs, Nat.eqb_refl.
  destruct (undet_after_ensure m p Hp) as [i [o [H1 _]]].
  assert (H2 : lookup (ensure (ensure m p) c) p = Some (Undet i o)).
  { unfold ensure at 1. destruct (lookup (ensure m p) c) eqn:E; auto.
    rewrite lookup_store. destruct (Nat.eqb c p) eqn:E3; auto.
    apply Nat.eqb_eq in E3; subst. congruence. }
  rewrite H2. apply In_store_new.
Qed.

Lemma store_impl_new_in m p c t : det_l m c = None -> In (p, t) (ins_l (store_impl m p c t) c).
Proof.
  intros Hc. rewrite store_impl_decomp, add_in_ins, Nat.eqb_refl.
  set (m3 := add_out (ensure (ensure m p) c) p c t).
  assert (Hd : det_l m3 c = None) by (unfold m3; now rewrite add_out_det, !ensure_det).
  assert (Hdom : lookup m3 c <> None).
  { unfold m3. rewrite add_out_dom, ensure_dom. auto. }
  pose proof (lookup_view m3 c) as V.
  destruct (lookup m3 c) as [[e|i o]|] eqn:E2; try tauto.
  - destruct V as [V _]. congruence.
  - apply In_store_new.
Qed.

Lemma outs_store_det' m s e x : outs_l (store m s (Det e)) x = if Nat.eqb s x then [] else outs_l m x.
Proof. unfold outs_l. rewrite lookup_store. destruct (Nat.eqb s x); auto. Qed.
Lemma ins_store_det' m s e x : ins_l (store m s (Det e)) x = if Nat.eqb s x then [] else ins_l m x.
Proof. unfold ins_l. rewrite lookup_store. destruct (Nat.eqb s x); auto. Qed.

(* ---- keys of the ordered map are unique ---- *)
Lemma store_keys {A} (m : list (site * A)) s v :
  map fst (store m s v) = match lookup m s with Some _ => map fst m | None => map fst m ++ [s] end.
Proof.
  induction m as [|[k x] m IH]; cbn; auto.
  destruct (Nat.eqb k s) eqn:E; cbn.
  - apply Nat.eqb_eq in E; now subst.
  - rewrite IH. destruct (lookup m s); auto.
Qed.

Lemma lookup_None_notin {A} (m : list (site * A)) s : lookup m s = None -> ~ In s (map fst m).
Proof.
  induction m as [|[k x] m IH]; cbn; auto.
  destruct (Nat.eqb k s) eqn:E; [discriminate|]. intros H [->|Hin]; [rewrite Nat.eqb_refl in E; discriminate|].
  now apply IH.
Qed.

Lemma NoDup_app_single {A} (l : list A) x : NoDup l -> ~ In x l -> NoDup (l ++ [x]).
Proof.
  induction l as [|y l IH]; cbn; intros Hn Hx.
  - repeat constructor; auto.
  - inversion Hn; subst. constructor.
    + intros Hin. apply in_app_or in Hin. destruct Hin as [Hin|[<-|[]]]; auto.
    + apply IH; auto.
Qed.

Lemma NoDup_store {A} (m : list (site * A)) s v : NoDup (map fst m) -> NoDup (map fst (store m s v)).
Proof.
  intros H. rewrite store_keys. destruct (lookup m s) eqn:E; auto.
  apply NoDup_app_single; auto. now apply lookup_None_notin.
Qed.

Lemma In_lookup_nodup {A} (m : list (site * A)) s v : NoDup (map fst m) -> In (s, v) m -> lookup m s = Some v.
Proof.
  induction m as [|[k x] m IH]; cbn; [tauto|]. intros Hnd [H|H].
  - inversion H; subst. now rewrite Nat.eqb_refl.
  - inversion Hnd as [|? ? Hk Hnd']; subst. destruct (Nat.eqb k s) eqn:E.
    + apply Nat.eqb_eq in E; subst. exfalso. apply Hk. apply in_map_iff. exists (s, v). auto.
    + auto.
Qed.

Lemma NoDup_store_impl m p c t : NoDup (map fst m) -> NoDup (map fst (store_impl m p c t)).
Proof.
  intros H. unfold store_impl.
  set (m1 := match lookup m p with None => store m p (Undet [] []) | Some _ => m end).
  assert (H1 : NoDup (map fst m1)) by (unfold m1; destruct (lookup m p); auto using NoDup_store).
  set (m2 := match lookup m1 c with None => store m1 c (Undet [] []) | Some _ => m1 end).
  assert (H2 : NoDup (map fst m2)) by (unfold m2; destruct (lookup m1 c); auto using NoDup_store).
  set (m3 := match lookup m2 p with Some (Undet i o) => store m2 p (Undet i (store o c t)) | _ => m2 end).
  assert (H3 : NoDup (map fst m3)) by (unfold m3; destruct (lookup m2 p) as [[e|i o]|]; auto using NoDup_store).
  destruct (lookup m3 c) as [[e|i o]|]; auto using NoDup_store.
Qed.

Lemma step_nodup st it st1 new : step st it = (st1, new) -> NoDup (map fst (mp st)) -> NoDup (map fst (mp st1)).
Proof.
  intros Hs Hn. destruct it as [s e | t | p c t]; cbn in Hs.
  - destruct (lookup (mp st) s) as [[e'|i o]|]; [destruct (Bool.eqb _ _)| |]; inversion Hs; subst; cbn; auto using NoDup_store.
  - destruct (t_prod t), (t_cons t); inversion Hs; subst; auto.
  - destruct (lookup (mp st) p) as [[ep|i o]|].
    + destruct (eval_expl ep); inversion Hs; subst; auto.
    + destruct (lookup (mp st) c) as [[ec|i' o']|]; [destruct (eval_expl ec)| |]; inversion Hs; subst; cbn; auto using NoDup_store_impl.
    + destruct (lookup (mp st) c) as [[ec|i' o']|]; [destruct (eval_expl ec)| |]; inversion Hs; subst; cbn; auto using NoDup_store_impl.
Qed.

Lemma Run_nodup st work st' : Run st work st' -> NoDup (map fst (mp st)) -> NoDup (map fst (mp st')).
Proof. induction 1; auto. intros. apply IHRun. eapply step_nodup; eauto. Qed.
