(* Completeness invariant of the engine: as long as no conflict has been reported, every constraint
   submitted so far is either still pending on the work stack or already reflected in the valuation.
   At the end of a conflict-free run the valuation therefore satisfies every active constraint, which is
   impossible when a source reaches a sink. *)
From Coq Require Import List Bool Arith PeanoNat Lia.
From NM Require Import Engine EngineSpec.
From NP Require Import EngineBasics EngineStep.
Import ListNotations.

Definition pend (work : list item) (s : site) (b : bool) : Prop :=
  exists e, In (ISite s e) work /\ eval_expl e = b.
Definition Hsrc st work s := dv st s = Some true \/ pend work s true.
Definition Hsnk st work s := dv st s = Some false \/ pend work s false.
Definition Hedge st work p c :=
  (exists t, In (IImpl p c t) work) \/
  ((dv st p = Some true -> Hsrc st work c) /\
   (dv st c = Some false -> Hsnk st work p) /\
   (dv st p = None -> dv st c = None -> stored st p c)).
Definition Hatom st work (a : atom) : Prop :=
  match a with
  | ASrc s => Hsrc st work s
  | ASnk s => Hsnk st work s
  | AEdge p c _ => Hedge st work p c
  | ADirect _ => False
  end.
Definition pendT (work : list item) (a : atom) : Prop :=
  exists t, In (ITrig t) work /\ In a (atoms_of_trigger t).
Definition Hd st work a := pendT work a \/ Hatom st work a.
(* a pending site item contradicts a determined value: a conflict is inevitable *)
Definition Doomed st work := exists s b, dv st s = Some b /\ pend work s (negb b).

Record AllH (C : csys) st work : Prop := {
  ah_base : forall a, In a (base C) -> Doomed st work \/ Hd st work a;
  ah_ctld : forall k a, In (k, a) (ctld C) -> dv st k = Some true -> Doomed st work \/ Hd st work a }.

Definition Good (C : csys) st work : Prop := conflicts st = [] -> AllH C st work.

(* the controlled-trigger table of the state covers the guarded atoms of C *)
Definition Linked (C : csys) (l : list trigger) : Prop :=
  forall k a, In (k, a) (ctld C) -> exists t, In t l /\ t_ctrl t = Some k /\ In a (atoms_of_trigger t).

Lemma pend_cons it rest s b : pend (it :: rest) s b -> (exists e, it = ISite s e /\ eval_expl e = b) \/ pend rest s b.
Proof. intros [e [[H|H] E]]; [left; eauto | right; exists e; auto]. Qed.
Lemma pend_app_r new rest s b : pend rest s b -> pend (new ++ rest) s b.
Proof. intros [e [H E]]. exists e; split; auto. apply in_or_app; auto. Qed.
Lemma pend_app_l new rest s b : pend new s b -> pend (new ++ rest) s b.
Proof. intros [e [H E]]. exists e; split; auto. apply in_or_app; auto. Qed.

Lemma step_impl_cases st p c t st1 new :
  step st (IImpl p c t) = (st1, new) ->
  (dv st p = Some true /\ st1 = st /\ exists e, new = [ISite c e] /\ eval_expl e = true) \/
  (dv st p = Some false /\ st1 = st /\ new = []) \/
  (dv st p = None /\ dv st c = Some true /\ st1 = st /\ new = []) \/
  (dv st p = None /\ dv st c = Some false /\ st1 = st /\ exists e, new = [ISite p e] /\ eval_expl e = false) \/
  (dv st p = None /\ dv st c = None /\ st1 = set_mp st (store_impl (mp st) p c t) /\ new = [] /\
   det_l (mp st) p = None /\ det_l (mp st) c = None).
Proof.
  cbn. rewrite !dv_lookup. unfold det_l.
  destruct (lookup (mp st) p) as [[ep|i o]|].
  - destruct (eval_expl ep) eqn:E; intros H; inversion H; subst.
    + left. repeat split; auto. eexists; split; eauto.
    + right; left. auto.
  - destruct (lookup (mp st) c) as [[ec|i' o']|]; [destruct (eval_expl ec) eqn:E| |]; intros H; inversion H; subst.
    + right; right; left. auto.
    + right; right; right; left. repeat split; auto. eexists; split; eauto.
    + right; right; right; right. repeat split; auto.
    + right; right; right; right. repeat split; auto.
  - destruct (lookup (mp st) c) as [[ec|i' o']|]; [destruct (eval_expl ec) eqn:E| |]; intros H; inversion H; subst.
    + right; right; left. auto.
    + right; right; right; left. repeat split; auto. eexists; split; eauto.
    + right; right; right; right. repeat split; auto.
    + right; right; right; right. repeat split; auto.
Qed.

Lemma step_trig_cases st t st1 new a :
  step st (ITrig t) = (st1, new) -> conflicts st1 = [] -> In a (atoms_of_trigger t) ->
  st1 = st /\
  match a with
  | ASrc c => exists e, new = [ISite c e] /\ eval_expl e = true
  | ASnk p => exists e, new = [ISite p e] /\ eval_expl e = false
  | AEdge p c t' => new = [IImpl p c t']
  | ADirect _ => False
  end.
Proof.
  cbn. unfold atoms_of_trigger, atom_of_kinds.
  destruct (t_prod t) as [| |p], (t_cons t) as [| |c]; intros H Hc Ha; inversion H; subst; cbn in Ha;
    try contradiction; destruct Ha as [<-|[]].
  - cbn in Hc. exfalso. eapply app_eq_nil_r; eauto.
  - split; auto. eexists; split; eauto.
  - split; auto. eexists; split; eauto.
  - split; auto.
Qed.

Section Complete.
  Variable C : csys.

  Lemma Hsrc_step st it rest st1 new x :
    step st it = (st1, new) -> conflicts st1 = [] -> Hsrc st (it :: rest) x -> Hsrc st1 (new ++ rest) x.
  Proof.
    intros Hs Hc [H|H].
    - left. eapply step_dv_mono; eauto.
    - apply pend_cons in H. destruct H as [[e [-> E]]|H].
      + left. rewrite <- E. eapply step_site_noconf; eauto.
      + right. now apply pend_app_r.
  Qed.

  Lemma Hsnk_step st it rest st1 new x :
    step st it = (st1, new) -> conflicts st1 = [] -> Hsnk st (it :: rest) x -> Hsnk st1 (new ++ rest) x.
  Proof.
    intros Hs Hc [H|H].
    - left. eapply step_dv_mono; eauto.
    - apply pend_cons in H. destruct H as [[e [-> E]]|H].
      + left. rewrite <- E. eapply step_site_noconf; eauto.
      + right. now apply pend_app_r.
  Qed.

  Lemma Hedge_step st it rest st1 new p c :
    step st it = (st1, new) -> conflicts st1 = [] -> Hedge st (it :: rest) p c ->
    Doomed st1 (new ++ rest) \/ Hedge st1 (new ++ rest) p c.
  Proof.
    intros Hs Hc [[t [Hin|Hin]]|[K1 [K2 K3]]].
    - (* the pending implication is the item being processed *)
      subst it. destruct (step_impl_cases _ _ _ _ _ _ Hs) as
        [[Dp [-> [e [-> Ee]]]]|[[Dp [-> ->]]|[[Dp [Dc [-> ->]]]|[[Dp [Dc [-> [e [-> Ee]]]]]|[Dp [Dc [-> [-> [Lp Lc]]]]]]]]].
      + destruct (dv st c) as [[|]|] eqn:Dc.
        * right; right. repeat split; try congruence. intros _. now left.
        * left. exists c, false. split; auto. exists e. split; [left; reflexivity|auto].
        * right; right. repeat split; try congruence. intros _. right. exists e. split; [left; reflexivity|auto].
      + right; right. repeat split; try congruence. intros _. now left.
      + right; right. repeat split; congruence.
      + right; right. repeat split; try congruence. intros _. right. exists e. split; [left; reflexivity|auto].
      + right; right. rewrite !dv_store_impl. split; [congruence|]. split; [congruence|]. intros _ _.
        split; cbn.
        * eapply In_lookup_not_None. apply store_impl_new_out; auto.
        * eapply In_lookup_not_None. apply store_impl_new_in; auto.
    - right; left. exists t. apply in_or_app; auto.
    - (* the three clauses held before the step *)
      destruct (dv st1 p) as [[|]|] eqn:Dp1; destruct (dv st1 c) as [[|]|] eqn:Dc1;
        try (right; right; repeat split; intros; try congruence; [left; congruence]).
      all: try (right; right; repeat split; intros; try congruence; fail).
      + (* p true, c false at st1: doomed or contradiction *)
        destruct (dv st p) as [bp|] eqn:Dp.
        * assert (bp = true) by (pose proof (step_dv_mono _ _ _ _ _ _ Hs Dp); congruence). subst bp.
          pose proof (Hsrc_step _ _ _ _ _ _ Hs Hc (K1 eq_refl)) as [H|H]; [congruence|].
          left. exists c, false. auto.
        * destruct (dv st c) as [bc|] eqn:Dc.
          -- assert (bc = false) by (pose proof (step_dv_mono _ _ _ _ _ _ Hs Dc); congruence). subst bc.
             pose proof (Hsnk_step _ _ _ _ _ _ Hs Hc (K2 eq_refl)) as [H|H]; [congruence|].
             left. exists p, true. auto.
          -- destruct (step_dv_new _ _ _ _ _ _ Hs Dp Dp1) as [e [-> _]].
             destruct (step_dv_new _ _ _ _ _ _ Hs Dc Dc1) as [e' [Heq [Ev' _]]].
             inversion Heq; subst. destruct (step_dv_new _ _ _ _ _ _ Hs Dp Dp1) as [e2 [Heq2 [Ev2 _]]].
             inversion Heq2; subst. congruence.
      + (* p true, c undetermined at st1 *)
        right; right. repeat split; intros; try congruence.
        destruct (dv st p) as [bp|] eqn:Dp.
        * assert (bp = true) by (pose proof (step_dv_mono _ _ _ _ _ _ Hs Dp); congruence). subst bp.
          eapply Hsrc_step; eauto.
        * assert (Dc : dv st c = None).
          { destruct (dv st c) eqn:Dc; auto. pose proof (step_dv_mono _ _ _ _ _ _ Hs Dc). congruence. }
          destruct (K3 eq_refl Dc) as [S1 S2].
          destruct (step_dv_new _ _ _ _ _ _ Hs Dp Dp1) as [e [-> [Ev [_ [Ho _]]]]].
          apply lookup_not_None_In in S1. destruct S1 as [tt Hin].
          right. exists (EDeep tt e). split; [|cbn; auto].
          apply in_or_app. left. apply Ho; auto.
      + (* p undetermined, c false at st1 *)
        right; right. repeat split; intros; try congruence.
        destruct (dv st c) as [bc|] eqn:Dc.
        * assert (bc = false) by (pose proof (step_dv_mono _ _ _ _ _ _ Hs Dc); congruence). subst bc.
          eapply Hsnk_step; eauto.
        * assert (Dp : dv st p = None).
          { destruct (dv st p) eqn:Dp; auto. pose proof (step_dv_mono _ _ _ _ _ _ Hs Dp). congruence. }
          destruct (K3 Dp eq_refl) as [S1 S2].
          destruct (step_dv_new _ _ _ _ _ _ Hs Dc Dc1) as [e [-> [Ev [_ [_ Hi]]]]].
          apply lookup_not_None_In in S2. destruct S2 as [tt Hin].
          right. exists (EDeep tt e). split; [|cbn; auto].
          apply in_or_app. left. apply Hi; auto.
      + (* both undetermined at st1 *)
        right; right. split; [congruence|]. split; [congruence|]. intros _ _.
        assert (Dp : dv st p = None).
        { destruct (dv st p) eqn:Dp; auto. pose proof (step_dv_mono _ _ _ _ _ _ Hs Dp). congruence. }
        assert (Dc : dv st c = None).
        { destruct (dv st c) eqn:Dc; auto. pose proof (step_dv_mono _ _ _ _ _ _ Hs Dc). congruence. }
        eapply step_stored; eauto.
  Qed.

  Lemma Hd_step st it rest st1 new a :
    step st it = (st1, new) -> conflicts st1 = [] -> Hd st (it :: rest) a ->
    Doomed st1 (new ++ rest) \/ Hd st1 (new ++ rest) a.
  Proof.
    intros Hs Hc [[t [[Hin|Hin] Ha]]|H].
    - subst it. destruct (step_trig_cases _ _ _ _ _ Hs Hc Ha) as [-> Hk].
      destruct a as [s|s|p c t'|t']; try contradiction.
      + destruct Hk as [e [-> E]]. right; right. right. exists e. split; [left; reflexivity|auto].
      + destruct Hk as [e [-> E]]. right; right. right. exists e. split; [left; reflexivity|auto].
      + subst new. right; right. left. exists t'. left; reflexivity.
    - right; left. exists t. split; auto. apply in_or_app; auto.
    - destruct a as [s|s|p c t'|t']; cbn in H.
      + right; right. eapply Hsrc_step; eauto.
      + right; right. eapply Hsnk_step; eauto.
      + destruct (Hedge_step _ _ _ _ _ _ _ Hs Hc H); [left|right; right]; auto.
      + contradiction.
  Qed.

  Lemma Doomed_step st it rest st1 new :
    step st it = (st1, new) -> conflicts st1 = [] -> Doomed st (it :: rest) -> Doomed st1 (new ++ rest).
  Proof.
    intros Hs Hc [s [b [Hd Hp]]]. apply pend_cons in Hp. destruct Hp as [[e [-> E]]|Hp].
    - pose proof (step_site_noconf _ _ _ _ _ Hs Hc) as H1.
      pose proof (step_dv_mono _ _ _ _ _ _ Hs Hd) as H2. rewrite E in H1. rewrite H1 in H2.
      inversion H2. destruct b; discriminate.
    - exists s, b. split; [eapply step_dv_mono; eauto | now apply pend_app_r].
  Qed.

  Lemma Good_step st it rest st1 new :
    Linked C (ctl st) -> Good C st (it :: rest) -> step st it = (st1, new) -> Good C st1 (new ++ rest).
  Proof.
    intros HL HG Hs Hc.
    assert (Hc0 : conflicts st = []) by (eapply step_conflicts_nil; eauto).
    destruct (HG Hc0) as [Hb Hk].
    constructor.
    + intros a Ha. destruct (Hb a Ha) as [HD|H]; [left; eapply Doomed_step; eauto|].
      eapply Hd_step; eauto.
    + intros k a Ha Dk. destruct (dv st k) as [bk|] eqn:Dk0.
      * assert (bk = true) by (pose proof (step_dv_mono _ _ _ _ _ _ Hs Dk0); congruence). subst bk.
        destruct (Hk k a Ha Dk0) as [HD|H]; [left; eapply Doomed_step; eauto|].
        eapply Hd_step; eauto.
      * destruct (step_dv_new _ _ _ _ _ _ Hs Dk0 Dk) as [e [-> [Ev [Hact _]]]].
        destruct (HL k a Ha) as [t [Ht [Hct Hat]]].
        right. left. exists t. split; auto. apply in_or_app. left. apply Hact.
        unfold activate. apply in_map. unfold controlled_by. apply filter_In. split; auto.
        unfold ctrl_is. rewrite Hct. apply Nat.eqb_refl.
  Qed.
End Complete.
