(* Package-level theorems about the engine: soundness, completeness, verdict characterisation. *)
From Coq Require Import List Bool Arith PeanoNat Lia Permutation.
From NM Require Import Engine EngineSpec.
From NP Require Import EngineBasics EngineStep EngineSound EngineComplete.
Import ListNotations.

(* ---------- generic facts about the invariants ---------- *)
Lemma Good_run C st work st' : Run st work st' -> Linked C (ctl st) -> Good C st work -> Good C st' [].
Proof.
  intros HR HL HG.
  assert (H : Linked C (ctl st') /\ Good C st' []).
  { apply (Run_invariant (fun st w => Linked C (ctl st) /\ Good C st w)) with (st := st) (work := work); auto.
    intros st0 it rest st1 new [HL0 HG0] Hs. split.
    - now rewrite (step_ctl _ _ _ _ Hs).
    - eapply Good_step; eauto. }
  tauto.
Qed.

Definition sat (st : state) (a : atom) : Prop :=
  match a with
  | ASrc s => dv st s = Some true
  | ASnk s => dv st s = Some false
  | AEdge p c _ => (dv st p = Some true -> dv st c = Some true) /\ (dv st c = Some false -> dv st p = Some false)
  | ADirect _ => False
  end.

Lemma pend_nil s b : ~ pend [] s b.
Proof. intros [e [[] _]]. Qed.
Lemma Doomed_nil st : ~ Doomed st [].
Proof. intros [s [b [_ H]]]. eapply pend_nil; eauto. Qed.

Lemma Hd_nil_sat st a : Doomed st [] \/ Hd st [] a -> sat st a.
Proof.
  intros [H|[[t [[] _]]|H]]; [exfalso; eapply Doomed_nil; eauto|].
  destruct a as [s|s|p c t|t]; cbn in *.
  - destruct H as [H|H]; auto. exfalso; eapply pend_nil; eauto.
  - destruct H as [H|H]; auto. exfalso; eapply pend_nil; eauto.
  - destruct H as [[t' []]|[K1 [K2 _]]]. split; intros D.
    + destruct (K1 D) as [H|H]; auto. exfalso; eapply pend_nil; eauto.
    + destruct (K2 D) as [H|H]; auto. exfalso; eapply pend_nil; eauto.
  - auto.
Qed.

Section End.
  Variables (C : csys) (st : state).
  Hypothesis HG : Good C st [].
  Hypothesis Hc : conflicts st = [].

  Lemma end_nilr s : nilr C s -> dv st s = Some true.
  Proof.
    destruct (HG Hc) as [Hb Hk].
    induction 1 as [s Hin | k s Hin Hk' IH | p c t Hin Hp IH | k p c t Hin Hk' IHk Hp IHp].
    - apply (Hd_nil_sat st (ASrc s)). auto.
    - apply (Hd_nil_sat st (ASrc s)). eauto.
    - pose proof (Hd_nil_sat st (AEdge p c t) (Hb _ Hin)) as [H _]. auto.
    - pose proof (Hd_nil_sat st (AEdge p c t) (Hk _ _ Hin IHk)) as [H _]. auto.
  Qed.

  Lemma end_act a : act C a -> sat st a.
  Proof.
    destruct (HG Hc) as [Hb Hk]. intros [Hin|[k [Hin Hn]]].
    - apply Hd_nil_sat; auto.
    - apply Hd_nil_sat. eapply Hk; eauto. now apply end_nilr.
  Qed.

  Lemma end_nonr s : nonr C s -> dv st s = Some false.
  Proof.
    induction 1 as [s Ha | p c t Ha Hc' IH].
    - apply (end_act (ASnk s)); auto.
    - pose proof (end_act _ Ha) as [_ H]. auto.
  Qed.

  Lemma end_no_flow : ~ has_flow C.
  Proof.
    intros [[t Ha]|[s [Hn Hm]]].
    - apply (end_act _ Ha).
    - pose proof (end_nilr _ Hn). pose proof (end_nonr _ Hm). congruence.
  Qed.
End End.

Lemma Good_complete C st : Good C st [] -> has_flow C -> conflicts st <> [].
Proof. intros HG HF Hc. eapply end_no_flow; eauto. Qed.

(* monotonicity in the work list and independence from everything but the map *)
Lemma Hd_nil_work st w a : Doomed st [] \/ Hd st [] a -> Hd st w a.
Proof.
  intros [H|[[t [[] _]]|H]]; [exfalso; eapply Doomed_nil; eauto|]. right.
  destruct a as [s|s|p c t|t]; cbn in *; auto.
  - destruct H as [H|H]; [now left | exfalso; eapply pend_nil; eauto].
  - destruct H as [H|H]; [now left | exfalso; eapply pend_nil; eauto].
  - destruct H as [[t' []]|[K1 [K2 K3]]]. right. split; [|split]; auto.
    + intros D. destruct (K1 D) as [H|H]; [now left | exfalso; eapply pend_nil; eauto].
    + intros D. destruct (K2 D) as [H|H]; [now left | exfalso; eapply pend_nil; eauto].
Qed.

Lemma Hd_mp st st' w a : mp st = mp st' -> Hd st w a -> Hd st' w a.
Proof.
  intros E [H|H]; [now left|right].
  destruct a as [s|s|p c t|t]; cbn in *; try contradiction; unfold Hedge, Hsrc, Hsnk, stored, dv in *; rewrite <- E; auto.
Qed.

(* extending the constraint system at a phase boundary *)
Lemma Good_extend C1 C2 st st' w :
  Good C1 st [] -> mp st = mp st' -> conflicts st = conflicts st' ->
  (forall a, In a (base C2) -> In a (base C1) \/ Hd st' w a) ->
  (forall k a, In (k, a) (ctld C2) -> dv st' k = Some true -> Hd st' w a) ->
  Good C2 st' w.
Proof.
  intros HG Em Ec Hb Hk Hc. rewrite <- Ec in Hc. destruct (HG Hc) as [Hb1 _]. constructor.
  - intros a Ha. right. destruct (Hb a Ha) as [H|H]; auto.
    eapply Hd_mp; eauto. apply Hd_nil_work; auto.
  - intros k a Ha D. right. eauto.
Qed.

(* the soundness invariant: adding justified work, changing the controlled table *)
Lemma J_new_work C st st' w :
  J C st [] -> mp st = mp st' -> conflicts st = conflicts st' ->
  (forall s e, In (ISite s e) w -> just C s e) ->
  (forall t a, In (ITrig t) w -> In a (atoms_of_trigger t) -> act C a) ->
  (forall p c t, In (IImpl p c t) w -> act C (AEdge p c t)) ->
  (forall t a, In t (ctl st') -> In a (atoms_of_trigger t) -> exists k, t_ctrl t = Some k /\ In (k, a) (ctld C)) ->
  J C st' w.
Proof.
  intros [H1 _ _ _ H5o H5i _ H7] Em Ec K2 K3 K4 K6.
  constructor; auto; rewrite <- ?Em, <- ?Ec; auto.
Qed.

(* ---------- sorting is a permutation ---------- *)
Lemma insert_by_perm {A} (key : A -> nat) x l : Permutation (insert_by key x l) (x :: l).
Proof.
  induction l as [|y l IH]; cbn; auto.
  destruct (Nat.leb (key x) (key y)); auto.
  eapply perm_trans; [apply perm_skip; apply IH | apply perm_swap].
Qed.
Lemma sort_by_perm {A} (key : A -> nat) l : Permutation (sort_by key l) l.
Proof.
  induction l as [|x l IH]; cbn; auto.
  eapply perm_trans; [apply insert_by_perm | now apply perm_skip].
Qed.
Lemma In_sort_by {A} (key : A -> nat) l x : In x (sort_by key l) <-> In x l.
Proof. split; apply Permutation_in; [|symmetry]; apply sort_by_perm. Qed.

(* ---------- the package-level run ---------- *)
Definition pkg_run (facts : list (nat * fact)) (annots : list (site * bool)) (ts : list trigger) (st2 : state) : Prop :=
  exists st0 st1,
    Run init_state (upstream_items facts) st0 /\
    Run st0 (annot_items annots) st1 /\
    Run (fst (build_pkg_work st1 ts)) (snd (build_pkg_work st1 ts)) st2.

Definition pkg_csys (facts : list (nat * fact)) annots ts : csys := csys_of (map snd facts) annots ts.

Lemma in_base_fact (facts : list (nat * fact)) (annots : list (site * bool)) (ts : list trigger) rk f a :
  In (rk, f) facts -> In a (atoms_of_fact f) -> In a (base (pkg_csys facts annots ts)).
Proof.
  intros H1 H2. cbn. apply in_or_app. left. apply in_flat_map. exists f. split; auto.
  apply in_map_iff. exists (rk, f). auto.
Qed.
Lemma in_base_annot (facts : list (nat * fact)) (annots : list (site * bool)) (ts : list trigger) (s : site) (b : bool) :
  In (s, b) annots -> In (if b then ASrc s else ASnk s) (base (pkg_csys facts annots ts)).
Proof.
  intros H. cbn. apply in_or_app. right. apply in_or_app. left.
  unfold atoms_of_annots. apply in_map_iff. exists (s, b). auto.
Qed.
Lemma in_base_trig (facts : list (nat * fact)) (annots : list (site * bool)) (ts : list trigger) t a :
  In t ts -> controlled t = false -> In a (atoms_of_trigger t) -> In a (base (pkg_csys facts annots ts)).
Proof.
  intros H Hc Ha. cbn. apply in_or_app. right. apply in_or_app. right.
  apply in_flat_map. exists t. split; auto. apply filter_In. split; auto. now rewrite Hc.
Qed.
Lemma in_ctld_trig (facts : list (nat * fact)) (annots : list (site * bool)) (ts : list trigger) t k a :
  In t ts -> t_ctrl t = Some k -> In a (atoms_of_trigger t) -> In (k, a) (ctld (pkg_csys facts annots ts)).
Proof.
  intros H Hk Ha. cbn. apply in_flat_map. exists t. split; auto. rewrite Hk. apply in_map_iff. eauto.
Qed.
Lemma ctld_inv (facts : list (nat * fact)) (annots : list (site * bool)) (ts : list trigger) k a :
  In (k, a) (ctld (pkg_csys facts annots ts)) -> exists t, In t ts /\ t_ctrl t = Some k /\ In a (atoms_of_trigger t).
Proof.
  cbn. intros H. apply in_flat_map in H. destruct H as [t [Ht H]].
  destruct (t_ctrl t) as [k'|] eqn:E; [|destruct H].
  apply in_map_iff in H. destruct H as [a' [Heq Ha]]. inversion Heq; subst. eauto.
Qed.

(* items of the upstream facts, seen as atoms *)
Lemma upstream_items_inv facts it :
  In it (upstream_items facts) ->
  exists rk f, In (rk, f) facts /\
   match it with
   | ISite s e => In (if eval_expl e then ASrc s else ASnk s) (atoms_of_fact f)
   | IImpl p c t => In (AEdge p c t) (atoms_of_fact f)
   | ITrig _ => False
   end.
Proof.
  unfold upstream_items. intros H. apply in_flat_map in H. destruct H as [[rk f] [Hf H]].
  apply In_sort_by in Hf. exists rk, f. split; auto. cbn in H.
  unfold fact_items in H. apply in_flat_map in H. destruct H as [[s v] [Hsv H]].
  destruct v as [e|ins outs]; cbn in H.
  - destruct H as [<-|[]]. unfold atoms_of_fact. apply in_flat_map. exists (s, Det e). split; auto.
    cbn. destruct (eval_expl e); left; reflexivity.
  - apply in_app_or in H. destruct H as [H|H]; apply in_map_iff in H; destruct H as [[x tx] [<- Hx]]; cbn;
      unfold atoms_of_fact; apply in_flat_map; exists (s, Undet ins outs); (split; [auto|]); cbn; apply in_or_app.
    + left. apply in_map_iff. exists (x, tx). auto.
    + right. apply in_map_iff. exists (x, tx). auto.
Qed.

Lemma upstream_items_pending facts rk f a :
  In (rk, f) facts -> In a (atoms_of_fact f) -> Hd init_state (upstream_items facts) a.
Proof.
  intros Hf Ha. right. unfold atoms_of_fact in Ha. apply in_flat_map in Ha. destruct Ha as [[s v] [Hsv Ha]].
  assert (Hitems : forall it, In it (fact_items [(s, v)]) -> In it (upstream_items facts)).
  { intros it Hit. unfold upstream_items. apply in_flat_map. exists (rk, f). split; [now apply In_sort_by|].
    cbn. unfold fact_items in *. apply in_flat_map. exists (s, v). split; auto.
    cbn in Hit. now rewrite app_nil_r in Hit. }
  destruct v as [e|ins outs]; cbn in Ha.
  - assert (Hit : In (ISite s e) (upstream_items facts)) by (apply Hitems; cbn; auto).
    destruct (eval_expl e) eqn:E; destruct Ha as [<-|[]]; cbn; right; exists e; auto.
  - apply in_app_or in Ha. destruct Ha as [Ha|Ha]; apply in_map_iff in Ha; destruct Ha as [[x tx] [<- Hx]]; cbn; left.
    + exists tx. apply Hitems. cbn. rewrite app_nil_r. apply in_or_app. left. apply in_map_iff. exists (x, tx). auto.
    + exists tx. apply Hitems. cbn. rewrite app_nil_r. apply in_or_app. right. apply in_map_iff. exists (x, tx). auto.
Qed.

Lemma dedup_In l : forall seen s, In s l -> In s (dedup l seen) \/ In s seen.
Proof.
  induction l as [|x l IH]; intros seen s H; [destruct H|]. cbn.
  destruct (existsb (Nat.eqb x) seen) eqn:E.
  - destruct H as [<-|H]; [|now apply IH].
    right. apply existsb_exists in E. destruct E as [y [Hy E]]. apply Nat.eqb_eq in E. now subst.
  - destruct H as [<-|H]; [left; left; reflexivity|].
    destruct (IH (x :: seen) s H) as [H1|[<-|H1]]; auto.
    + left; right; auto.
    + left; left; reflexivity.
Qed.

Lemma is_det_true_dv st s : is_det_true (mp st) s = true <-> dv st s = Some true.
Proof.
  unfold is_det_true. rewrite dv_lookup. destruct (lookup (mp st) s) as [[e|i o]|]; split; intros H; try discriminate; auto.
  - now rewrite H.
  - now inversion H.
Qed.

Lemma build_pkg_work_items st ts it :
  In it (snd (build_pkg_work st ts)) ->
  exists t, it = ITrig t /\ In t ts /\
    (controlled t = false \/ exists k, t_ctrl t = Some k /\ dv st k = Some true).
Proof.
  cbn. intros H. apply in_app_or in H. destruct H as [H|H].
  - apply in_flat_map in H. destruct H as [k [Hk H]]. apply filter_In in Hk. destruct Hk as [_ Hk].
    apply in_map_iff in H. destruct H as [t [<- Ht]]. unfold controlled_by in Ht.
    apply filter_In in Ht. destruct Ht as [Ht Hc]. apply filter_In in Ht. destruct Ht as [Ht _].
    exists t. repeat split; auto. right. exists k. unfold ctrl_is in Hc.
    destruct (t_ctrl t) as [k'|]; [|discriminate]. apply Nat.eqb_eq in Hc. subst. split; auto.
    now apply is_det_true_dv.
  - apply in_map_iff in H. destruct H as [t [<- Ht]]. apply filter_In in Ht. destruct Ht as [Ht Hc].
    exists t. repeat split; auto. left. now apply negb_true_iff in Hc.
Qed.

Lemma build_pkg_work_uncontrolled st ts t :
  In t ts -> controlled t = false -> In (ITrig t) (snd (build_pkg_work st ts)).
Proof.
  intros Ht Hc. cbn. apply in_or_app. right. apply in_map. apply filter_In. split; auto. now rewrite Hc.
Qed.

Lemma build_pkg_work_activated st ts t k :
  In t ts -> t_ctrl t = Some k -> dv st k = Some true -> In (ITrig t) (snd (build_pkg_work st ts)).
Proof.
  intros Ht Hk Hd. cbn. apply in_or_app. left. apply in_flat_map. exists k. split.
  - apply filter_In. split; [|now apply is_det_true_dv].
    assert (Hin : In k (ctrl_sites ts)).
    { unfold ctrl_sites. apply in_flat_map. exists t. split; auto. rewrite Hk. left; reflexivity. }
    destruct (dedup_In _ [] _ Hin) as [H|[]]; auto.
  - apply in_map. unfold controlled_by. apply filter_In. split.
    + apply filter_In. split; auto. unfold controlled. now rewrite Hk.
    + unfold ctrl_is. rewrite Hk. apply Nat.eqb_refl.
Qed.

Section Package.
  Variables (facts : list (nat * fact)) (annots : list (site * bool)) (ts : list trigger).
  Let C := pkg_csys facts annots ts.

  Lemma annot_items_inv it : In it (annot_items annots) -> exists s b, In (s, b) annots /\ it = ISite s (EAnnot b s).
  Proof.
    unfold annot_items. intros H. apply in_map_iff in H. destruct H as [[s b] [<- H]].
    apply In_sort_by in H. eauto.
  Qed.

  Theorem pkg_J st2 : pkg_run facts annots ts st2 -> J C st2 [].
  Proof.
    intros [st0 [st1 [RA [RB RC]]]].
    assert (JA : J C init_state (upstream_items facts)).
    { constructor; cbn; try (intros; contradiction); try discriminate.
      - intros s e H. destruct (upstream_items_inv _ _ H) as [rk [f [Hf Ha]]].
        apply j_leaf. left. eapply in_base_fact; eauto.
      - intros t a H. destruct (upstream_items_inv _ _ H) as [rk [f [Hf []]]].
      - intros p c t H. destruct (upstream_items_inv _ _ H) as [rk [f [Hf Ha]]].
        left. eapply in_base_fact; eauto. }
    pose proof (J_run _ _ _ _ RA JA) as J0.
    assert (JB : J C st0 (annot_items annots)).
    { apply (J_new_work C st0 st0); auto.
      - intros s e H. destruct (annot_items_inv _ H) as [s' [b [Hin Heq]]]. inversion Heq; subst.
        apply j_leaf. left. cbn. now apply in_base_annot.
      - intros t a H. destruct (annot_items_inv _ H) as [s' [b [_ Heq]]]. discriminate.
      - intros p c t H. destruct (annot_items_inv _ H) as [s' [b [_ Heq]]]. discriminate.
      - rewrite (Run_ctl _ _ _ RA). cbn. intros t a []. }
    pose proof (J_run _ _ _ _ RB JB) as J1'.
    assert (JC : J C (fst (build_pkg_work st1 ts)) (snd (build_pkg_work st1 ts))).
    { apply (J_new_work C st1); auto.
      - intros s e H. destruct (build_pkg_work_items _ _ _ H) as [t [Heq _]]. discriminate.
      - intros t a H Ha. destruct (build_pkg_work_items _ _ _ H) as [t' [Heq [Ht Hk]]]. inversion Heq; subst t'.
        destruct Hk as [Hu|[k [Hk Hd]]].
        + left. eapply in_base_trig; eauto.
        + right. exists k. split; [apply (in_ctld_trig facts annots ts t k a); auto|].
          unfold dv in Hd. destruct (det_l (mp st1) k) as [e|] eqn:E; [|discriminate].
          pose proof (J1 _ _ _ J1' _ _ E) as Hj. apply just_reach in Hj. inversion Hd as [Hv]. now rewrite Hv in Hj.
      - intros p c t H. destruct (build_pkg_work_items _ _ _ H) as [t' [Heq _]]. discriminate.
      - cbn. intros t a Ht Ha. apply filter_In in Ht. destruct Ht as [Ht Hc].
        unfold controlled in Hc. destruct (t_ctrl t) as [k|] eqn:E; [|discriminate].
        exists k. split; auto. apply (in_ctld_trig facts annots ts t k a); auto. }
    exact (J_run _ _ _ _ RC JC).
  Qed.

  Theorem pkg_Good st2 : pkg_run facts annots ts st2 -> Good C st2 [].
  Proof.
    intros [st0 [st1 [RA [RB RC]]]].
    set (CA := {| base := flat_map atoms_of_fact (map snd facts); ctld := [] |}).
    set (CB := {| base := base CA ++ atoms_of_annots annots; ctld := [] |}).
    assert (GA : Good CA init_state (upstream_items facts)).
    { intros _. constructor; cbn; [|intros k a []].
      intros a Ha. right. apply in_flat_map in Ha. destruct Ha as [f [Hf Ha]].
      apply in_map_iff in Hf. destruct Hf as [[rk f'] [<- Hf]]. eapply upstream_items_pending; eauto. }
    assert (LA : Linked CA (ctl init_state)) by (intros k a []).
    pose proof (Good_run _ _ _ _ RA LA GA) as G0.
    assert (GB : Good CB st0 (annot_items annots)).
    { apply (Good_extend CA CB st0 st0); auto; [|intros k a []].
      intros a Ha. cbn in Ha. apply in_app_or in Ha. destruct Ha as [Ha|Ha]; [now left|right].
      unfold atoms_of_annots in Ha. apply in_map_iff in Ha. destruct Ha as [[s b] [<- Hin]]. cbn.
      assert (Hit : In (ISite s (EAnnot b s)) (annot_items annots)).
      { unfold annot_items. apply in_map_iff. exists (s, b). split; auto. now apply In_sort_by. }
      right. destruct b; cbn; right; [exists (EAnnot true s) | exists (EAnnot false s)]; split; auto. }
    assert (LB : Linked CB (ctl st0)) by (intros k a []).
    pose proof (Good_run _ _ _ _ RB LB GB) as G1.
    assert (GC : Good C (fst (build_pkg_work st1 ts)) (snd (build_pkg_work st1 ts))).
    { apply (Good_extend CB C st1); auto.
      - intros a Ha. unfold C, pkg_csys, csys_of in Ha. cbn in Ha.
        apply in_app_or in Ha. destruct Ha as [Ha|Ha]; [left; cbn; apply in_or_app; now left|].
        apply in_app_or in Ha. destruct Ha as [Ha|Ha]; [left; cbn; apply in_or_app; now right|].
        right. apply in_flat_map in Ha. destruct Ha as [t [Ht Ha]]. apply filter_In in Ht. destruct Ht as [Ht Hc].
        apply negb_true_iff in Hc. left. exists t. split; auto. now apply build_pkg_work_uncontrolled.
      - intros k a Ha Hd. destruct (ctld_inv _ _ _ _ _ Ha) as [t [Ht [Hk Hat]]].
        left. exists t. split; auto. eapply build_pkg_work_activated; eauto. }
    assert (LC : Linked C (ctl (fst (build_pkg_work st1 ts)))).
    { intros k a Ha. destruct (ctld_inv _ _ _ _ _ Ha) as [t [Ht [Hk Hat]]]. exists t. repeat split; auto.
      cbn. apply filter_In. split; auto. unfold controlled. now rewrite Hk. }
    exact (Good_run _ _ _ _ RC LC GC).
  Qed.

  (* ---- the C05 statements, at the level of one package ---- *)
  Theorem engine_sound st2 : pkg_run facts annots ts st2 ->
    forall c, In c (conflicts st2) -> conflict_ok C c.
  Proof. intros H. apply (J7 _ _ _ (pkg_J _ H)). Qed.

  Theorem engine_conflict_iff_flow st2 : pkg_run facts annots ts st2 -> (conflicts st2 <> [] <-> has_flow C).
  Proof.
    intros H. split.
    - eapply J_conflict_flow. apply (pkg_J _ H).
    - apply Good_complete. now apply pkg_Good.
  Qed.

  Theorem engine_verdicts st2 : pkg_run facts annots ts st2 -> ~ has_flow C ->
    forall s, (dv st2 s = Some true <-> nilr C s) /\ (dv st2 s = Some false <-> nonr C s).
  Proof.
    intros H NF s.
    assert (Hc : conflicts st2 = []).
    { destruct (conflicts st2) eqn:E; auto. exfalso. apply NF. apply (engine_conflict_iff_flow _ H). congruence. }
    pose proof (pkg_J _ H) as HJ. pose proof (pkg_Good _ H) as HG.
    split; split.
    - unfold dv. destruct (det_l (mp st2) s) as [e|] eqn:E; [|discriminate]. intros Hv. inversion Hv as [Hv'].
      pose proof (just_reach _ _ _ (J1 _ _ _ HJ _ _ E)) as R. now rewrite Hv' in R.
    - eapply end_nilr; eauto.
    - unfold dv. destruct (det_l (mp st2) s) as [e|] eqn:E; [|discriminate]. intros Hv. inversion Hv as [Hv'].
      pose proof (just_reach _ _ _ (J1 _ _ _ HJ _ _ E)) as R. now rewrite Hv' in R.
    - eapply end_nonr; eauto.
  Qed.
End Package.
