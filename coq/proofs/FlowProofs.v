(* Soundness of the flow analysis on MiniGo: if the constraint system made of the emitted triggers has no
   source-to-sink flow (i.e., by C05, the engine reports no conflict), no execution dereferences nil. *)
From Coq Require Import List Bool Arith PeanoNat Lia.
From NM Require Import Engine EngineSpec MiniGo Flow.
Import ListNotations.

(* ---------- variables, sets of producers and environments ---------- *)
Lemma var_eqb_eq x y : var_eqb x y = true <-> x = y.
Proof.
  destruct x, y; cbn; split; intros H; try discriminate; try (apply Nat.eqb_eq in H; now subst);
    inversion H; subst; apply Nat.eqb_refl.
Qed.
Lemma var_eqb_refl x : var_eqb x x = true.
Proof. now apply var_eqb_eq. Qed.
Lemma var_eqb_neq x y : var_eqb x y = false <-> x <> y.
Proof. split; intros H. - intros E. apply var_eqb_eq in E. congruence. - destruct (var_eqb x y) eqn:E; auto. apply var_eqb_eq in E. contradiction. Qed.
Lemma var_eq_dec (x y : var) : {x = y} + {x <> y}.
Proof. decide equality; apply Nat.eq_dec. Qed.

Lemma asite_eqb_eq s t : asite_eqb s t = true <-> s = t.
Proof.
  destruct s as [f i|f|k|f c|f c|k m i|k m], t as [g j|g|l|g d|g d|k' m' i'|k' m']; cbn; split; intros H; try discriminate;
    try (apply andb_true_iff in H; destruct H as [H1 H2]; apply andb_true_iff in H1; destruct H1 as [H0 H1];
         apply Nat.eqb_eq in H0, H1, H2; now subst);
    try (apply andb_true_iff in H; destruct H as [H1 H2]; apply Nat.eqb_eq in H1, H2; now subst);
    try (apply Nat.eqb_eq in H; now subst);
    inversion H; subst; rewrite ?Nat.eqb_refl; reflexivity.
Qed.
Lemma asite_eqb_refl s : asite_eqb s s = true.
Proof. now apply asite_eqb_eq. Qed.
Lemma prod_eqb_eq p q : prod_eqb p q = true <-> p = q.
Proof.
  destruct p as [| |s| |f c x|f c|f c], q as [| |t| |g d y|g d|g d]; cbn; split; intros H; try discriminate; auto.
  - apply asite_eqb_eq in H. now subst.
  - inversion H; subst. now apply asite_eqb_eq.
  - apply andb_true_iff in H. destruct H as [H H3]. apply andb_true_iff in H. destruct H as [H1 H2].
    apply Nat.eqb_eq in H1, H2. apply var_eqb_eq in H3. now subst.
  - inversion H; subst. now rewrite !Nat.eqb_refl, var_eqb_refl.
  - apply andb_true_iff in H. destruct H as [H1 H2]. apply Nat.eqb_eq in H1, H2. now subst.
  - inversion H; subst. now rewrite !Nat.eqb_refl.
  - apply andb_true_iff in H. destruct H as [H1 H2]. apply Nat.eqb_eq in H1, H2. now subst.
  - inversion H; subst. now rewrite !Nat.eqb_refl.
Qed.

Definition env_le (e1 e2 : env) : Prop := forall x p, In p (aget e1 x) -> In p (aget e2 x).

Lemma env_le_refl e : env_le e e.
Proof. intros x p H; exact H. Qed.
Lemma env_le_trans e1 e2 e3 : env_le e1 e2 -> env_le e2 e3 -> env_le e1 e3.
Proof. intros H1 H2 x p H. apply H2, H1, H. Qed.

Lemma aget_notin e x : ~ In x (keys e) -> aget e x = dflt x.
Proof.
  induction e as [|[y a] e IH]; cbn; auto. intros H.
  destruct (var_eqb y x) eqn:E; [apply var_eqb_eq in E; subst; tauto|]. apply IH. tauto.
Qed.

Lemma subset_b_sound a b : subset_b a b = true -> forall p, In p a -> In p b.
Proof.
  unfold subset_b. rewrite forallb_forall. intros H p Hp. specialize (H p Hp).
  apply existsb_exists in H. destruct H as [q [Hq E]]. apply prod_eqb_eq in E. now subst.
Qed.

Lemma env_leb_sound e1 e2 : env_leb e1 e2 = true -> env_le e1 e2.
Proof.
  unfold env_leb. rewrite forallb_forall. intros H x p Hp.
  destruct (in_dec var_eq_dec x (keys e1 ++ keys e2)) as [Hin|Hnin].
  - eapply subset_b_sound; eauto.
  - assert (~ In x (keys e1)) by (intros Hx; apply Hnin; apply in_or_app; auto).
    assert (~ In x (keys e2)) by (intros Hx; apply Hnin; apply in_or_app; auto).
    rewrite aget_notin in Hp by auto. rewrite aget_notin by auto. exact Hp.
Qed.

Lemma aget_map_keys (g : var -> aset) l x : In x l -> aget (map (fun y => (y, g y)) l) x = g x.
Proof.
  induction l as [|y l IH]; cbn; [tauto|]. intros H.
  destruct (var_eqb y x) eqn:E; [apply var_eqb_eq in E; now subst|].
  destruct H as [->|H]; [rewrite var_eqb_refl in E; discriminate | auto].
Qed.

Lemma in_union a b p : In p (union a b) <-> In p a \/ In p b.
Proof.
  unfold union. rewrite in_app_iff, filter_In. split.
  - intros [H|[H _]]; auto.
  - intros [H|H]; auto. destruct (existsb (prod_eqb p) a) eqn:E.
    + apply existsb_exists in E. destruct E as [q [Hq E]]. apply prod_eqb_eq in E. subst. auto.
    + right. split; auto.
Qed.

Lemma in_dedup_vars l x : In x (dedup_vars l) <-> In x l.
Proof.
  induction l as [|y l IH]; cbn; [tauto|]. destruct (existsb (var_eqb y) l) eqn:E.
  - rewrite IH. split; auto. intros [->|H]; auto.
    apply existsb_exists in E. destruct E as [z [Hz E]]. apply var_eqb_eq in E. now subst.
  - cbn. rewrite IH. tauto.
Qed.

Lemma aget_join e1 e2 x p : In p (aget (join e1 e2) x) <-> In p (aget e1 x) \/ In p (aget e2 x).
Proof.
  unfold join. destruct (in_dec var_eq_dec x (keys e1 ++ keys e2)) as [Hin|Hnin].
  - rewrite aget_map_keys by (now apply in_dedup_vars). apply in_union.
  - assert (H1 : ~ In x (keys e1)) by (intros Hx; apply Hnin; apply in_or_app; auto).
    assert (H2 : ~ In x (keys e2)) by (intros Hx; apply Hnin; apply in_or_app; auto).
    rewrite (aget_notin e1), (aget_notin e2) by auto.
    assert (Hk : ~ In x (keys (map (fun y => (y, union (aget e1 y) (aget e2 y))) (dedup_vars (keys e1 ++ keys e2))))).
    { unfold keys at 1. rewrite map_map. cbn. rewrite map_id. now rewrite in_dedup_vars. }
    rewrite aget_notin by auto. tauto.
Qed.

Lemma join_le_l e1 e2 : env_le e1 (join e1 e2).
Proof. intros x p H. apply aget_join. auto. Qed.
Lemma join_le_r e1 e2 : env_le e2 (join e1 e2).
Proof. intros x p H. apply aget_join. auto. Qed.

Lemma aget_aput e x a y : aget (aput e x a) y = if var_eqb x y then a else aget e y.
Proof. reflexivity. Qed.

(* guards *)
Lemma aget_env_map fn e x : (forall p, In p (dflt x) -> fn p = p) -> aget (env_map fn e) x = map fn (aget e x).
Proof.
  intros Hd. induction e as [|[y a] e IH]; cbn.
  - symmetry. destruct x; cbn in *; rewrite Hd; auto.
  - destruct (var_eqb y x); auto.
Qed.
Lemma kill_dflt xe x p : In p (dflt x) -> kill_guard xe p = p.
Proof. destruct x; cbn; intros [<-|[]]; reflexivity. Qed.
Lemma check_dflt xe x p : In p (dflt x) -> check_guard xe p = p.
Proof. destruct x; cbn; intros [<-|[]]; reflexivity. Qed.
Lemma aget_aputk e x a y : aget (aputk e x a) y = map (kill_guard x) (if var_eqb x y then a else aget e y).
Proof. unfold aputk. rewrite aget_aput. destruct (var_eqb x y); auto. apply aget_env_map. apply kill_dflt. Qed.

Lemma norm_in ps p : In p (norm ps) -> In p ps.
Proof. unfold norm. intros H. apply filter_In in H. tauto. Qed.
(* a producer dropped by norm is the checked form of a result of a function of which an unchecked result is there *)
Lemma norm_keep ps p : In p ps ->
  In p (norm ps) \/ exists f cs q, p = PChecked f cs /\ In q (norm ps) /\ kind_of q = KAlways /\ q <> PStale.
Proof.
  intros Hp. unfold norm. destruct p as [| |s| |f c x|f c|f c]; try (left; apply filter_In; split; auto; fail).
  destruct (existsb (fun q => match q with PGuard g _ _ | PUng g _ => Nat.eqb f g | _ => false end) ps) eqn:E.
  - right. apply existsb_exists in E. destruct E as [q [Hq Eq]]. exists f, c, q. split; auto.
    destruct q as [| |s| |g d y|g d|g d]; try discriminate; (split; [apply filter_In; split; auto|split; [reflexivity|discriminate]]).
  - left. apply filter_In. split; auto. now rewrite E.
Qed.

Lemma use_ok_in ps p : use_ok ps = true -> In p ps -> p <> PStale.
Proof.
  unfold use_ok. intros H Hp ->. apply negb_true_iff in H.
  assert (E : existsb (prod_eqb PStale) ps = true) by (apply existsb_exists; exists PStale; split; auto).
  congruence.
Qed.

Lemma aget_mark_stale e : forall ng x, aget (mark_stale ng e) x =
  match x with
  | VL _ => aget e x
  | VG k => if Nat.ltb k ng && negb (fresh e k) then PStale :: aget e x else aget e x
  end.
Proof.
  induction ng as [|n IH]; intros x; cbn [mark_stale].
  - destruct x; auto.
  - destruct (fresh e n) eqn:F.
    + rewrite IH. destruct x as [i|k]; auto.
      destruct (Nat.ltb_spec k n), (Nat.ltb_spec k (S n)); cbn; auto; try lia.
      assert (k = n) by lia. subst. now rewrite F.
    + rewrite aget_aput. destruct x as [i|k]; cbn [var_eqb].
      * apply IH.
      * destruct (Nat.eqb_spec n k) as [->|E].
        -- rewrite F. destruct (Nat.ltb_spec k (S k)); cbn; auto; lia.
        -- rewrite IH. destruct (Nat.ltb_spec k n), (Nat.ltb_spec k (S n)); cbn; auto; lia.
Qed.

(* ---------- the declarative form of the analysis ---------- *)
Section Judgement.
  Variable Has : strig -> Prop.     (* the triggers that are available (in the form the context gives them) *)
  Variable ng : nat.                (* number of package-level variables *)
  Variable ctr : fname -> bool.     (* contracted functions *)
  Variable sp : fname -> bool.      (* callee in the package of the function at hand *)
  Variable f : fname.               (* the function at hand *)

  Definition incl_all (tr : list strig) : Prop := forall t, In t tr -> Has t.

  Definition args_ok (e : env) (sf : nat -> asite) (args : list atom_e) : Prop :=
    forall i a, nth_error args i = Some a -> forall p, In p (uprods e a) ->
      Has (mk_trigger 0 p (CSite (sf i))).

  (* env after x, xe = g(..) at call site cs *)
  Definition call2_env (e : env) (cs : nat) (x xe : option var) (g : fname) : env :=
    let e' := mark_stale ng e in
    let res := match xe with Some y => [PGuard g cs y] | None => [PUng g cs] end in
    let e1 := match x with Some y => env_map (kill_guard y) e' | None => e' end in
    let e2 := match xe with Some y => env_map (kill_guard y) e1 | None => e1 end in
    let e3 := match xe with Some y => aput e2 y [PStale] | None => e2 end in
    match x with Some y => aput e3 y res | None => e3 end.

  Inductive J : stmt -> env -> option env -> Prop :=
    | JSkip e : J SSkip e (Some e)
    | JSeqN s1 s2 e : J s1 e None -> J (SSeq s1 s2) e None
    | JSeq s1 s2 e e1 e2 : J s1 e (Some e1) -> J s2 e1 e2 -> J (SSeq s1 s2) e e2
    | JAssign x a e : incl_all (store_triggers x (uprods e a)) ->
        use_ok (prods_of_atom e a) || negb (is_glob x) = true ->
        J (SAssign x a) e (Some (aputk e x (prods_of_atom e a)))
    | JCall cs x g args e : args_ok e (call_param_site ctr g cs) args ->
        forallb (fun a => use_ok (prods_of_atom e a)) args = true ->
        incl_all (match x with Some y => store_triggers y [PSite (call_result_site ctr sp g cs args)] | None => [] end) ->
        J (SCall cs x g args) e
          (Some (match x with Some y => aputk (mark_stale ng e) y [PSite (call_result_site ctr sp g cs args)] | None => mark_stale ng e end))
    | JDeref d x e : (forall p, In p (norm (aget e x)) -> Has (mk_trigger d p CAlways)) -> use_ok (aget e x) = true ->
        J (SDeref d x) e (Some e)
    | JIf c s1 s2 e et ef trc o1 o2 : acond c e = (et, ef, trc, true) -> incl_all trc ->
        J s1 et o1 -> J s2 ef o2 -> J (SIf c s1 s2) e (join_opt o1 o2)
    | JWhile c body e einv et ef trc ob :
        env_le e einv -> acond c einv = (et, ef, trc, true) -> incl_all trc -> J body et ob ->
        (forall eb, ob = Some eb -> env_le eb einv) ->
        J (SWhile c body) e (Some ef)
    | JReturn a e : (forall p, In p (uprods e a) -> Has (mk_trigger 0 p (CSite (SResult f)))) ->
        use_ok (prods_of_atom e a) = true -> J (SReturn a) e None
    | JConv x k j e : J (SConv x k j) e (Some (aputk e x [PNever]))
    | JConvI x y k k2 e : incl_all (store_triggers x (uprods e (AVar y))) ->
        use_ok (prods_of_atom e (AVar y)) || negb (is_glob x) = true ->
        J (SConvI x y k k2) e (Some (aputk e x (prods_of_atom e (AVar y))))
    | JCallI cs d x xi k m args e :
        (forall p, In p (norm (aget e xi)) -> Has (mk_trigger d p CAlways)) -> use_ok (aget e xi) = true ->
        args_ok e (SIParam k m) args -> forallb (fun a => use_ok (prods_of_atom e a)) args = true ->
        incl_all (match x with Some y => store_triggers y [PSite (SIResult k m)] | None => [] end) ->
        J (SCallI cs d x xi k m args) e
          (Some (match x with Some y => aputk (mark_stale ng e) y [PSite (SIResult k m)] | None => mark_stale ng e end))
    (* return a, er: either the error is known non-nil here, or it is known nil and the value is a use at the result *)
    | JReturn2 a er e : use_ok (prods_of_atom e a) = true ->
        (forall q, In q (prods_of_atom e er) -> q = PNever) \/
        ((forall q, In q (prods_of_atom e er) -> q = PNil) /\
         (forall p, In p (uprods e a) -> Has (mk_trigger 0 p (CSite (SResult f))))) ->
        J (SReturn2 a er) e None
    | JCall2 cs x xe g args e : args_ok e (fun i => SParam g i) args ->
        forallb (fun a => use_ok (prods_of_atom e a)) args = true ->
        J (SCall2 cs x xe g args) e (Some (call2_env e cs x xe g))
    | JRetCall cs g args e : args_ok e (fun i => SParam g i) args ->
        forallb (fun a => use_ok (prods_of_atom e a)) args = true ->
        Has (mk_trigger 0 (PSite (SResult g)) (CSite (SResult f))) ->
        J (SRetCall cs g args) e None.

  Lemma J_skip_inv e o : J SSkip e o -> o = Some e.
  Proof. inversion 1; subst; auto. Qed.
  Lemma J_seq_inv s1 s2 e o : J (SSeq s1 s2) e o -> (J s1 e None /\ o = None) \/ exists e1, J s1 e (Some e1) /\ J s2 e1 o.
  Proof. inversion 1; subst; eauto. Qed.
  Lemma J_assign_inv x a e o : J (SAssign x a) e o ->
    incl_all (store_triggers x (uprods e a)) /\ use_ok (prods_of_atom e a) || negb (is_glob x) = true /\
    o = Some (aputk e x (prods_of_atom e a)).
  Proof. inversion 1; subst; auto. Qed.
  Lemma J_call_inv cs x g args e o : J (SCall cs x g args) e o ->
    args_ok e (call_param_site ctr g cs) args /\ forallb (fun a => use_ok (prods_of_atom e a)) args = true /\
    incl_all (match x with Some y => store_triggers y [PSite (call_result_site ctr sp g cs args)] | None => [] end) /\
    o = Some (match x with Some y => aputk (mark_stale ng e) y [PSite (call_result_site ctr sp g cs args)] | None => mark_stale ng e end).
  Proof. inversion 1; subst; auto. Qed.
  Lemma J_deref_inv d x e o : J (SDeref d x) e o ->
    (forall p, In p (norm (aget e x)) -> Has (mk_trigger d p CAlways)) /\ use_ok (aget e x) = true /\ o = Some e.
  Proof. inversion 1; subst; auto. Qed.
  Lemma J_if_inv c s1 s2 e o : J (SIf c s1 s2) e o ->
    exists et ef trc o1 o2, acond c e = (et, ef, trc, true) /\ incl_all trc /\ J s1 et o1 /\ J s2 ef o2 /\ o = join_opt o1 o2.
  Proof. inversion 1; subst. do 5 eexists. eauto. Qed.
  Lemma J_while_inv c body e o : J (SWhile c body) e o ->
    exists einv et ef trc ob, env_le e einv /\ acond c einv = (et, ef, trc, true) /\ incl_all trc /\ J body et ob /\
      (forall eb, ob = Some eb -> env_le eb einv) /\ o = Some ef.
  Proof. inversion 1; subst. do 5 eexists. eauto 10. Qed.
  Lemma J_return_inv a e o : J (SReturn a) e o ->
    (forall p, In p (uprods e a) -> Has (mk_trigger 0 p (CSite (SResult f)))) /\
    use_ok (prods_of_atom e a) = true /\ o = None.
  Proof. inversion 1; subst; auto. Qed.

  Lemma J_conv_inv x k j e o : J (SConv x k j) e o -> o = Some (aputk e x [PNever]).
  Proof. inversion 1; subst; auto. Qed.
  Lemma J_convi_inv x y k k2 e o : J (SConvI x y k k2) e o ->
    incl_all (store_triggers x (uprods e (AVar y))) /\ use_ok (prods_of_atom e (AVar y)) || negb (is_glob x) = true /\
    o = Some (aputk e x (prods_of_atom e (AVar y))).
  Proof. inversion 1; subst; auto. Qed.
  Lemma J_calli_inv cs d x xi k m args e o : J (SCallI cs d x xi k m args) e o ->
    (forall p, In p (norm (aget e xi)) -> Has (mk_trigger d p CAlways)) /\ use_ok (aget e xi) = true /\
    args_ok e (SIParam k m) args /\ forallb (fun a => use_ok (prods_of_atom e a)) args = true /\
    incl_all (match x with Some y => store_triggers y [PSite (SIResult k m)] | None => [] end) /\
    o = Some (match x with Some y => aputk (mark_stale ng e) y [PSite (SIResult k m)] | None => mark_stale ng e end).
  Proof. inversion 1; subst; repeat split; auto. Qed.
  Lemma J_return2_inv a er e o : J (SReturn2 a er) e o ->
    use_ok (prods_of_atom e a) = true /\
    ((forall q, In q (prods_of_atom e er) -> q = PNever) \/
     ((forall q, In q (prods_of_atom e er) -> q = PNil) /\
      (forall p, In p (uprods e a) -> Has (mk_trigger 0 p (CSite (SResult f)))))) /\ o = None.
  Proof. inversion 1; subst; auto. Qed.
  Lemma J_call2_inv cs x xe g args e o : J (SCall2 cs x xe g args) e o ->
    args_ok e (fun i => SParam g i) args /\ forallb (fun a => use_ok (prods_of_atom e a)) args = true /\
    o = Some (call2_env e cs x xe g).
  Proof. inversion 1; subst; auto. Qed.

  Lemma J_retcall_inv cs g args e o : J (SRetCall cs g args) e o ->
    args_ok e (fun i => SParam g i) args /\ forallb (fun a => use_ok (prods_of_atom e a)) args = true /\
    Has (mk_trigger 0 (PSite (SResult g)) (CSite (SResult f))) /\ o = None.
  Proof. inversion 1; subst; auto. Qed.

  Lemma arg_triggers_ok e sf : forall args i0,
    (forall t, In t (arg_triggers e sf i0 args) -> Has t) ->
    forall i a, nth_error args i = Some a -> forall p, In p (uprods e a) ->
      Has (mk_trigger 0 p (CSite (sf (i0 + i)))).
  Proof.
    induction args as [|a0 args IH]; intros i0 H i a Hn p Hp; [destruct i; discriminate|].
    destruct i as [|i]; cbn in Hn.
    - inversion Hn; subst a0. rewrite Nat.add_0_r. apply H. cbn. apply in_or_app. left.
      apply in_map_iff. exists p. auto.
    - replace (i0 + S i) with (S i0 + i) by lia. eapply IH; eauto.
      intros t Ht. apply H. cbn. apply in_or_app. auto.
  Qed.

  Lemma loop_inv_spec (an : env -> option ares) c : forall n e einv r,
    loop_inv an c n e = Some (einv, r) ->
    env_le e einv /\ an (cond_true c einv) = Some r /\ (forall eb, a_env r = Some eb -> env_le eb einv).
  Proof.
    induction n as [|n IH]; intros e einv r H; cbn in H; [discriminate|].
    destruct (an (cond_true c e)) as [r0|] eqn:Ea; try discriminate.
    destruct (a_env r0) as [eb|] eqn:Eb.
    - destruct (env_leb eb e) eqn:El.
      + inversion H; subst. split; [apply env_le_refl|]. split; auto.
        intros eb' Heq. rewrite Eb in Heq. inversion Heq; subst. now apply env_leb_sound.
      + destruct (IH _ _ _ H) as [H1 H2]. split; auto. eapply env_le_trans; [apply join_le_l|exact H1].
    - inversion H; subst. split; [apply env_le_refl|]. split; auto. rewrite Eb. discriminate.
  Qed.

  Lemma incl_all_app a b : incl_all (a ++ b) <-> incl_all a /\ incl_all b.
  Proof.
    unfold incl_all. split.
    - intros H. split; intros t Ht; apply H; apply in_or_app; auto.
    - intros [H1 H2] t Ht. apply in_app_or in Ht. destruct Ht; auto.
  Qed.

  (* the executable analysis produces derivations *)
  Lemma analyze_J fuel : forall st e r,
    analyze ng ctr sp f fuel st e = Some r -> a_gsafe r = true -> incl_all (a_trig r) -> J st e (a_env r).
  Proof.
    induction st as [| s1 IH1 s2 IH2 | x a | cs x g args | d x | c s1 IH1 s2 IH2 | c body IH | a | x k j | x y k k2 | cs d x xi k m args | a er | cs x xe g args | cs g args]; intros e r H Hg Hall; cbn in H.
    - inversion H; subst. constructor.
    - destruct (analyze ng ctr sp f fuel s1 e) as [r1|] eqn:E1; try discriminate.
      destruct (a_env r1) as [e1|] eqn:Ee1.
      + destruct (analyze ng ctr sp f fuel s2 e1) as [r2|] eqn:E2; try discriminate. inversion H; subst. cbn in *.
        apply andb_true_iff in Hg. destruct Hg as [Hg1 Hg2]. apply incl_all_app in Hall. destruct Hall as [Ha1 Ha2].
        eapply JSeq; [rewrite <- Ee1; eapply IH1; eauto | eapply IH2; eauto].
      + inversion H; subst. rewrite Ee1. apply JSeqN. rewrite <- Ee1. eapply IH1; eauto.
    - inversion H; subst. cbn in *. constructor; auto.
    - inversion H; subst. cbn in *. apply incl_all_app in Hall. destruct Hall as [Ha1 Ha2]. constructor; auto.
      intros i a Hn p Hp. apply (arg_triggers_ok e (call_param_site ctr g cs) args 0 Ha1 i a Hn p Hp).
    - inversion H; subst. cbn in *. constructor; auto. intros p Hp. apply Hall. apply in_map_iff. exists p. auto.
    - destruct (acond c e) as [[[et ef] trc] bc] eqn:Ec.
      destruct (analyze ng ctr sp f fuel s1 et) as [r1|] eqn:E1; try discriminate.
      destruct (analyze ng ctr sp f fuel s2 ef) as [r2|] eqn:E2; try discriminate.
      inversion H; subst. cbn in *. apply andb_true_iff in Hg. destruct Hg as [Hg Hg2].
      apply andb_true_iff in Hg. destruct Hg as [Hbc Hg1]. subst bc.
      apply incl_all_app in Hall. destruct Hall as [Ha0 Hall]. apply incl_all_app in Hall. destruct Hall as [Ha1 Ha2].
      eapply JIf; eauto.
    - destruct (loop_inv (analyze ng ctr sp f fuel body) c fuel e) as [[einv r0]|] eqn:El; try discriminate.
      destruct (loop_inv_spec _ _ _ _ _ _ El) as [H1 [H2 H3]]. unfold cond_true in H2.
      destruct (acond c einv) as [[[et ef] trc] bc] eqn:Ec. inversion H; subst. cbn in *.
      apply andb_true_iff in Hg. destruct Hg as [Hbc Hg1]. subst bc.
      apply incl_all_app in Hall. destruct Hall as [Ha0 Ha1].
      eapply JWhile; eauto.
    - inversion H; subst. cbn in *. constructor; auto. intros p Hp. apply Hall. apply in_map_iff. exists p. auto.
    - inversion H; subst. cbn in *. constructor.
    - inversion H; subst. cbn in *. constructor; auto.
    - inversion H; subst. cbn in *. apply andb_true_iff in Hg. destruct Hg as [Hg1 Hg2].
      apply incl_all_app in Hall. destruct Hall as [Ha0 Hall]. apply incl_all_app in Hall. destruct Hall as [Ha1 Ha2].
      constructor; auto.
      + intros p Hp. apply Ha0. apply in_map_iff. exists p. auto.
      + intros i a Hn p Hp. apply (arg_triggers_ok e (SIParam k m) args 0 Ha1 i a Hn p Hp).
    - inversion H; subst. cbn in *. apply andb_true_iff in Hg. destruct Hg as [Hu Hcl]. constructor; auto.
      destruct (forallb (fun p => match p with PNever => true | _ => false end) (prods_of_atom e er)) eqn:En.
      + left. intros q Hq. rewrite forallb_forall in En. specialize (En q Hq). destruct q; try discriminate. reflexivity.
      + right. cbn in Hcl. rewrite forallb_forall in Hcl. split.
        * intros q Hq. specialize (Hcl q Hq). destruct q; try discriminate. reflexivity.
        * intros p Hp. apply Hall. apply in_map_iff. exists p. auto.
    - inversion H; subst. cbn in *. constructor; auto.
      intros i a Hn p Hp. apply (arg_triggers_ok e (fun i => SParam g i) args 0 Hall i a Hn p Hp).
    - inversion H; subst. cbn in *. apply incl_all_app in Hall. destruct Hall as [Ha1 Ha2]. constructor; auto.
      + intros i a Hn p Hp. apply (arg_triggers_ok e (fun i => SParam g i) args 0 Ha1 i a Hn p Hp).
      + apply Ha2. left. reflexivity.
  Qed.
End Judgement.

(* ---------- stores ---------- *)
Lemma sget_sset s x v y : sget (sset s x v) y = if var_eqb x y then v else sget s y.
Proof. reflexivity. Qed.

Lemma sget_app s1 s2 x : sget (s1 ++ s2) x = if existsb (fun yv => var_eqb (fst yv) x) s1 then sget s1 x else sget s2 x.
Proof.
  induction s1 as [|[y v] s1 IH]; cbn; auto. destruct (var_eqb y x); cbn; auto.
Qed.

Lemma sget_filter (P : var -> bool) s x : sget (filter (fun yv => P (fst yv)) s) x = if P x then sget s x else VNil.
Proof.
  induction s as [|[y v] s IH]; cbn.
  - now destruct (P x).
  - destruct (P y) eqn:Ey; cbn.
    + destruct (var_eqb y x) eqn:E; auto. apply var_eqb_eq in E; subst. now rewrite Ey.
    + destruct (var_eqb y x) eqn:E; auto. apply var_eqb_eq in E; subst. rewrite Ey in *. exact IH.
Qed.

Lemma existsb_filter_key (P : var -> bool) s x :
  P x = false -> existsb (fun yv : var * value => var_eqb (fst yv) x) (filter (fun yv => P (fst yv)) s) = false.
Proof.
  intros Hx. induction s as [|[y v] s IH]; cbn; auto. destruct (P y) eqn:Ey; cbn; auto.
  destruct (var_eqb y x) eqn:E; auto. apply var_eqb_eq in E; subst. congruence.
Qed.

Lemma sget_nokey (l : store) x : existsb (fun yv : var * value => var_eqb (fst yv) x) l = false -> sget l x = VNil.
Proof. induction l as [|[y v] l IH]; cbn; auto. destruct (var_eqb y x); cbn; auto. discriminate. Qed.

Lemma sget_after s' s x : sget (globals_of s' ++ locals_of s) x = if is_glob x then sget s' x else sget s x.
Proof.
  rewrite sget_app. unfold globals_of, locals_of. destruct (is_glob x) eqn:G.
  - destruct (existsb _ _) eqn:Ex.
    + rewrite sget_filter with (P := is_glob), G. reflexivity.
    + apply sget_nokey in Ex. rewrite sget_filter with (P := is_glob), G in Ex. rewrite Ex.
      rewrite sget_filter with (P := fun y => negb (is_glob y)), G. reflexivity.
  - rewrite (existsb_filter_key is_glob) by auto.
    rewrite sget_filter with (P := fun y => negb (is_glob y)), G. reflexivity.
Qed.

Lemma bind_params_keys vs : forall i0 x,
  existsb (fun yv : var * value => var_eqb (fst yv) x) (bind_params i0 vs) =
  match x with VL i => Nat.leb i0 i && Nat.ltb i (i0 + length vs) | VG _ => false end.
Proof.
  induction vs as [|v vs IH]; intros i0 x; cbn -[Nat.ltb Nat.leb].
  - destruct x as [i|k]; auto. destruct (Nat.leb_spec i0 i), (Nat.ltb_spec i (i0 + 0)); cbn; auto; lia.
  - rewrite IH. destruct x as [i|k]; cbn -[Nat.ltb Nat.leb]; auto.
    destruct (Nat.eqb_spec i0 i), (Nat.leb_spec (S i0) i), (Nat.ltb_spec i (S (i0 + length vs))), (Nat.leb_spec i0 i), (Nat.ltb_spec i (i0 + S (length vs))); cbn; auto; lia.
Qed.

Lemma bind_params_get vs : forall i0 i, sget (bind_params i0 vs) (VL i) =
  if Nat.leb i0 i then match nth_error vs (i - i0) with Some v => v | None => VNil end else VNil.
Proof.
  induction vs as [|v vs IH]; intros i0 i; cbn.
  - destruct (Nat.leb i0 i); auto. destruct (i - i0); reflexivity.
  - destruct (Nat.eqb i0 i) eqn:E.
    + apply Nat.eqb_eq in E; subst. rewrite Nat.leb_refl, Nat.sub_diag. reflexivity.
    + apply Nat.eqb_neq in E. rewrite IH. destruct (Nat.leb i0 i) eqn:L.
      * apply Nat.leb_le in L. assert (L2 : Nat.leb (S i0) i = true) by (apply Nat.leb_le; lia). rewrite L2.
        replace (i - i0) with (S (i - S i0)) by lia. reflexivity.
      * apply Nat.leb_gt in L. assert (L2 : Nat.leb (S i0) i = false) by (apply Nat.leb_gt; lia). now rewrite L2.
Qed.

(* the store a callee starts from *)
Lemma sget_callee vs s x : sget (bind_params 0 vs ++ globals_of s) x =
  match x with
  | VL i => match nth_error vs i with Some v => v | None => VNil end
  | VG _ => sget s x
  end.
Proof.
  rewrite sget_app, bind_params_keys. destruct x as [i|k].
  - change (0 + length vs) with (length vs). change (Nat.leb 0 i) with true. cbn [andb].
    destruct (Nat.ltb_spec i (length vs)) as [L|L].
    + rewrite bind_params_get. cbn. now rewrite Nat.sub_0_r.
    + unfold globals_of. rewrite sget_filter with (P := is_glob). cbn.
      assert (E : nth_error vs i = None) by (apply nth_error_None; lia). now rewrite E.
  - unfold globals_of. now rewrite sget_filter with (P := is_glob).
Qed.

Lemma entry_env_get g n : forall i0 x, aget (entry_env g i0 n) x =
  match x with
  | VL i => if Nat.leb i0 i && Nat.ltb i (i0 + n) then [PSite (SParam g i)] else [PNil]
  | VG k => [PSite (SGlobal k)]
  end.
Proof.
  induction n as [|n IH]; intros i0 x; cbn [entry_env aget].
  - destruct x as [i|k]; cbn [dflt]; auto. destruct (Nat.leb_spec i0 i), (Nat.ltb_spec i (i0 + 0)); cbn; auto; lia.
  - rewrite IH. destruct x as [i|k]; cbn [var_eqb]; auto.
    destruct (Nat.eqb_spec i0 i) as [->|E].
    + destruct (Nat.leb_spec i i), (Nat.ltb_spec i (i + S n)); cbn; auto; lia.
    + destruct (Nat.leb_spec i0 i), (Nat.leb_spec (S i0) i), (Nat.ltb_spec i (S i0 + n)), (Nat.ltb_spec i (i0 + S n)); cbn; auto; lia.
Qed.

Lemma init_globals_get gi : forall k0 k, sget (init_globals k0 gi) (VG k) =
  if Nat.leb k0 k then match nth_error gi (k - k0) with Some true => VPtr None | _ => VNil end else VNil.
Proof.
  induction gi as [|b gi IH]; intros k0 k; cbn.
  - destruct (Nat.leb k0 k); auto. destruct (k - k0); reflexivity.
  - rewrite sget_app. destruct b; cbn.
    + destruct (Nat.eqb_spec k0 k) as [->|E]; cbn.
      * rewrite Nat.leb_refl, Nat.sub_diag. reflexivity.
      * rewrite IH. destruct (Nat.leb_spec k0 k), (Nat.leb_spec (S k0) k); auto; try lia.
        replace (k - k0) with (S (k - S k0)) by lia. reflexivity.
    + rewrite IH. destruct (Nat.leb_spec k0 k), (Nat.leb_spec (S k0) k); auto; try lia.
      * replace (k - k0) with (S (k - S k0)) by lia. reflexivity.
      * assert (k = k0) by lia. subst. rewrite Nat.sub_diag. reflexivity.
Qed.

Lemma init_globals_local gi : forall k0 i, sget (init_globals k0 gi) (VL i) = VNil.
Proof.
  induction gi as [|b gi IH]; intros k0 i; cbn; auto. rewrite sget_app. destruct b; cbn; auto.
Qed.

Lemma decl_triggers_in gi : forall k0 k, nth_error gi k = Some false ->
  In (mk_trigger 0 PNil (CSite (SGlobal (k0 + k)))) (decl_triggers k0 gi).
Proof.
  induction gi as [|b gi IH]; intros k0 k H; [destruct k; discriminate|].
  destruct k as [|k]; cbn in H.
  - inversion H; subst. rewrite Nat.add_0_r. cbn [decl_triggers app]. left. reflexivity.
  - cbn [decl_triggers]. apply in_or_app. right. replace (k0 + S k) with (S k0 + k) by lia. auto.
Qed.

(* ---------- soundness ---------- *)
(* the run-time meaning of a nonnil->nonnil contract: started with a non-nil argument (whatever the package-level
   variables hold and the opaque conditions answer), the function returns a non-nil value *)
Definition contract_true (prog : program) (fd : func) : Prop :=
  forall fuel gs oracle d, (forall x, sget gs (VL x) = VNil) ->
    match exec prog fuel (f_body fd) (bind_params 0 [VPtr d] ++ gs) oracle with
    | OReturn v _ _ => v <> VNil
    | ONormal _ _ => False
    | _ => True
    end.

Section Sound.
  Variable prog : program.
  Variable ctr : fname -> bool.
  Variable sp2 : fname -> fname -> bool.
  Variable ALLs : list strig.
  Let ALL := map etrig ALLs.
  Let C := csys_of [] [] ALL.
  Let ng := length (p_ginit prog).
  Hypothesis NoFlow : ~ has_flow C.

  (* a function runs either in its own right (None) or, when it has a contract, on behalf of one call site
     (Some cs): its triggers are then read through the duplication onto that call site *)
  Definition psub (g : fname) (c : option nat) (p : prod) : prod :=
    match c with
    | Some cs => if prod_eqb p (PSite (SParam g 0)) then PSite (SCallParam g cs) else p
    | None => p
    end.
  Definition rsub (g : fname) (c : option nat) (s : asite) : asite :=
    match c with
    | Some cs => if asite_eqb s (SResult g) then SCallResult g cs else s
    | None => s
    end.
  Definition inst (g : fname) (c : option nat) (t : strig) : strig :=
    match c with
    | Some cs => if touches g t then dupt g cs t else t
    | None => t
    end.
  Definition Has (g : fname) (c : option nat) (t : strig) : Prop := In (inst g c t) ALLs.

  Definition ctx_ok (g : fname) (c : option nat) : Prop :=
    match c with
    | None => True
    | Some cs => ctr g = true /\ exists fc fdc, nth_error (p_funcs prog) fc = Some fdc /\
                                  In (g, cs) (calls_of (f_body fdc)) /\ sp2 fc g = true
    end.

  Hypothesis FuncsOK : forall g fd c, nth_error (p_funcs prog) g = Some fd -> ctx_ok g c ->
    exists o, J (Has g c) ng ctr (sp2 g) g (f_body fd) (entry_env g 0 (f_nparams fd)) o /\
              (o <> None -> Has g c (falloff g)).
  Hypothesis WF : forall g fd, nth_error (p_funcs prog) g = Some fd -> stmt_ok prog (f_body fd) = true.
  Hypothesis CtrTrue : forall g fd, ctr g = true -> nth_error (p_funcs prog) g = Some fd ->
    f_nparams fd = 1 /\ contract_true prog fd.
  Hypothesis ImplsPlain : forall row f, In row (p_impls prog) -> In f row -> ctr f = false.
  (* every call of a contracted function comes from the callee's package; the (interface, implementation) pairs
     of the conversions have their triggers *)
  Definition W (kj : nat * nat) : Prop := forall t, In t (affil prog kj) -> In t ALLs.
  Definition IW (kk : nat * nat) : Prop := forall t, In t (iaffil prog kk) -> In t ALLs.
  Definition calls_ok (g : fname) (st : stmt) : Prop :=
    (forall h cs, In (h, cs) (calls_of st) -> ctr h = true -> sp2 g h = true /\ ctx_ok h (Some cs)) /\
    (forall kj, In kj (convs_of st) -> W kj) /\
    (forall kk, In kk (iconvs_of st) -> IW kk).
  Hypothesis CallsOK : forall g fd, nth_error (p_funcs prog) g = Some fd -> calls_ok g (f_body fd).

  Definition nu (s : asite) : Prop := nilr C (enc s).
  (* what a producer says of the value in store st: may it be nil? (an unchecked result of an error-returning
     function: if its error -- a local -- is nil now, then the function's result site is nil-able) *)
  Definition nilS (st : store) (p : prod) : Prop :=
    match p with
    | PNil | PStale | PUng _ _ => True
    | PNever => False
    | PSite s => nu s
    | PGuard f _ xe => if is_glob xe then True else (sget st xe = VNil -> nu (SResult f))
    | PChecked f _ => nu (SResult f)
    end.
  (* what the trigger of a producer needs *)
  Definition nilK (p : prod) : Prop :=
    match kind_of p with KAlways => True | KNever => False | KCond k => nilr C k end.
  Definition respects (g : fname) (c : option nat) (s : store) (e : env) : Prop :=
    forall x, var_ok prog x = true -> sget s x = VNil -> exists p, In p (aget e x) /\ nilS s (psub g c p).
  (* a package-level variable that holds nil has a nil-able site *)
  Definition GInv (s : store) : Prop := forall k, k < ng -> sget s (VG k) = VNil -> nu (SGlobal k).
  (* an interface value of type I_k holding an S_j: the methods of S_j are linked to those of I_k (a nil-able result
     of the implementation makes the interface method's result nil-able, a nil-able parameter of the interface method
     the implementation's), and S_j has them *)
  Definition L (k j : nat) : Prop := forall m np f fd, nth_error (isig prog k) m = Some np ->
    nth_error (nth j (p_impls prog) []) m = Some f -> nth_error (p_funcs prog) f = Some fd ->
    (nu (SResult f) -> nu (SIResult k m)) /\
    (forall i, S i < f_nparams fd -> nu (SIParam k m i) -> nu (SParam f (S i))).
  Definition Conf (k j : nat) : Prop := forall m np, nth_error (isig prog k) m = Some np ->
    exists f fd, nth_error (nth j (p_impls prog) []) m = Some f /\ nth_error (p_funcs prog) f = Some fd /\ f_nparams fd = S np.
  Definition Vok (v : value) : Prop := forall k j, v = VPtr (Some (k, j)) -> L k j /\ Conf k j.
  Definition DInv (s : store) : Prop := forall x, Vok (sget s x).
  (* what a nil result means for the caller *)
  Definition ret_ok (g : fname) (c : option nat) : Prop :=
    match c with
    | None => nu (SResult g)
    | Some cs => nu (SCallParam g cs) -> nu (SCallResult g cs)
    end.

  Lemma psub_stale g c p : psub g c p = PStale <-> p = PStale.
  Proof.
    destruct c as [cs|]; cbn; [|tauto]. destruct (prod_eqb p (PSite (SParam g 0))) eqn:E; [|tauto].
    apply prod_eqb_eq in E. subst. split; discriminate.
  Qed.

  Lemma nilS_nilK st p : nilS st p -> p <> PStale -> nilK p.
  Proof. destruct p; cbn; auto; try contradiction. Qed.

  (* the substitution of a call-site context only touches the parameter site *)
  Lemma psub_other g c p : (forall s, p <> PSite s) -> psub g c p = p.
  Proof.
    intros H. destruct c as [cs|]; cbn; auto. destruct (prod_eqb p (PSite (SParam g 0))) eqn:E; auto.
    apply prod_eqb_eq in E. exfalso. eapply H; eauto.
  Qed.
  Lemma psub_kill g c x p : psub g c (kill_guard x p) = kill_guard x (psub g c p).
  Proof.
    destruct p as [| |s| |f cs y|f cs|f cs]; try (rewrite !psub_other by (intros s0; discriminate); reflexivity).
    - destruct c as [cs|]; cbn; auto. destruct (asite_eqb s (SParam g 0)); reflexivity.
    - cbn. destruct (var_eqb y x) eqn:E; rewrite !psub_other by (intros s0; discriminate); cbn; rewrite ?E; auto.
  Qed.
  Lemma psub_check g c x p : psub g c (check_guard x p) = check_guard x (psub g c p).
  Proof.
    destruct p as [| |s| |f cs y|f cs|f cs]; try (rewrite !psub_other by (intros s0; discriminate); reflexivity).
    - destruct c as [cs|]; cbn; auto. destruct (asite_eqb s (SParam g 0)); reflexivity.
    - cbn. destruct (var_eqb y x && negb (is_glob y)) eqn:E; rewrite !psub_other by (intros s0; discriminate); cbn; rewrite ?E; auto.
  Qed.

  (* the form of an instantiated trigger *)
  Lemma inst_mk g c id p k :
    inst g c (mk_trigger id p k) =
    {| s_id := id; s_prod := psub g c p;
       s_cons := match k with CSite s => CSite (rsub g c s) | CAlways => CAlways end;
       s_ctrl := match c, k with
                 | Some cs, CSite s => if asite_eqb s (SResult g) then Some (SCallParam g cs) else None
                 | _, _ => None
                 end |}.
  Proof.
    destruct c as [cs|]; cbn; [|destruct k; reflexivity].
    unfold touches, dupt, is_param_prod, is_res_cons. cbn.
    destruct (prod_eqb p (PSite (SParam g 0))) eqn:E1; destruct k as [|s]; cbn; try reflexivity;
      destruct (asite_eqb s (SResult g)) eqn:E2; cbn; reflexivity.
  Qed.

  Lemma in_base t a : In t ALLs -> s_ctrl t = None -> In a (atoms_of_trigger (etrig t)) -> In a (base C).
  Proof.
    intros Ht Hc Ha. unfold C, csys_of. cbn. apply in_flat_map. exists (etrig t). split; auto.
    apply filter_In. split; [apply in_map; auto|]. unfold controlled, etrig. cbn. now rewrite Hc.
  Qed.
  Lemma in_ctld t k a : In t ALLs -> s_ctrl t = Some k -> In a (atoms_of_trigger (etrig t)) -> In (enc k, a) (ctld C).
  Proof.
    intros Ht Hc Ha. unfold C, csys_of. cbn. apply in_flat_map. exists (etrig t). split; [apply in_map; auto|].
    unfold etrig at 1. cbn. rewrite Hc. apply in_map_iff. exists a. auto.
  Qed.

  (* a use at a site: a producer that may fire makes the (instantiated) site nil-able, provided the controller of a
     duplicated return trigger is *)
  Lemma tsite g c id p s : Has g c (mk_trigger id p (CSite s)) -> nilK (psub g c p) ->
    (forall cs, c = Some cs -> asite_eqb s (SResult g) = true -> nu (SCallParam g cs)) ->
    nu (rsub g c s).
  Proof.
    unfold Has. rewrite inst_mk. intros Ht Hn Hctl.
    set (t := {| s_id := id; s_prod := psub g c p; s_cons := CSite (rsub g c s);
                 s_ctrl := match c with Some cs => if asite_eqb s (SResult g) then Some (SCallParam g cs) else None | None => None end |}) in *.
    unfold nilK in Hn.
    assert (Hat : atoms_of_trigger (etrig t) = atom_of_kinds id (kind_of (psub g c p)) (KCond (enc (rsub g c s)))) by reflexivity.
    destruct (s_ctrl t) as [k|] eqn:Ek.
    - assert (Hk : nu k).
      { subst t. cbn in Ek. destruct c as [cs|]; [|discriminate]. destruct (asite_eqb s (SResult g)) eqn:E; [|discriminate].
        inversion Ek; subst. eapply Hctl; eauto. }
      destruct (kind_of (psub g c p)) as [| |q] eqn:Ep; try contradiction.
      + eapply nr_csrc; [|exact Hk]. eapply (in_ctld t k); eauto. rewrite Hat. left; reflexivity.
      + eapply nr_cedge with (p := q) (t := id); [|exact Hk|exact Hn].
        eapply (in_ctld t k); eauto. rewrite Hat. left; reflexivity.
    - destruct (kind_of (psub g c p)) as [| |q] eqn:Ep; try contradiction.
      + apply nr_src. eapply (in_base t); eauto. rewrite Hat. left; reflexivity.
      + apply nr_edge with q id; auto. eapply (in_base t); eauto. rewrite Hat. left; reflexivity.
  Qed.

  Lemma tderef g c id p : Has g c (mk_trigger id p CAlways) -> nilK (psub g c p) -> False.
  Proof.
    unfold Has. rewrite inst_mk. intros Ht Hn. apply NoFlow.
    set (t := {| s_id := id; s_prod := psub g c p; s_cons := CAlways;
                 s_ctrl := match c with Some _ => None | None => None end |}) in *.
    assert (Ek : s_ctrl t = None) by (subst t; cbn; destruct c; reflexivity).
    assert (Hat : atoms_of_trigger (etrig t) = atom_of_kinds id (kind_of (psub g c p)) KAlways) by reflexivity.
    unfold nilK in Hn. destruct (kind_of (psub g c p)) as [| |q] eqn:Ep; try contradiction.
    - left. exists id. left. eapply (in_base t); eauto. rewrite Hat. left; reflexivity.
    - right. exists q. split; auto. apply nn_snk. left. eapply (in_base t); eauto. rewrite Hat. left; reflexivity.
  Qed.

  (* sites other than the function's own result are never controlled *)
  Lemma tsite_plain g c id p s : Has g c (mk_trigger id p (CSite s)) -> nilK (psub g c p) ->
    asite_eqb s (SResult g) = false -> nu s.
  Proof.
    intros Ht Hn Hne.
    assert (E : rsub g c s = s) by (unfold rsub; destruct c; auto; now rewrite Hne).
    unfold nu. rewrite <- E. eapply tsite; eauto. intros cs _ E2. congruence.
  Qed.

  (* a use of a value: the producers that are turned into triggers are norm ps; a witness among ps is enough *)
  Lemma psub_kind g c p : kind_of p = KAlways -> kind_of (psub g c p) = KAlways.
  Proof.
    intros H. destruct p; cbn in H; try discriminate; rewrite psub_other by (intros s0; discriminate); reflexivity.
  Qed.
  Lemma use_site g c st ps id s p :
    (forall q, In q (norm ps) -> Has g c (mk_trigger id q (CSite s))) -> In p ps -> nilS st (psub g c p) -> p <> PStale ->
    (forall cs, c = Some cs -> asite_eqb s (SResult g) = true -> nu (SCallParam g cs)) ->
    nu (rsub g c s).
  Proof.
    intros Hall Hp Hn Hs Hctl. destruct (norm_keep ps p Hp) as [Hin|[f [cs [q [-> [Hq [Hk Hqs]]]]]]].
    - eapply tsite; eauto. eapply nilS_nilK; eauto. intros E. apply psub_stale in E. contradiction.
    - eapply (tsite g c id q); eauto. unfold nilK. now rewrite (psub_kind g c q Hk).
  Qed.
  Lemma use_site_plain g c st ps id s p :
    (forall q, In q (norm ps) -> Has g c (mk_trigger id q (CSite s))) -> In p ps -> nilS st (psub g c p) -> p <> PStale ->
    asite_eqb s (SResult g) = false -> nu s.
  Proof.
    intros Hall Hp Hn Hs Hne.
    assert (E : rsub g c s = s) by (unfold rsub; destruct c; auto; now rewrite Hne).
    unfold nu. rewrite <- E. eapply use_site; eauto. intros cs _ E2. congruence.
  Qed.
  Lemma use_deref g c st ps id p :
    (forall q, In q (norm ps) -> Has g c (mk_trigger id q CAlways)) -> In p ps -> nilS st (psub g c p) -> p <> PStale -> False.
  Proof.
    intros Hall Hp Hn Hs. destruct (norm_keep ps p Hp) as [Hin|[f [cs [q [-> [Hq [Hk Hqs]]]]]]].
    - eapply tderef; eauto. eapply nilS_nilK; eauto. intros E. apply psub_stale in E. contradiction.
    - eapply (tderef g c id q); eauto. unfold nilK. now rewrite (psub_kind g c q Hk).
  Qed.

  (* an uncontrolled site-to-site trigger of the program is an edge *)
  Lemma edge_plain p c : In (mk_trigger 0 (PSite p) (CSite c)) ALLs -> nu p -> nu c.
  Proof.
    intros Ht Hp. apply nr_edge with (enc p) 0; auto.
    eapply (in_base (mk_trigger 0 (PSite p) (CSite c))); eauto. cbn. left. reflexivity.
  Qed.

  Lemma respects_le g c s e1 e2 : respects g c s e1 -> env_le e1 e2 -> respects g c s e2.
  Proof. intros H Hle x Hok Hx. destruct (H x Hok Hx) as [p [Hp Hn]]. exists p. split; auto. Qed.

  Lemma DInv_sset s x v : DInv s -> Vok v -> DInv (sset s x v).
  Proof. intros H Hv y. rewrite sget_sset. destruct (var_eqb x y); auto. Qed.

  Lemma Vok_nil : Vok VNil.
  Proof. intros k j E. discriminate. Qed.
  Lemma Vok_plain : Vok (VPtr None).
  Proof. intros k j E. discriminate. Qed.

  Lemma Vok_atom s a : DInv s -> Vok (eval_atom s a).
  Proof. intros H. destruct a; cbn; [apply Vok_nil | apply Vok_plain | apply H]. Qed.

  (* overwriting x: what the producers said stays true once the guards that depended on x are dropped *)
  Lemma nilS_kill g c s x v p : nilS s (psub g c p) -> nilS (sset s x v) (psub g c (kill_guard x p)).
  Proof.
    rewrite psub_kill. destruct (psub g c p) as [| |q| |f cs y|f cs|f cs]; cbn; auto.
    destruct (var_eqb y x) eqn:E; cbn; auto. destruct (is_glob y); auto.
    assert (E' : var_eqb x y = false).
    { apply var_eqb_neq. intros ->. rewrite var_eqb_refl in E. discriminate. }
    intros H Hy. apply H. rewrite E' in Hy. exact Hy.
  Qed.

  Lemma respects_kill g c s e x v : respects g c s e ->
    forall y, var_eqb x y = false -> var_ok prog y = true -> sget (sset s x v) y = VNil ->
    exists p, In p (map (kill_guard x) (aget e y)) /\ nilS (sset s x v) (psub g c p).
  Proof.
    intros H y Hxy Hok Hy. rewrite sget_sset, Hxy in Hy. destruct (H y Hok Hy) as [p [Hp Hn]].
    exists (kill_guard x p). split; [now apply in_map|]. now apply nilS_kill.
  Qed.

  Lemma inv_assign g c s e x v a :
    respects g c s e -> GInv s -> (v = VNil -> exists p, In p a /\ nilS s (psub g c p)) ->
    incl_all (Has g c) (store_triggers x (norm a)) -> use_ok a || negb (is_glob x) = true ->
    respects g c (sset s x v) (aputk e x a) /\ GInv (sset s x v).
  Proof.
    intros H HG Hv Hst Hu. split.
    - intros y Hok Hy. rewrite aget_aputk. destruct (var_eqb x y) eqn:E.
      + rewrite sget_sset, E in Hy. destruct (Hv Hy) as [p [Hp Hn]].
        exists (kill_guard x p). split; [now apply in_map|]. now apply nilS_kill.
      + eapply respects_kill; eauto.
    - intros k Hk Hy. rewrite sget_sset in Hy. destruct (var_eqb x (VG k)) eqn:E; auto.
      apply var_eqb_eq in E. subst x. destruct (Hv Hy) as [p [Hp Hn]].
      cbn in Hu. rewrite orb_false_r in Hu.
      eapply (use_site_plain g c s a 0 (SGlobal k) p); eauto; [|eapply use_ok_in; eauto].
      intros q Hq. apply Hst. cbn. apply in_map_iff. exists q. split; eauto.
  Qed.

  Lemma inv_assign_nonnil g c s e x v a :
    respects g c s e -> GInv s -> v <> VNil -> respects g c (sset s x v) (aputk e x a) /\ GInv (sset s x v).
  Proof.
    intros H HG Hv. split.
    - intros y Hok Hy. rewrite aget_aputk. destruct (var_eqb x y) eqn:E.
      + rewrite sget_sset, E in Hy. contradiction.
      + eapply respects_kill; eauto.
    - intros k Hk Hy. rewrite sget_sset in Hy. destruct (var_eqb x (VG k)); auto. contradiction.
  Qed.

  Lemma eval_atom_respects g c s e a : atom_ok prog a = true -> respects g c s e -> eval_atom s a = VNil ->
    exists p, In p (prods_of_atom e a) /\ nilS s (psub g c p).
  Proof.
    intros Hok H Hv. destruct a as [| |x]; cbn in *.
    - exists PNil. split; [left; reflexivity|]. destruct c; cbn; auto.
    - discriminate.
    - auto.
  Qed.

  Lemma respects_nonnil g c s e x : respects g c s e -> sget s x <> VNil -> respects g c s (aput e x [PNever]).
  Proof.
    intros H Hx y Hok Hy. rewrite aget_aput. destruct (var_eqb x y) eqn:E; auto.
    apply var_eqb_eq in E; subst. congruence.
  Qed.

  (* on the branch where x (an error) is nil, the results it guards are checked *)
  Lemma respects_checked g c s e x : respects g c s e -> sget s x = VNil -> respects g c s (env_map (check_guard x) e).
  Proof.
    intros H Hx y Hok Hy. destruct (H y Hok Hy) as [p [Hp Hn]].
    rewrite aget_env_map by (apply check_dflt). exists (check_guard x p). split; [now apply in_map|].
    rewrite psub_check. destruct (psub g c p) as [| |q| |f cs z|f cs|f cs]; cbn in *; auto.
    destruct (var_eqb z x) eqn:E; cbn; auto. destruct (is_glob z) eqn:Gz; cbn; auto; [now rewrite Gz|].
    apply var_eqb_eq in E. subst. auto.
  Qed.

  Lemma acond_sound g c0 c : forall e et ef tr s oracle,
    acond c e = (et, ef, tr, true) -> incl_all (Has g c0) tr -> cond_ok prog c = true -> respects g c0 s e ->
    match eval_cond s c oracle with
    | CVal b _ => respects g c0 s (if b then et else ef)
    | CPanic _ => False
    end.
  Proof.
    induction c as [|x|d x|c IH|c1 IH1 c2 IH2|c1 IH1 c2 IH2]; intros e et ef tr s oracle Ha Hall Hok Hr; cbn in Ha, Hok |- *.
    - inversion Ha; subst. destruct (ask oracle) as [b o]. now destruct b.
    - inversion Ha; subst. destruct (sget s x) eqn:E.
      + now apply respects_checked.
      + apply respects_nonnil; auto. congruence.
    - inversion Ha as [[E1 E2 E3 Hu]]; subst. destruct (sget s x) eqn:E.
      + destruct (Hr x Hok E) as [p [Hp Hn]]. eapply (use_deref g c0 s _ d p); [|exact Hp|exact Hn|eapply use_ok_in; eauto].
        intros q Hq. apply Hall. apply in_map_iff. exists q. eauto.
      + destruct (ask oracle) as [b o]. now destruct b.
    - destruct (acond c e) as [[[et1 ef1] tr1] b1] eqn:E1. inversion Ha; subst.
      specialize (IH e ef et tr s oracle E1 Hall Hok Hr). destruct (eval_cond s c oracle) as [b o|d]; auto.
      now destruct b.
    - apply andb_true_iff in Hok. destruct Hok as [Hok1 Hok2].
      destruct (acond c1 e) as [[[et1 ef1] tr1] b1] eqn:E1. destruct (acond c2 et1) as [[[et2 ef2] tr2] b2] eqn:E2.
      inversion Ha as [[Ea Eb Ec Hb]]; subst. apply andb_true_iff in Hb. destruct Hb as [-> ->].
      apply incl_all_app in Hall. destruct Hall as [Ha1 Ha2].
      specialize (IH1 e et1 ef1 tr1 s oracle E1 Ha1 Hok1 Hr). destruct (eval_cond s c1 oracle) as [b o|d]; auto.
      destruct b.
      + specialize (IH2 et1 et ef2 tr2 s o E2 Ha2 Hok2 IH1). destruct (eval_cond s c2 o) as [b' o'|d]; auto.
        destruct b'; auto. eapply respects_le; [exact IH2|apply join_le_r].
      + eapply respects_le; [exact IH1|apply join_le_l].
    - apply andb_true_iff in Hok. destruct Hok as [Hok1 Hok2].
      destruct (acond c1 e) as [[[et1 ef1] tr1] b1] eqn:E1. destruct (acond c2 ef1) as [[[et2 ef2] tr2] b2] eqn:E2.
      inversion Ha as [[Ea Eb Ec Hb]]; subst. apply andb_true_iff in Hb. destruct Hb as [-> ->].
      apply incl_all_app in Hall. destruct Hall as [Ha1 Ha2].
      specialize (IH1 e et1 ef1 tr1 s oracle E1 Ha1 Hok1 Hr). destruct (eval_cond s c1 oracle) as [b o|d]; auto.
      destruct b.
      + eapply respects_le; [exact IH1|apply join_le_l].
      + specialize (IH2 ef1 et2 ef tr2 s o E2 Ha2 Hok2 IH1). destruct (eval_cond s c2 o) as [b' o'|d]; auto.
        destruct b'; auto. eapply respects_le; [exact IH2|apply join_le_r].
  Qed.

  Lemma forallb_nth {A} (P : A -> bool) l i a : forallb P l = true -> nth_error l i = Some a -> P a = true.
  Proof. intros H Hn. rewrite forallb_forall in H. apply H. eapply nth_error_In; eauto. Qed.

  (* an argument that is nil makes the site it is passed to nil-able *)
  Lemma arg_site g c s e (sf : nat -> asite) args i a :
    respects g c s e -> args_ok (Has g c) e sf args ->
    forallb (atom_ok prog) args = true -> forallb (fun a => use_ok (prods_of_atom e a)) args = true ->
    (forall i, asite_eqb (sf i) (SResult g) = false) ->
    nth_error args i = Some a -> eval_atom s a = VNil -> nu (sf i).
  Proof.
    intros Hr Hargs Hoks Hus Hsf Ea Hv.
    destruct (eval_atom_respects g c s e a (forallb_nth _ _ _ _ Hoks Ea) Hr Hv) as [p [Hp Hn]].
    eapply (use_site_plain g c s (prods_of_atom e a) 0 (sf i) p); eauto.
    eapply use_ok_in; [|exact Hp]. apply (forallb_nth (fun a => use_ok (prods_of_atom e a)) _ _ _ Hus Ea).
  Qed.

  (* the store a callee starts from: parameters from the values vs (parameter i nil-able when vs[i] is nil),
     package-level variables as the caller has them *)
  Lemma callee_entry h c' s vs n :
    GInv s -> DInv s -> (forall v, In v vs -> Vok v) -> length vs = n ->
    (forall i st, nth_error vs i = Some VNil -> nilS st (psub h c' (PSite (SParam h i)))) ->
    respects h c' (bind_params 0 vs ++ globals_of s) (entry_env h 0 n) /\
    GInv (bind_params 0 vs ++ globals_of s) /\ DInv (bind_params 0 vs ++ globals_of s).
  Proof.
    intros HG HD Hvs Hlen Hnil. split; [|split].
    - intros x Hok Hx. rewrite sget_callee in Hx. rewrite entry_env_get. destruct x as [i|k].
      + cbn [Nat.leb andb Nat.add]. destruct (Nat.ltb i n) eqn:L.
        * apply Nat.ltb_lt in L. exists (PSite (SParam h i)). split; [left; reflexivity|].
          destruct (nth_error vs i) as [v|] eqn:En.
          -- subst v. now apply Hnil.
          -- apply nth_error_None in En. lia.
        * exists PNil. split; [left; reflexivity |]. destruct c'; cbn; auto.
      + exists (PSite (SGlobal k)). split; [left; reflexivity|].
        assert (E : psub h c' (PSite (SGlobal k)) = PSite (SGlobal k)) by (destruct c'; reflexivity).
        rewrite E. cbn. apply HG; auto. cbn in Hok. now apply Nat.ltb_lt in Hok.
    - intros k Hk Hx. rewrite sget_callee in Hx. auto.
    - intros x. rewrite sget_callee. destruct x as [i|k]; [|apply HD].
      destruct (nth_error vs i) as [v|] eqn:En; [|apply Vok_nil]. apply Hvs. eapply nth_error_In; eauto.
  Qed.

  (* the value of a local is the same before and after a call *)
  Lemma nilS_after g c s s' p : nilS s (psub g c p) -> nilS (globals_of s' ++ locals_of s) (psub g c p).
  Proof.
    destruct (psub g c p) as [| |q| |f cs y|f cs|f cs]; cbn; auto.
    rewrite sget_after. destruct (is_glob y); auto.
  Qed.

  (* back in the caller: locals as before the call, package-level variables as the callee left them; those
     whose tracked value is no longer (also) their site are marked stale *)
  Lemma after_call g c s s' e :
    respects g c s e -> GInv s' -> DInv s -> DInv s' ->
    respects g c (globals_of s' ++ locals_of s) (mark_stale ng e) /\ GInv (globals_of s' ++ locals_of s) /\
    DInv (globals_of s' ++ locals_of s).
  Proof.
    intros Hr HG HD HD'. split; [|split].
    - intros x Hok Hx. rewrite sget_after in Hx. rewrite aget_mark_stale. destruct x as [i|k]; cbn in Hx.
      + destruct (Hr (VL i) Hok Hx) as [p [Hp Hn]]. exists p. split; auto. now apply nilS_after.
      + assert (Hk : Nat.ltb k ng = true) by exact Hok. rewrite Hk. cbn [andb]. apply Nat.ltb_lt in Hk. destruct (fresh e k) eqn:F; cbn [negb].
        * exists (PSite (SGlobal k)). split.
          -- unfold fresh in F. apply existsb_exists in F. destruct F as [q [Hq E]]. apply prod_eqb_eq in E. now subst.
          -- assert (E : psub g c (PSite (SGlobal k)) = PSite (SGlobal k)) by (destruct c; reflexivity).
             rewrite E. cbn. apply HG; auto.
        * exists PStale. split; [left; reflexivity|]. destruct c; exact I.
    - intros k Hk Hx. rewrite sget_after in Hx. cbn in Hx. auto.
    - intros x. rewrite sget_after. destruct (is_glob x); auto.
  Qed.

  Lemma calls_ok_seq g a b : calls_ok g (SSeq a b) -> calls_ok g a /\ calls_ok g b.
  Proof.
    intros [H1 [H2 H3]]. split; (split; [|split]).
    - intros h cs Hi. apply H1. cbn. apply in_or_app. auto.
    - intros kj Hi. apply H2. cbn. apply in_or_app. auto.
    - intros kk Hi. apply H3. cbn. apply in_or_app. auto.
    - intros h cs Hi. apply H1. cbn. apply in_or_app. auto.
    - intros kj Hi. apply H2. cbn. apply in_or_app. auto.
    - intros kk Hi. apply H3. cbn. apply in_or_app. auto.
  Qed.
  Lemma calls_ok_if g c a b : calls_ok g (SIf c a b) -> calls_ok g a /\ calls_ok g b.
  Proof. intros H. exact (calls_ok_seq g a b H). Qed.

  (* the triggers of a witnessed (interface, implementation) pair *)
  Lemma affil_methods_in funcs k : forall row m0 m f fd,
    nth_error row m = Some f -> nth_error funcs f = Some fd ->
    forall t, In t (affil_method k (m0 + m) f (f_nparams fd)) -> In t (affil_methods funcs k m0 row).
  Proof.
    induction row as [|f0 row IH]; intros m0 m f fd Hn Hf t Ht; [destruct m; discriminate|].
    destruct m as [|m]; cbn in Hn.
    - inversion Hn; subst. cbn [affil_methods]. rewrite Hf. rewrite Nat.add_0_r in Ht. apply in_or_app. auto.
    - cbn [affil_methods]. apply in_or_app. right. replace (m0 + S m) with (S m0 + m) in Ht by lia. eapply IH; eauto.
  Qed.

  Lemma in_seq_from n : forall i0 i, i0 <= i < i0 + n -> In i (seq_from i0 n).
  Proof.
    induction n as [|n IH]; intros i0 i H; [lia|]. cbn. destruct (Nat.eq_dec i0 i); auto. right. apply IH. lia.
  Qed.

  Lemma nth_error_firstn_lt {A} (l : list A) : forall n m, m < n -> nth_error (firstn n l) m = nth_error l m.
  Proof.
    induction l as [|a l IH]; intros n m H; [now rewrite firstn_nil|].
    destruct n as [|n]; [lia|]. destruct m as [|m]; cbn; auto. apply IH. lia.
  Qed.

  Lemma W_result k j m np f fd : W (k, j) -> nth_error (isig prog k) m = Some np ->
    nth_error (nth j (p_impls prog) []) m = Some f ->
    nth_error (p_funcs prog) f = Some fd -> nu (SResult f) -> nu (SIResult k m).
  Proof.
    intros HW Hs Hm Hf Hn. eapply edge_plain; eauto. apply HW. unfold affil. cbn.
    assert (Hlt : m < length (isig prog k)) by (apply nth_error_Some; congruence).
    eapply (affil_methods_in _ k _ 0 m f fd); eauto; [rewrite nth_error_firstn_lt; auto|]. cbn. left. reflexivity.
  Qed.
  Lemma W_param k j m np f fd i : W (k, j) -> nth_error (isig prog k) m = Some np ->
    nth_error (nth j (p_impls prog) []) m = Some f ->
    nth_error (p_funcs prog) f = Some fd -> S i < f_nparams fd -> nu (SIParam k m i) -> nu (SParam f (S i)).
  Proof.
    intros HW Hs Hm Hf Hi Hn. eapply edge_plain; eauto. apply HW. unfold affil. cbn.
    assert (Hlt : m < length (isig prog k)) by (apply nth_error_Some; congruence).
    eapply (affil_methods_in _ k _ 0 m f fd); eauto; [rewrite nth_error_firstn_lt; auto|]. cbn. right.
    apply in_map_iff. exists i. split; auto. apply in_seq_from. lia.
  Qed.

  (* a witnessed (interface, implementation) pair is linked *)
  Lemma W_L k j : W (k, j) -> L k j.
  Proof.
    intros HW m np f fd Hs Hm Hf. split.
    - eapply W_result; eauto.
    - intros i Hi. eapply W_param; eauto.
  Qed.

  Lemma conform_from_spec : forall sig row m np, conform_from prog row sig = true -> nth_error sig m = Some np ->
    exists f fd, nth_error row m = Some f /\ nth_error (p_funcs prog) f = Some fd /\ f_nparams fd = S np.
  Proof.
    induction sig as [|n0 sig IH]; intros row m np H Hn; [destruct m; discriminate|].
    destruct row as [|f0 row]; cbn in H; [discriminate|].
    apply andb_true_iff in H. destruct H as [H0 H1].
    destruct m as [|m]; cbn in Hn.
    - inversion Hn; subst. destruct (nth_error (p_funcs prog) f0) as [fd|] eqn:Ef; [|discriminate].
      exists f0, fd. cbn. repeat split; auto. now apply Nat.eqb_eq.
    - destruct (IH row m np H1 Hn) as [f [fd [A1 [B1 C1]]]]. exists f, fd. cbn. auto.
  Qed.

  Lemma conform_Conf k j : conform prog k j = true -> Conf k j.
  Proof. intros H m np Hn. eapply conform_from_spec; eauto. Qed.

  Lemma prefix_b_spec : forall a b m x, prefix_b a b = true -> nth_error a m = Some x -> nth_error b m = Some x.
  Proof.
    induction a as [|x0 a IH]; intros b m x H Hn; [destruct m; discriminate|].
    destruct b as [|y0 b]; cbn in H; [discriminate|]. apply andb_true_iff in H. destruct H as [H0 H1].
    apply Nat.eqb_eq in H0. subst y0. destruct m as [|m]; cbn in *; [exact Hn|]. eapply IH; eauto.
  Qed.

  Lemma ilink_methods_in k k2 : forall sig m0 m np,
    nth_error sig m = Some np -> forall t, In t (ilink_method k k2 (m0 + m) np) -> In t (ilink_methods k k2 m0 sig).
  Proof.
    induction sig as [|n0 sig IH]; intros m0 m np Hn t Ht; [destruct m; discriminate|].
    destruct m as [|m]; cbn in Hn.
    - inversion Hn; subst. cbn [ilink_methods]. rewrite Nat.add_0_r in Ht. apply in_or_app. auto.
    - cbn [ilink_methods]. apply in_or_app. right. replace (m0 + S m) with (S m0 + m) in Ht by lia. eapply IH; eauto.
  Qed.

  (* an interface value of type I_k2 used as an I_k keeps its links, through those of the two interfaces *)
  Lemma IW_L k k2 j : IW (k, k2) -> prefix_b (isig prog k) (isig prog k2) = true -> L k2 j -> Conf k2 j -> L k j /\ Conf k j.
  Proof.
    intros HI Hp HL HC. split.
    - intros m np f fd Hs Hm Hf.
      pose proof (prefix_b_spec _ _ _ _ Hp Hs) as Hs2.
      destruct (HL m np f fd Hs2 Hm Hf) as [Lr Lp].
      destruct (HC m np Hs2) as [f' [fd' [Hm' [Hf' Hnp]]]].
      rewrite Hm in Hm'. inversion Hm'; subst f'. rewrite Hf in Hf'. inversion Hf'; subst fd'.
      split.
      + intros Hn. eapply edge_plain; [|apply Lr; exact Hn]. apply HI. unfold iaffil. cbn.
        eapply (ilink_methods_in k k2 _ 0 m np); eauto. cbn. left. reflexivity.
      + intros i Hi Hn. apply Lp; auto. eapply edge_plain; [|exact Hn]. apply HI. unfold iaffil. cbn.
        eapply (ilink_methods_in k k2 _ 0 m np); eauto. cbn. right.
        apply in_map_iff. exists i. split; auto. apply in_seq_from. lia.
    - intros m np Hs. apply HC. eapply prefix_b_spec; eauto.
  Qed.

  Lemma GInv_local s i v : GInv s -> GInv (sset s (VL i) v).
  Proof. intros H k Hk Hx. rewrite sget_sset in Hx. cbn in Hx. auto. Qed.

  (* x, xe = h(..) returned (v, ev) with: ev nil and v nil => the result site of h is nil-able *)
  Lemma call2_respects g c s1 e cs x xe h v ev :
    respects g c s1 (mark_stale ng e) -> GInv s1 ->
    (ev = VNil -> v = VNil -> nu (SResult h)) ->
    match x with Some (VG _) => False | _ => True end ->
    match xe with Some (VL _ as y) => match x with Some y' => var_eqb y y' = false | None => True end | Some (VG _) => False | None => True end ->
    let s2 := match x with Some y => sset s1 y v | None => s1 end in
    let s3 := match xe with Some y => sset s2 y ev | None => s2 end in
    respects g c s3 (call2_env ng e cs x xe h) /\ GInv s3.
  Proof.
    intros Hr HG Hret Hx Hxe s2 s3. split.
    - intros z Hok Hz. unfold call2_env.
      set (e' := mark_stale ng e) in *.
      set (e1 := match x with Some y => env_map (kill_guard y) e' | None => e' end).
      set (e2 := match xe with Some y => env_map (kill_guard y) e1 | None => e1 end).
      (* everything but x and xe: as in e', with the guards on x and xe dropped *)
      assert (Hother : (match x with Some y => var_eqb y z = false | None => True end) ->
                       (match xe with Some y => var_eqb y z = false | None => True end) ->
                       exists p, In p (aget e2 z) /\ nilS s3 (psub g c p)).
      { intros Nx Nxe.
        assert (Hz1 : sget s1 z = VNil).
        { subst s3 s2. destruct xe as [ye|]; [rewrite sget_sset, Nxe in Hz|]; destruct x as [y|]; try (rewrite sget_sset, Nx in Hz); auto. }
        destruct (Hr z Hok Hz1) as [p [Hp Hn]].
        assert (H1 : exists p1, In p1 (aget e1 z) /\ nilS s2 (psub g c p1)).
        { subst e1 s2. destruct x as [y|]; [|exists p; auto].
          exists (kill_guard y p). split; [rewrite aget_env_map by (apply kill_dflt); now apply in_map | now apply nilS_kill]. }
        destruct H1 as [p1 [Hp1 Hn1]]. subst e2 s3. destruct xe as [ye|]; [|exists p1; auto].
        exists (kill_guard ye p1). split; [rewrite aget_env_map by (apply kill_dflt); now apply in_map | now apply nilS_kill]. }
      destruct x as [y|]; destruct xe as [ye|]; cbn [aget aput] in *.
      + destruct (var_eqb y z) eqn:Ey.
        * apply var_eqb_eq in Ey. subst z. exists (PGuard h cs ye). split; [left; reflexivity|].
          rewrite psub_other by (intros s0; discriminate). cbn.
          destruct ye as [i|k]; [|contradiction]. cbn [is_glob]. rewrite var_eqb_refl.
          intros Hev. apply Hret; auto.
          subst s3 s2. rewrite sget_sset, Hxe in Hz. rewrite sget_sset, var_eqb_refl in Hz. exact Hz.
        * destruct (var_eqb ye z) eqn:Eye.
          -- exists PStale. split; [left; reflexivity|]. destruct c; exact I.
          -- apply Hother; auto.
      + destruct (var_eqb y z) eqn:Ey.
        * exists (PUng h cs). split; [left; reflexivity|]. rewrite psub_other by (intros s0; discriminate). exact I.
        * apply Hother; auto.
      + destruct (var_eqb ye z) eqn:Eye.
        * exists PStale. split; [left; reflexivity|]. destruct c; exact I.
        * apply Hother; auto.
      + apply Hother; auto.
    - subst s3 s2. destruct xe as [[i|k]|]; try contradiction; destruct x as [[j|k']|]; try contradiction;
        repeat apply GInv_local; auto.
  Qed.

  Theorem J_sound : forall fuel g c st s oracle e o,
    J (Has g c) ng ctr (sp2 g) g st e o -> stmt_ok prog st = true -> calls_ok g st ->
    respects g c s e -> GInv s -> DInv s ->
    match exec prog fuel st s oracle with
    | ONormal s' _ => (exists e', o = Some e' /\ respects g c s' e') /\ GInv s' /\ DInv s'
    | OReturn v s' _ => (v = VNil -> sget s' VERR = VNil -> ret_ok g c) /\ GInv s' /\ DInv s' /\ Vok v
    | OPanic _ => False
    | OOutOfFuel => True
    end.
  Proof.
    induction fuel as [|fuel IH]; intros g c st s oracle e o HJ Hok Hcalls Hr HG HD; cbn [exec]; auto.
    destruct st as [| s1 s2 | x a | cs x h args | d x | cd s1 s2 | cd body | a | x ik j | x y ik ik2 | cs d x xi ik m args | a er | cs x xe h args | cs h args]; cbn in Hok.
    - apply J_skip_inv in HJ. subst. eauto.
    - apply andb_true_iff in Hok. destruct Hok as [Hc1 Hc2]. apply calls_ok_seq in Hcalls. destruct Hcalls as [Hk1 Hk2].
      apply J_seq_inv in HJ. destruct HJ as [[H1 ->]|[e1 [H1 H2]]].
      + pose proof (IH g c s1 s oracle e None H1 Hc1 Hk1 Hr HG HD) as R. destruct (exec prog fuel s1 s oracle); auto.
        destruct R as [[e' [Heq _]] _]. discriminate.
      + pose proof (IH g c s1 s oracle e (Some e1) H1 Hc1 Hk1 Hr HG HD) as R. destruct (exec prog fuel s1 s oracle) as [s' o'|v s' o'|d|]; auto.
        destruct R as [[e' [Heq Hr']] [HG' HD']]. inversion Heq; subst. apply IH with (e := e'); auto.
    - apply andb_true_iff in Hok. destruct Hok as [Hx Ha]. apply J_assign_inv in HJ. destruct HJ as [Hst [Hu ->]].
      destruct (inv_assign g c s e x (eval_atom s a) (prods_of_atom e a) Hr HG) as [R1 R2]; auto.
      { intros Hv. eapply eval_atom_respects; eauto. }
      split; [eauto|]. split; auto. apply DInv_sset; auto. now apply Vok_atom.
    - apply J_call_inv in HJ. destruct HJ as [Hargs [Hus [Hst ->]]].
      destruct (nth_error (p_funcs prog) h) as [fd|] eqn:Eh; [|discriminate].
      apply andb_true_iff in Hok. destruct Hok as [Hok Hx]. apply andb_true_iff in Hok. destruct Hok as [Hlen Hoks].
      apply Nat.eqb_eq in Hlen.
      assert (Hvs : forall v, In v (map (eval_atom s) args) -> Vok v).
      { intros v Hv. apply in_map_iff in Hv. destruct Hv as [a [<- _]]. now apply Vok_atom. }
      destruct (ctr h) eqn:Ech.
      + (* contracted callee: runs on behalf of this call site *)
        destruct (proj1 Hcalls h cs (or_introl eq_refl) Ech) as [Hsp Hctx].
        destruct (CtrTrue h fd Ech Eh) as [Hnp Hct].
        assert (Hrs : call_result_site ctr (sp2 g) h cs args = SCallResult h cs).
        { unfold call_result_site. now rewrite Ech, Hsp. }
        rewrite Hrs in *.
        destruct (FuncsOK h fd (Some cs) Eh Hctx) as [og [HJh Hend]].
        (* the argument list is a single argument *)
        destruct args as [|a0 [|a1 rest]]; cbn in Hlen; try (rewrite Hnp in Hlen; discriminate).
        assert (Hcp : eval_atom s a0 = VNil -> nu (SCallParam h cs)).
        { intros Hv. pose proof (arg_site g c s e (call_param_site ctr h cs) [a0] 0 a0 Hr Hargs Hoks Hus) as A.
          unfold call_param_site in A. rewrite Ech in A. apply A; auto. }
        destruct (callee_entry h (Some cs) s (map (eval_atom s) [a0]) (f_nparams fd) HG HD Hvs) as [Hentry [HGentry HDentry]].
        { cbn. now rewrite Hnp. }
        { intros i st0 Hi. destruct i as [|i]; cbn in Hi; [|destruct i; discriminate]. inversion Hi as [Hv].
          cbn. rewrite !Nat.eqb_refl. cbn. auto. }
        pose proof (IH h (Some cs) (f_body fd) _ oracle _ og HJh (WF h fd Eh) (CallsOK h fd Eh) Hentry HGentry HDentry) as R.
        cbn [map] in R |- *.
        assert (Hgl : forall x0, sget (globals_of s) (VL x0) = VNil) by (intros x0; unfold globals_of; now rewrite sget_filter with (P := is_glob)).
        destruct (exec prog fuel (f_body fd) (bind_params 0 [eval_atom s a0] ++ globals_of s) oracle) as [s' o'|v s' o'|d|] eqn:Ex; auto.
        * (* fell off the end: result nil *)
          destruct R as [[e' [Heq _]] [HG' HD']]. destruct (after_call g c s s' e Hr HG' HD HD') as [A1 [A2 A3]].
          destruct x as [y|]; [|split; eauto].
          destruct (eval_atom s a0) as [|dd] eqn:Ev.
          2:{ pose proof (Hct fuel (globals_of s) oracle dd Hgl) as Hcontract. rewrite Ex in Hcontract. contradiction. }
          destruct (inv_assign g c _ (mark_stale ng e) y VNil [PSite (SCallResult h cs)] A1 A2) as [R1 R2]; auto.
          { intros _. exists (PSite (SCallResult h cs)). split; [left; reflexivity|].
            assert (E : psub g c (PSite (SCallResult h cs)) = PSite (SCallResult h cs)) by (destruct c; reflexivity).
            rewrite E. cbn.
            replace (SCallResult h cs) with (rsub h (Some cs) (SResult h)) by (cbn; now rewrite Nat.eqb_refl).
            eapply (tsite h (Some cs) 0 PNil (SResult h)); [apply Hend; congruence | exact I |].
            intros cs0 E0 _. inversion E0; subst. auto. }
          split; [eauto|]. split; auto. apply DInv_sset; auto. apply Vok_nil.
        * destruct (sget s' VERR) eqn:Everr; auto.
          destruct R as [Hv [HG' [HD' Hvv]]]. destruct (after_call g c s s' e Hr HG' HD HD') as [A1 [A2 A3]].
          destruct x as [y|]; [|split; eauto].
          destruct (inv_assign g c _ (mark_stale ng e) y v [PSite (SCallResult h cs)] A1 A2) as [R1 R2]; auto.
          { intros Hnil. exists (PSite (SCallResult h cs)). split; [left; reflexivity|].
            assert (E : psub g c (PSite (SCallResult h cs)) = PSite (SCallResult h cs)) by (destruct c; reflexivity).
            rewrite E. cbn. apply (Hv Hnil eq_refl). apply Hcp.
            destruct (eval_atom s a0) as [|dd] eqn:Ev; auto.
            pose proof (Hct fuel (globals_of s) oracle dd Hgl) as Hcontract. rewrite Ex in Hcontract. congruence. }
          split; [eauto|]. split; auto. apply DInv_sset; auto.
      + (* ordinary callee *)
        assert (Hrs : call_result_site ctr (sp2 g) h cs args = SResult h).
        { unfold call_result_site. now rewrite Ech. }
        rewrite Hrs in *.
        destruct (FuncsOK h fd None Eh I) as [og [HJh Hend]].
        destruct (callee_entry h None s (map (eval_atom s) args) (f_nparams fd) HG HD Hvs) as [Hentry [HGentry HDentry]].
        { now rewrite map_length. }
        { intros i st0 Hi. rewrite nth_error_map in Hi. destruct (nth_error args i) as [a|] eqn:Ea; [|discriminate].
          cbn in Hi. inversion Hi as [Hv]. cbn.
          pose proof (arg_site g c s e (call_param_site ctr h cs) args i a Hr Hargs Hoks Hus) as A.
          unfold call_param_site in A. rewrite Ech in A. apply A; auto. }
        pose proof (IH h None (f_body fd) _ oracle _ og HJh (WF h fd Eh) (CallsOK h fd Eh) Hentry HGentry HDentry) as R.
        assert (E : psub g c (PSite (SResult h)) = PSite (SResult h)) by (destruct c; reflexivity).
        destruct (exec prog fuel (f_body fd) (bind_params 0 (map (eval_atom s) args) ++ globals_of s) oracle) as [s' o'|v s' o'|d|]; auto.
        * destruct R as [[e' [Heq _]] [HG' HD']]. destruct (after_call g c s s' e Hr HG' HD HD') as [A1 [A2 A3]].
          destruct x as [y|]; [|split; eauto].
          destruct (inv_assign g c _ (mark_stale ng e) y VNil [PSite (SResult h)] A1 A2) as [R1 R2]; auto.
          { intros _. exists (PSite (SResult h)). split; [left; reflexivity|]. rewrite E. cbn.
            change (SResult h) with (rsub h None (SResult h)).
            eapply (tsite h None 0 PNil (SResult h)); [apply Hend; congruence | exact I |].
            intros cs0 E0. discriminate. }
          split; [eauto|]. split; auto. apply DInv_sset; auto. apply Vok_nil.
        * destruct (sget s' VERR) eqn:Everr; auto.
          destruct R as [Hv [HG' [HD' Hvv]]]. destruct (after_call g c s s' e Hr HG' HD HD') as [A1 [A2 A3]].
          destruct x as [y|]; [|split; eauto].
          destruct (inv_assign g c _ (mark_stale ng e) y v [PSite (SResult h)] A1 A2) as [R1 R2]; auto.
          { intros Hnil. exists (PSite (SResult h)). split; [left; reflexivity|]. rewrite E. cbn. apply (Hv Hnil eq_refl). }
          split; [eauto|]. split; auto. apply DInv_sset; auto.
    - apply J_deref_inv in HJ. destruct HJ as [Hd [Hu ->]]. destruct (sget s x) eqn:E.
      + destruct (Hr x Hok E) as [p [Hp Hn]]. eapply (use_deref g c s (aget e x) d p); eauto. eapply use_ok_in; eauto.
      + eauto.
    - apply andb_true_iff in Hok. destruct Hok as [Hok Hc2]. apply andb_true_iff in Hok. destruct Hok as [Hcok Hc1].
      apply calls_ok_if in Hcalls. destruct Hcalls as [Hk1 Hk2].
      apply J_if_inv in HJ. destruct HJ as [et [ef [trc [o1 [o2 [Ea [Hall [H1 [H2 ->]]]]]]]]].
      pose proof (acond_sound g c cd e et ef trc s oracle Ea Hall Hcok Hr) as Hr'.
      destruct (eval_cond s cd oracle) as [b o'|d]; auto.
      destruct b.
      + pose proof (IH g c s1 s o' _ o1 H1 Hc1 Hk1 Hr' HG HD) as R. destruct (exec prog fuel s1 s o') as [s' o''|v s' o''|d|]; auto.
        destruct R as [[e' [Heq Hr'']] HG']. subst o1. split; auto. destruct o2 as [e2|]; cbn; eexists; split; eauto.
        eapply respects_le; [exact Hr''|apply join_le_l].
      + pose proof (IH g c s2 s o' _ o2 H2 Hc2 Hk2 Hr' HG HD) as R. destruct (exec prog fuel s2 s o') as [s' o''|v s' o''|d|]; auto.
        destruct R as [[e' [Heq Hr'']] HG']. subst o2. split; auto. destruct o1 as [e1|]; cbn; eexists; split; eauto.
        eapply respects_le; [exact Hr''|apply join_le_r].
    - apply andb_true_iff in Hok. destruct Hok as [Hcok Hbok].
      apply J_while_inv in HJ. destruct HJ as [einv [et [ef [trc [ob [Hle [Ea [Hall [Hb [Hinv ->]]]]]]]]]].
      assert (Hri : respects g c s einv) by (eapply respects_le; eauto).
      pose proof (acond_sound g c cd einv et ef trc s oracle Ea Hall Hcok Hri) as Hr'.
      destruct (eval_cond s cd oracle) as [b o'|d]; auto.
      destruct b.
      + pose proof (IH g c body s o' _ ob Hb Hbok Hcalls Hr' HG HD) as R. destruct (exec prog fuel body s o') as [s' o''|v s' o''|d|]; auto.
        destruct R as [[e' [Heq Hr'']] [HG' HD']]. subst ob.
        assert (HJ' : J (Has g c) ng ctr (sp2 g) g (SWhile cd body) einv (Some ef)).
        { eapply JWhile; eauto. apply env_le_refl. }
        apply (IH g c (SWhile cd body) s' o'' einv _ HJ'); auto.
        * cbn. now rewrite Hcok, Hbok.
        * eapply respects_le; eauto.
      + split; eauto.
    - (* return a *)
      apply J_return_inv in HJ. destruct HJ as [Hret [Hu ->]].
      split; [|split; [now apply GInv_local|split; [apply DInv_sset; auto; apply Vok_nil|now apply Vok_atom]]]. intros Hv _.
      destruct (eval_atom_respects g c s e a Hok Hr Hv) as [p [Hp Hn]].
      assert (Hs : p <> PStale) by (eapply use_ok_in; eauto).
      destruct c as [cs|]; cbn.
      + intros Hcp. replace (SCallResult g cs) with (rsub g (Some cs) (SResult g)) by (cbn; now rewrite Nat.eqb_refl).
        eapply (use_site g (Some cs) s (prods_of_atom e a) 0 (SResult g) p); eauto. intros cs0 E0 _. inversion E0; subst. exact Hcp.
      + change (SResult g) with (rsub g None (SResult g)).
        eapply (use_site g None s (prods_of_atom e a) 0 (SResult g) p); eauto. intros cs0 E0. discriminate.
    - (* conversion to an interface: a non-nil value whose (interface, implementation) pair is witnessed *)
      apply J_conv_inv in HJ. subst. apply andb_true_iff in Hok. destruct Hok as [Hx Hconf].
      destruct (inv_assign_nonnil g c s e x (VPtr (Some (ik, j))) [PNever] Hr HG) as [R1 R2]; [discriminate|].
      split; [eauto|]. split; auto. apply DInv_sset; auto.
      intros k' j' E. inversion E; subst. split; [|now apply conform_Conf].
      apply W_L. apply (proj1 (proj2 Hcalls)). left. reflexivity.
    - (* an interface value converted to another interface type *)
      apply J_convi_inv in HJ. destruct HJ as [Hst [Hu ->]].
      apply andb_true_iff in Hok. destruct Hok as [Hok Hpre]. apply andb_true_iff in Hok. destruct Hok as [Hx Hy].
      assert (Step : forall v, (v = VNil -> sget s y = VNil) -> Vok v ->
                (exists e', Some (aputk e x (prods_of_atom e (AVar y))) = Some e' /\ respects g c (sset s x v) e') /\
                GInv (sset s x v) /\ DInv (sset s x v)).
      { intros v Hv Hvok.
        destruct (inv_assign g c s e x v (prods_of_atom e (AVar y)) Hr HG) as [R1 R2]; auto.
        { intros Hnil. apply (eval_atom_respects g c s e (AVar y)); auto. }
        split; [eauto|]. split; auto. apply DInv_sset; auto. }
      destruct (sget s y) as [|[[k' j]|]] eqn:Ey; auto.
      + apply Step; auto. apply Vok_nil.
      + destruct (Nat.eqb ik2 k') eqn:Ek; auto. apply Nat.eqb_eq in Ek. subst k'.
        apply Step; [discriminate|]. intros k0 j0 E. inversion E; subst.
        destruct (HD y ik2 j0 Ey) as [HL HC].
        eapply IW_L; eauto. apply (proj2 (proj2 Hcalls)). left. reflexivity.
    - (* method call on an interface value *)
      apply J_calli_inv in HJ. destruct HJ as [Hd [Hu [Hargs [Hus [Hst ->]]]]].
      apply andb_true_iff in Hok. destruct Hok as [Hok Hsig]. apply andb_true_iff in Hok. destruct Hok as [Hok Hx].
      apply andb_true_iff in Hok. destruct Hok as [Hxi Hoks].
      destruct (nth_error (isig prog ik) m) as [np|] eqn:Esig; [|discriminate]. apply Nat.eqb_eq in Hsig. subst np.
      destruct (sget s xi) as [|[[k' j]|]] eqn:Exi; auto.
      + destruct (Hr xi Hxi Exi) as [p [Hp Hn]]. eapply (use_deref g c s (aget e xi) d p); eauto. eapply use_ok_in; eauto.
      + destruct (Nat.eqb ik k') eqn:Ek; auto. apply Nat.eqb_eq in Ek. subst k'.
        destruct (HD xi ik j Exi) as [HL HC].
        destruct (HC m (length args) Esig) as [f [fd [Em [Ef Hnp]]]].
        destruct (nth_error (nth j (p_impls prog) []) m) as [f0|] eqn:Em0 in |- *.
        2:{ exfalso. assert (X : None = Some f) by (rewrite <- Em0; exact Em). discriminate. }
        assert (X : Some f0 = Some f) by (rewrite <- Em0; exact Em). inversion X; subst f0. clear X.
        rewrite Ef.
        assert (Hrow : In (nth j (p_impls prog) []) (p_impls prog)).
        { destruct (nth_in_or_default j (p_impls prog) []) as [Hin|E]; auto. rewrite E in Em. destruct m; discriminate. }
        assert (Hcf : ctr f = false) by (eapply ImplsPlain; eauto; eapply nth_error_In; eauto).
        destruct (HL m (length args) f fd Esig Em Ef) as [Lres Lpar].
        destruct (FuncsOK f fd None Ef I) as [og [HJf Hend]].
        assert (Hvs : forall v, In v (VPtr None :: map (eval_atom s) args) -> Vok v).
        { intros v [<-|Hv]; [apply Vok_plain|]. apply in_map_iff in Hv. destruct Hv as [a [<- _]]. now apply Vok_atom. }
        destruct (callee_entry f None s (VPtr None :: map (eval_atom s) args) (f_nparams fd) HG HD Hvs) as [Hentry [HGentry HDentry]].
        { cbn. now rewrite map_length. }
        { intros i st0 Hi. destruct i as [|i]; cbn in Hi; [discriminate|].
          rewrite nth_error_map in Hi. destruct (nth_error args i) as [a|] eqn:Ea; [|discriminate].
          cbn in Hi. inversion Hi as [Hv]. cbn.
          assert (Hlt : i < length args) by (apply nth_error_Some; congruence).
          apply Lpar; [lia|].
          eapply (arg_site g c s e (SIParam ik m) args i a); eauto. }
        pose proof (IH f None (f_body fd) _ oracle _ og HJf (WF f fd Ef) (CallsOK f fd Ef) Hentry HGentry HDentry) as R.
        assert (E : psub g c (PSite (SIResult ik m)) = PSite (SIResult ik m)) by (destruct c; reflexivity).
        destruct (exec prog fuel (f_body fd) (bind_params 0 (VPtr None :: map (eval_atom s) args) ++ globals_of s) oracle) as [s' o'|v s' o'|d'|]; auto.
        * destruct R as [[e' [Heq _]] [HG' HD']]. destruct (after_call g c s s' e Hr HG' HD HD') as [A1 [A2 A3]].
          destruct x as [y|]; [|split; eauto].
          destruct (inv_assign g c _ (mark_stale ng e) y VNil [PSite (SIResult ik m)] A1 A2) as [R1 R2]; auto.
          { intros _. exists (PSite (SIResult ik m)). split; [left; reflexivity|]. rewrite E. cbn.
            apply Lres.
            change (SResult f) with (rsub f None (SResult f)).
            eapply (tsite f None 0 PNil (SResult f)); [apply Hend; congruence | exact I |].
            intros cs0 E0. discriminate. }
          split; [eauto|]. split; auto. apply DInv_sset; auto. apply Vok_nil.
        * destruct (sget s' VERR) eqn:Everr; auto.
          destruct R as [Hv [HG' [HD' Hvv]]]. destruct (after_call g c s s' e Hr HG' HD HD') as [A1 [A2 A3]].
          destruct x as [y|]; [|split; eauto].
          destruct (inv_assign g c _ (mark_stale ng e) y v [PSite (SIResult ik m)] A1 A2) as [R1 R2]; auto.
          { intros Hnil. exists (PSite (SIResult ik m)). split; [left; reflexivity|]. rewrite E. cbn.
            apply Lres. apply (Hv Hnil eq_refl). }
          split; [eauto|]. split; auto. apply DInv_sset; auto.
    - (* return a, er *)
      apply andb_true_iff in Hok. destruct Hok as [Hoka Hoke].
      apply J_return2_inv in HJ. destruct HJ as [Hu [Hcls ->]].
      split; [|split; [now apply GInv_local|split; [apply DInv_sset; auto; now apply Vok_atom|now apply Vok_atom]]].
      intros Hv Hev. unfold VERR in Hev. rewrite sget_sset in Hev. cbn in Hev.
      destruct Hcls as [Hnn|[Hnil Hret]].
      + (* the error is non-nil here: contradiction with its being nil *)
        destruct (eval_atom_respects g c s e er Hoke Hr Hev) as [q [Hq Hnq]]. rewrite (Hnn q Hq) in Hnq.
        rewrite psub_other in Hnq by (intros s0; discriminate). contradiction.
      + destruct (eval_atom_respects g c s e a Hoka Hr Hv) as [p [Hp Hn]].
        assert (Hs : p <> PStale) by (eapply use_ok_in; eauto).
        destruct c as [cs|]; cbn.
        * intros Hcp. replace (SCallResult g cs) with (rsub g (Some cs) (SResult g)) by (cbn; now rewrite Nat.eqb_refl).
          eapply (use_site g (Some cs) s (prods_of_atom e a) 0 (SResult g) p); eauto. intros cs0 E0 _. inversion E0; subst. exact Hcp.
        * change (SResult g) with (rsub g None (SResult g)).
          eapply (use_site g None s (prods_of_atom e a) 0 (SResult g) p); eauto. intros cs0 E0. discriminate.
    - (* x, xe = h(args) *)
      apply J_call2_inv in HJ. destruct HJ as [Hargs [Hus ->]].
      destruct (nth_error (p_funcs prog) h) as [fd|] eqn:Eh; [|discriminate].
      apply andb_true_iff in Hok. destruct Hok as [Hok Hxe]. apply andb_true_iff in Hok. destruct Hok as [Hok Hx].
      apply andb_true_iff in Hok. destruct Hok as [Hlen Hoks]. apply Nat.eqb_eq in Hlen.
      assert (Hvs : forall v, In v (map (eval_atom s) args) -> Vok v).
      { intros v Hv. apply in_map_iff in Hv. destruct Hv as [a [<- _]]. now apply Vok_atom. }
      destruct (FuncsOK h fd None Eh I) as [og [HJh Hend]].
      destruct (callee_entry h None s (map (eval_atom s) args) (f_nparams fd) HG HD Hvs) as [Hentry [HGentry HDentry]].
      { now rewrite map_length. }
      { intros i st0 Hi. rewrite nth_error_map in Hi. destruct (nth_error args i) as [a|] eqn:Ea; [|discriminate].
        cbn in Hi. inversion Hi as [Hv]. cbn.
        eapply (arg_site g c s e (fun i => SParam h i) args i a); eauto. }
      pose proof (IH h None (f_body fd) _ oracle _ og HJh (WF h fd Eh) (CallsOK h fd Eh) Hentry HGentry HDentry) as R.
      assert (Hx' : match x with Some (VG _) => False | _ => True end).
      { destruct x as [[i|k]|]; auto. discriminate. }
      assert (Hxe' : match xe with Some (VL _ as y) => match x with Some y' => var_eqb y y' = false | None => True end | Some (VG _) => False | None => True end).
      { destruct xe as [[i|k]|]; auto; [|discriminate]. destruct x as [y'|]; auto. now apply negb_true_iff in Hxe. }
      destruct (exec prog fuel (f_body fd) (bind_params 0 (map (eval_atom s) args) ++ globals_of s) oracle) as [s' o'|v s' o'|d|]; auto.
      + (* fell off the end: (nil, nil) *)
        destruct R as [[e' [Heq _]] [HG' HD']]. destruct (after_call g c s s' e Hr HG' HD HD') as [A1 [A2 A3]].
        destruct (call2_respects g c _ e cs x xe h VNil VNil A1 A2) as [R1 R2]; auto.
        { intros _ _. change (SResult h) with (rsub h None (SResult h)).
          eapply (tsite h None 0 PNil (SResult h)); [apply Hend; congruence | exact I |]. intros cs0 E0. discriminate. }
        split; [eauto|]. split; auto.
        destruct xe as [ye|]; destruct x as [y|]; repeat apply DInv_sset; auto; apply Vok_nil.
      + destruct R as [Hv [HG' [HD' Hvv]]]. destruct (after_call g c s s' e Hr HG' HD HD') as [A1 [A2 A3]].
        destruct (call2_respects g c _ e cs x xe h v (sget s' VERR) A1 A2) as [R1 R2]; auto.
        { intros Hev Hnil. exact (Hv Hnil Hev). }
        split; [eauto|]. split; auto.
        destruct xe as [ye|]; destruct x as [y|]; repeat apply DInv_sset; auto; apply HD'.
    - (* return h(args) *)
      apply J_retcall_inv in HJ. destruct HJ as [Hargs [Hus [Hfw ->]]].
      destruct (nth_error (p_funcs prog) h) as [fd|] eqn:Eh; [|discriminate].
      apply andb_true_iff in Hok. destruct Hok as [Hlen Hoks]. apply Nat.eqb_eq in Hlen.
      assert (Hvs : forall v, In v (map (eval_atom s) args) -> Vok v).
      { intros v Hv. apply in_map_iff in Hv. destruct Hv as [a [<- _]]. now apply Vok_atom. }
      destruct (FuncsOK h fd None Eh I) as [og [HJh Hend]].
      destruct (callee_entry h None s (map (eval_atom s) args) (f_nparams fd) HG HD Hvs) as [Hentry [HGentry HDentry]].
      { now rewrite map_length. }
      { intros i st0 Hi. rewrite nth_error_map in Hi. destruct (nth_error args i) as [a|] eqn:Ea; [|discriminate].
        cbn in Hi. inversion Hi as [Hv]. cbn.
        eapply (arg_site g c s e (fun i => SParam h i) args i a); eauto. }
      pose proof (IH h None (f_body fd) _ oracle _ og HJh (WF h fd Eh) (CallsOK h fd Eh) Hentry HGentry HDentry) as R.
      (* a nil-able result site of the callee makes this function's result nil-able (in its context) *)
      assert (Hfwd : nu (SResult h) -> ret_ok g c).
      { intros Hn. destruct c as [cs0|]; cbn.
        - intros Hcp. replace (SCallResult g cs0) with (rsub g (Some cs0) (SResult g)) by (cbn; now rewrite Nat.eqb_refl).
          eapply (tsite g (Some cs0) 0 (PSite (SResult h)) (SResult g)); [exact Hfw | |].
          + cbn. destruct (asite_eqb (SResult h) (SParam g 0)) eqn:E0; [apply asite_eqb_eq in E0; discriminate|]. exact Hn.
          + intros cs1 E1 _. inversion E1; subst. exact Hcp.
        - change (SResult g) with (rsub g None (SResult g)).
          eapply (tsite g None 0 (PSite (SResult h)) (SResult g)); [exact Hfw | exact Hn |]. intros cs1 E1. discriminate. }
      destruct (exec prog fuel (f_body fd) (bind_params 0 (map (eval_atom s) args) ++ globals_of s) oracle) as [s' o'|v s' o'|d|]; auto.
      + destruct R as [[e' [Heq _]] [HG' HD']]. destruct (after_call g c s s' e Hr HG' HD HD') as [A1 [A2 A3]].
        split; [|split; [now apply GInv_local|split; [apply DInv_sset; auto; apply Vok_nil|apply Vok_nil]]].
        intros _ _. apply Hfwd. change (SResult h) with (rsub h None (SResult h)).
        eapply (tsite h None 0 PNil (SResult h)); [apply Hend; congruence | exact I |]. intros cs0 E0. discriminate.
      + destruct R as [Hv [HG' [HD' Hvv]]]. destruct (after_call g c s s' e Hr HG' HD HD') as [A1 [A2 A3]].
        split; [|split; [now apply GInv_local|split; [apply DInv_sset; auto; apply HD'|exact Hvv]]].
        intros Hnil Hev. unfold VERR in Hev. rewrite sget_sset in Hev. cbn in Hev. apply Hfwd. exact (Hv Hnil Hev).
  Qed.
End Sound.

(* ---------- whole programs ---------- *)
Lemma analyze_funcs_nth ng fuel ctr sp : forall fds f0 tss b,
  analyze_funcs ng fuel ctr sp f0 fds = Some (tss, b) ->
  forall i fd, nth_error fds i = Some fd ->
  exists t bi, analyze_func ng fuel ctr (sp (f0 + i)) (f0 + i) fd = Some (t, bi) /\ nth_error tss i = Some t /\ (b = true -> bi = true).
Proof.
  induction fds as [|fd0 fds IH]; intros f0 tss b H i fd Hn; [destruct i; discriminate|].
  cbn in H. destruct (analyze_func ng fuel ctr (sp f0) f0 fd0) as [[t1 b1]|] eqn:E1; try discriminate.
  destruct (analyze_funcs ng fuel ctr sp (S f0) fds) as [[t2 b2]|] eqn:E2; try discriminate.
  inversion H; subst. destruct i as [|i]; cbn in Hn.
  - inversion Hn; subst. rewrite Nat.add_0_r. exists t1, b1. repeat split; auto.
    intros Hb. apply andb_true_iff in Hb. tauto.
  - destruct (IH _ _ _ E2 i fd Hn) as [t [bi [A1 [A2 A3]]]]. replace (f0 + S i) with (S f0 + i) by lia.
    exists t, bi. repeat split; auto. intros Hb. apply andb_true_iff in Hb. tauto.
Qed.

Lemma dups_all_nth ctr sp tss : forall fds f0 i fd, nth_error fds i = Some fd ->
  nth_error (dups_all ctr sp tss f0 fds) i = Some (dups_of_caller ctr (sp (f0 + i)) tss fd).
Proof.
  induction fds as [|fd0 fds IH]; intros f0 i fd Hn; [destruct i; discriminate|].
  destruct i as [|i]; cbn in Hn |- *.
  - inversion Hn; subst. now rewrite Nat.add_0_r.
  - replace (f0 + S i) with (S f0 + i) by lia. now apply IH.
Qed.

Lemma ctr_local_nth ctr sp : forall fds f0 i fd, ctr_local ctr sp f0 fds = true -> nth_error fds i = Some fd ->
  forallb (fun gc => negb (ctr (fst gc)) || sp (f0 + i) (fst gc)) (calls_of (f_body fd)) = true.
Proof.
  induction fds as [|fd0 fds IH]; intros f0 i fd H Hn; [destruct i; discriminate|].
  cbn in H. apply andb_true_iff in H. destruct H as [H1 H2]. destruct i as [|i]; cbn in Hn.
  - inversion Hn; subst. now rewrite Nat.add_0_r.
  - replace (f0 + S i) with (S f0 + i) by lia. now apply IH.
Qed.

Lemma ctr_arity_nth ctr : forall fds f0 i fd, ctr_arity ctr f0 fds = true -> nth_error fds i = Some fd ->
  ctr (f0 + i) = true -> f_nparams fd = 1.
Proof.
  induction fds as [|fd0 fds IH]; intros f0 i fd H Hn Hc; [destruct i; discriminate|].
  cbn in H. apply andb_true_iff in H. destruct H as [H1 H2]. destruct i as [|i]; cbn in Hn.
  - inversion Hn; subst. rewrite Nat.add_0_r in Hc. rewrite Hc in H1. cbn in H1. now apply Nat.eqb_eq.
  - replace (f0 + S i) with (S f0 + i) in Hc by lia. eapply IH; eauto.
Qed.

Lemma drop_safe_id rs sp : forall tss f, none_exempt rs sp f tss = true -> drop_safe rs sp f tss = tss.
Proof.
  induction tss as [|ts tss IH]; intros f H; cbn in *; auto.
  apply andb_true_iff in H. destruct H as [H1 H2]. rewrite (IH _ H2). f_equal.
  clear -H1. induction ts as [|t ts IHt]; cbn in *; auto.
  apply andb_true_iff in H1. destruct H1 as [Ht Hts]. rewrite Ht. now rewrite (IHt Hts).
Qed.

Lemma in_concat_nth {A} (ls : list (list A)) i l x : nth_error ls i = Some l -> In x l -> In x (concat ls).
Proof. intros Hn Hx. apply in_concat. exists l. split; auto. eapply nth_error_In; eauto. Qed.

(* If the analysis of a well-formed program completes, never uses a package-level value tracked across a call
   that may have re-assigned it, contracted functions are called from their own package only and their
   contracts are true, and the emitted constraints contain no flow from a nil source to a dereference, then no
   execution of the program dereferences nil -- whatever the opaque conditions answer and however long it runs. *)
Theorem flow_sound prog afuel ctr pk r :
  analyze_program afuel ctr pk prog = Some r -> r_gsafe r = true -> r_clocal r = true -> r_nodel r = true ->
  wf_program prog = true -> ctr_arity ctr 0 (p_funcs prog) = true -> impls_plain prog ctr = true ->
  (forall g fd, ctr g = true -> nth_error (p_funcs prog) g = Some fd -> contract_true prog fd) ->
  ~ has_flow (csys_of [] [] (all_triggers r)) ->
  forall fuel oracle, panic_of (run_program prog fuel oracle) = None.
Proof.
  intros Han Hgs Hcl Hnd Hwf Har Himp Hct Hnf fuel oracle. unfold analyze_program in Han.
  set (sp2 := fun f g : fname => Nat.eqb (pk f) (pk g)) in *.
  destruct (analyze_funcs (length (p_ginit prog)) afuel ctr sp2 0 (p_funcs prog)) as [[tss b0]|] eqn:Ef; [|discriminate].
  inversion Han; subst r. clear Han. cbn in Hgs, Hcl, Hnd. subst b0.
  rewrite (drop_safe_id _ _ _ _ Hnd) in Hnf.
  apply andb_true_iff in Hwf. destruct Hwf as [Hwf Hentry].
  set (r := {| r_decl := decl_triggers 0 (p_ginit prog); r_funcs := tss; r_dups := dups_all ctr sp2 tss 0 (p_funcs prog);
               r_affil := map (fun fd => flat_map (affil prog) (convs_of (f_body fd)) ++ flat_map (iaffil prog) (iconvs_of (f_body fd))) (p_funcs prog);
               r_gsafe := true; r_nodel := true; r_clocal := ctr_local ctr sp2 0 (p_funcs prog) |}) in *.
  set (ALLs := all_strigs r) in *.
  assert (InF : forall g tg t, nth_error tss g = Some tg -> In t tg -> In t ALLs).
  { intros g tg t Hg Ht. unfold ALLs, all_strigs. cbn. apply in_or_app. right. apply in_or_app. left. eapply in_concat_nth; eauto. }
  assert (FuncsOK : forall g fd c, nth_error (p_funcs prog) g = Some fd -> ctx_ok prog ctr sp2 g c ->
    exists o, J (Has ALLs g c) (length (p_ginit prog)) ctr (sp2 g) g (f_body fd) (entry_env g 0 (f_nparams fd)) o /\
              (o <> None -> Has ALLs g c (falloff g))).
  { intros g fd c Hg Hctx. destruct (analyze_funcs_nth _ _ _ _ _ _ _ _ Ef g fd Hg) as [tg [bi [A1 [A2 A3]]]]. cbn in A1.
    unfold analyze_func in A1.
    destruct (analyze (length (p_ginit prog)) ctr (sp2 g) g afuel (f_body fd) (entry_env g 0 (f_nparams fd))) as [rg|] eqn:Ea; [|discriminate].
    inversion A1; subst.
    assert (HasTg : forall t, In t (match a_env rg with Some _ => a_trig rg ++ [falloff g] | None => a_trig rg end) -> Has ALLs g c t).
    { intros t Ht. unfold Has, inst. destruct c as [cs|]; [|eapply InF; eauto].
      destruct (touches g t) eqn:Et; [|eapply InF; eauto].
      destruct Hctx as [Hcg [fc [fdc [Hfc [Hin Hsp]]]]].
      unfold ALLs, all_strigs. cbn. apply in_or_app. right. apply in_or_app. right. apply in_or_app. left.
      eapply in_concat_nth; [apply (dups_all_nth ctr sp2 tss _ 0 fc fdc Hfc)|].
      unfold dups_of_caller. apply in_flat_map. exists (g, cs). split; auto. cbn. rewrite Hcg, Hsp. cbn.
      unfold dups. apply in_map. apply filter_In. split; auto.
      erewrite nth_error_nth; eauto. }
    exists (a_env rg). split.
    - eapply analyze_J; eauto. intros t Ht. apply HasTg. destruct (a_env rg); auto. apply in_or_app. auto.
    - intros Hne. apply HasTg. destruct (a_env rg); [|congruence]. apply in_or_app. right. left. reflexivity. }
  assert (WF : forall g fd, nth_error (p_funcs prog) g = Some fd -> stmt_ok prog (f_body fd) = true).
  { intros g fd Hg. eapply (forallb_nth (fun fd => stmt_ok prog (f_body fd))); eauto. }
  assert (CtrTrue : forall g fd, ctr g = true -> nth_error (p_funcs prog) g = Some fd -> f_nparams fd = 1 /\ contract_true prog fd).
  { intros g fd Hc Hg. split; [eapply (ctr_arity_nth ctr _ 0 g); eauto | eapply Hct; eauto]. }
  assert (ImplsPlain : forall row f, In row (p_impls prog) -> In f row -> ctr f = false).
  { intros row f Hrow Hf. unfold impls_plain in Himp. rewrite forallb_forall in Himp. specialize (Himp row Hrow).
    rewrite forallb_forall in Himp. specialize (Himp f Hf). now apply negb_true_iff in Himp. }
  assert (CallsOK : forall g fd, nth_error (p_funcs prog) g = Some fd -> calls_ok prog ctr sp2 ALLs g (f_body fd)).
  { intros g fd Hg. split.
    - intros h cs Hin Hc. pose proof (ctr_local_nth ctr sp2 _ 0 g fd Hcl Hg) as Hl.
      rewrite forallb_forall in Hl. specialize (Hl (h, cs) Hin). cbn in Hl. rewrite Hc in Hl. cbn in Hl.
      split; auto. split; auto. exists g, fd. auto.
    - split.
      + intros kj Hin t Ht. unfold ALLs, all_strigs. cbn. apply in_or_app. right. apply in_or_app. right. apply in_or_app. right.
        eapply in_concat_nth; [apply map_nth_error; exact Hg|]. cbn beta. apply in_or_app. left. apply in_flat_map. exists kj. auto.
      + intros kk Hin t Ht. unfold ALLs, all_strigs. cbn. apply in_or_app. right. apply in_or_app. right. apply in_or_app. right.
        eapply in_concat_nth; [apply map_nth_error; exact Hg|]. cbn beta. apply in_or_app. right. apply in_flat_map. exists kk. auto. }
  unfold run_program. destruct (nth_error (p_funcs prog) 0) as [fd|] eqn:E0; [|reflexivity].
  destruct (FuncsOK 0 fd None E0 I) as [o [HJ _]].
  assert (Hnp : f_nparams fd = 0).
  { destruct (p_funcs prog) as [|fd0 rest]; [discriminate|]. cbn in E0. inversion E0; subst. now apply Nat.eqb_eq. }
  rewrite Hnp in HJ. cbn in HJ.
  assert (Hnf' : ~ has_flow (csys_of [] [] (map etrig ALLs))) by exact Hnf.
  assert (HG : GInv prog ALLs (init_globals 0 (p_ginit prog))).
  { intros k Hk Hx. rewrite init_globals_get in Hx. cbn in Hx. rewrite Nat.sub_0_r in Hx.
    destruct (nth_error (p_ginit prog) k) as [[|]|] eqn:En; try discriminate.
    - eapply (tsite_plain ALLs 0 None 0 PNil (SGlobal k)); [|exact I|reflexivity].
      unfold Has, inst, ALLs, all_strigs. cbn. apply in_or_app. left. apply (decl_triggers_in (p_ginit prog) 0 k En).
    - apply nth_error_None in En. lia. }
  assert (HD : DInv prog ALLs (init_globals 0 (p_ginit prog))).
  { intros x k j E. destruct x as [i|g].
    - rewrite init_globals_local in E. discriminate.
    - rewrite init_globals_get in E. cbn in E. destruct (nth_error (p_ginit prog) (g - 0)) as [[|]|]; discriminate. }
  assert (Hr : respects prog ALLs 0 None (init_globals 0 (p_ginit prog)) []).
  { intros x Hok Hx. destruct x as [i|k]; cbn.
    - exists PNil. split; [left; reflexivity|exact I].
    - exists (PSite (SGlobal k)). split; [left; reflexivity|]. cbn. apply HG; auto. cbn in Hok. now apply Nat.ltb_lt in Hok. }
  pose proof (J_sound prog ctr sp2 ALLs Hnf' FuncsOK WF CtrTrue ImplsPlain CallsOK fuel 0 None (f_body fd) _ oracle [] o HJ (WF 0 fd E0) (CallsOK 0 fd E0) Hr HG HD) as R.
  destruct (exec prog fuel (f_body fd) (init_globals 0 (p_ginit prog)) oracle); cbn; auto. contradiction.
Qed.

(* every (interface, implementation) pair witnessed by a conversion of the program has its triggers *)
Lemma convs_witnessed prog afuel ctr pk r :
  analyze_program afuel ctr pk prog = Some r ->
  forall g fd kj, nth_error (p_funcs prog) g = Some fd -> In kj (convs_of (f_body fd)) -> W prog (all_strigs r) kj.
Proof.
  intros Han g fd kj Hg Hin t Ht. unfold analyze_program in Han.
  destruct (analyze_funcs (length (p_ginit prog)) afuel ctr (fun f g0 : fname => Nat.eqb (pk f) (pk g0)) 0 (p_funcs prog)) as [[tss b]|]; [|discriminate].
  inversion Han; subst. unfold all_strigs. cbn. apply in_or_app. right. apply in_or_app. right. apply in_or_app. right.
  eapply in_concat_nth; [apply map_nth_error; exact Hg|]. cbn beta. apply in_or_app. left. apply in_flat_map. exists kj. auto.
Qed.

(* ... and so has every (interface, interface) pair witnessed by an interface-to-interface conversion *)
Lemma iconvs_witnessed prog afuel ctr pk r :
  analyze_program afuel ctr pk prog = Some r ->
  forall g fd kk, nth_error (p_funcs prog) g = Some fd -> In kk (iconvs_of (f_body fd)) -> IW prog (all_strigs r) kk.
Proof.
  intros Han g fd kk Hg Hin t Ht. unfold analyze_program in Han.
  destruct (analyze_funcs (length (p_ginit prog)) afuel ctr (fun f g0 : fname => Nat.eqb (pk f) (pk g0)) 0 (p_funcs prog)) as [[tss b]|]; [|discriminate].
  inversion Han; subst. unfold all_strigs. cbn. apply in_or_app. right. apply in_or_app. right. apply in_or_app. right.
  eapply in_concat_nth; [apply map_nth_error; exact Hg|]. cbn beta. apply in_or_app. right. apply in_flat_map. exists kk. auto.
Qed.
