From Coq Require Import List Bool Arith PeanoNat Lia Permutation Sorted.
From NM Require Import Engine Pipeline.
From NP Require Import EngineBasics EngineMain.
Import ListNotations.

Section CollectorProofs.
  Variable T : Type.

  Lemma set_nth_length (l : list (list T)) i v : length (set_nth T l i v) = length l.
  Proof. revert i; induction l as [|x l IH]; intros [|i]; cbn; auto. Qed.

  Lemma nth_set_nth_same (l : list (list T)) i v : i < length l -> nth i (set_nth T l i v) [] = v.
  Proof. revert i; induction l as [|x l IH]; intros [|i] H; cbn in *; try lia; auto. apply IH. lia. Qed.

  Lemma nth_set_nth_other (l : list (list T)) i j v : i <> j -> nth j (set_nth T l i v) [] = nth j l [].
  Proof.
    revert i j; induction l as [|x l IH]; intros [|i] [|j] H; cbn; auto; try congruence.
  Qed.

  (* after all results have arrived, slot i holds the triggers of function i -- whatever the arrival order *)
  Lemma collect_slots (analyse : nat -> list T) : forall arrivals arr,
    NoDup (map fst arrivals) ->
    (forall i ts, In (i, ts) arrivals -> i < length arr /\ ts = analyse i) ->
    forall i, i < length arr ->
      nth i (fold_left (fun a r => set_nth T a (fst r) (snd r)) arrivals arr) [] =
      if existsb (Nat.eqb i) (map fst arrivals) then analyse i else nth i arr [].
  Proof.
    induction arrivals as [|[j ts] arrivals IH]; intros arr Hnd Hin i Hi; cbn [fold_left map existsb fst snd]; auto.
    inversion Hnd as [|? ? Hnotin Hnd']; subst.
    destruct (Hin j ts (or_introl eq_refl)) as [Hj Hts].
    rewrite IH; auto.
    - destruct (Nat.eqb i j) eqn:E; cbn.
      + apply Nat.eqb_eq in E; subst j.
        destruct (existsb (Nat.eqb i) (map fst arrivals)) eqn:E2; auto.
        rewrite nth_set_nth_same; auto.
      + apply Nat.eqb_neq in E. destruct (existsb (Nat.eqb i) (map fst arrivals)); auto.
        apply nth_set_nth_other. congruence.
    - intros i' ts' H'. rewrite set_nth_length. apply Hin. right; auto.
    - now rewrite set_nth_length.
  Qed.

  Lemma list_eq_nth (l l' : list (list T)) : length l = length l' -> (forall i, i < length l -> nth i l [] = nth i l' []) -> l = l'.
  Proof.
    revert l'; induction l as [|x l IH]; intros [|y l'] Hlen H; cbn in *; try lia; auto.
    f_equal.
    - apply (H 0). lia.
    - apply IH; [lia|]. intros i Hi. apply (H (S i)). lia.
  Qed.

  Lemma fold_set_nth_length arrivals : forall (arr : list (list T)),
    length (fold_left (fun a r => set_nth T a (fst r) (snd r)) arrivals arr) = length arr.
  Proof. induction arrivals as [|r l IH]; intros arr; cbn; auto. now rewrite IH, set_nth_length. Qed.

  (* C16: every completion order yields exactly the sequential result *)
  Theorem collect_any_order n (analyse : nat -> list T) (arrivals : list (nat * list T)) :
    Permutation (map fst arrivals) (seq 0 n) ->
    (forall i ts, In (i, ts) arrivals -> ts = analyse i) ->
    collect T n arrivals = sequential T n analyse.
  Proof.
    intros Hperm Hres. unfold collect, sequential. f_equal.
    assert (Hnd : NoDup (map fst arrivals)) by (eapply Permutation_NoDup; [symmetry; exact Hperm | apply seq_NoDup]).
    apply list_eq_nth.
    - rewrite fold_set_nth_length, repeat_length, map_length, seq_length. reflexivity.
    - intros i Hi. rewrite fold_set_nth_length, repeat_length in Hi.
      rewrite (collect_slots analyse); auto.
      + assert (E : existsb (Nat.eqb i) (map fst arrivals) = true).
        { apply existsb_exists. exists i. split; [|apply Nat.eqb_refl].
          eapply Permutation_in; [symmetry; exact Hperm|]. apply in_seq. lia. }
        rewrite E. rewrite (nth_indep _ [] (analyse 0)) by (rewrite map_length, seq_length; lia).
        rewrite map_nth. rewrite seq_nth; auto.
      + intros j ts Hin. split; [|eauto]. rewrite repeat_length.
        assert (In j (seq 0 n)) by (eapply Permutation_in; [exact Hperm|]; apply in_map_iff; exists (j, ts); auto).
        apply in_seq in H. lia.
      + now rewrite repeat_length.
  Qed.
End CollectorProofs.

(* ---- sorting removes the order of arrival when keys are distinct ---- *)
Lemma insert_by_sorted_head {A} (key : A -> nat) x l :
  (forall y, In y l -> key x < key y) -> insert_by key x l = x :: l.
Proof.
  destruct l as [|y l]; cbn; auto. intros H.
  assert (key x <= key y) by (specialize (H y (or_introl eq_refl)); lia).
  apply Nat.leb_le in H0. now rewrite H0.
Qed.

Definition keys_sorted {A} (key : A -> nat) (l : list A) : Prop := StronglySorted (fun a b => key a < key b) l.

Lemma insert_by_keeps_sorted {A} (key : A -> nat) x l :
  keys_sorted key l -> ~ In (key x) (map key l) -> keys_sorted key (insert_by key x l).
Proof.
  induction 1 as [|y l Hs IH Hall]; intros Hn; cbn.
  - repeat constructor.
  - destruct (Nat.leb (key x) (key y)) eqn:E.
    + apply Nat.leb_le in E. assert (key x <> key y) by (intros Heq; apply Hn; left; auto).
      constructor; [constructor; auto|].
      constructor; [lia|]. rewrite Forall_forall in *. intros z Hz. specialize (Hall z Hz). lia.
    + apply Nat.leb_gt in E. constructor.
      * apply IH. intros Hin. apply Hn. right; auto.
      * rewrite Forall_forall in *. intros z Hz.
        assert (Hp : In z (x :: l)) by (eapply Permutation_in; [apply insert_by_perm | exact Hz]).
        destruct Hp as [<-|Hp]; auto.
  Qed.

Lemma sort_by_sorted {A} (key : A -> nat) l : NoDup (map key l) -> keys_sorted key (sort_by key l).
Proof.
  induction l as [|x l IH]; cbn; intros Hnd; [constructor|].
  inversion Hnd; subst. apply insert_by_keeps_sorted; auto.
  intros Hin. apply H1. apply in_map_iff in Hin. destruct Hin as [y [Hy Hin]].
  apply in_map_iff. exists y. split; auto. apply In_sort_by in Hin. exact Hin.
Qed.

Lemma sorted_unique {A} (key : A -> nat) (l l' : list A) :
  keys_sorted key l -> keys_sorted key l' -> (forall x, In x l <-> In x l') -> l = l'.
Proof.
  intros H. revert l'. induction H as [|x l Hs IH Hall]; intros l' H' Heq.
  - destruct l' as [|y l']; auto. exfalso. apply (Heq y). left; auto.
  - destruct l' as [|y l']; [exfalso; apply (Heq x); left; auto|].
    inversion H' as [|? ? Hs' Hall']; subst.
    rewrite Forall_forall in Hall, Hall'.
    assert (x = y).
    { destruct (proj1 (Heq x) (or_introl eq_refl)) as [->|Hx]; auto.
      destruct (proj2 (Heq y) (or_introl eq_refl)) as [->|Hy]; auto.
      specialize (Hall y Hy). specialize (Hall' x Hx). lia. }
    subst y. f_equal. apply IH; auto.
    intros z. split; intros Hz.
    + destruct (proj1 (Heq z) (or_intror Hz)) as [<-|Hz']; auto. specialize (Hall x Hz). lia.
    + destruct (proj2 (Heq z) (or_intror Hz)) as [<-|Hz']; auto. specialize (Hall' x Hz). lia.
Qed.

Theorem sort_by_order_free {A} (key : A -> nat) (l l' : list A) :
  Permutation l l' -> NoDup (map key l) -> sort_by key l = sort_by key l'.
Proof.
  intros Hp Hnd. apply (sorted_unique key).
  - now apply sort_by_sorted.
  - apply sort_by_sorted. eapply Permutation_NoDup; [apply Permutation_map; exact Hp | exact Hnd].
  - intros x. rewrite !In_sort_by. split; apply Permutation_in; [|symmetry]; auto.
Qed.

(* C04 at the engine boundary: the order in which the driver hands over the facts and the order in which the
   annotation maps are iterated do not influence ANYTHING the engine produces (conflicts with explanations, the
   inferred map in insertion order, the exported fact) *)
Theorem engine_input_order_free exported fuel facts facts' annots annots' ts :
  Permutation facts facts' -> NoDup (map fst facts) ->
  Permutation annots annots' -> NoDup (map fst annots) ->
  engine_result exported fuel facts annots ts = engine_result exported fuel facts' annots' ts.
Proof.
  intros Pf Nf Pa Na. unfold engine_result, analyze_pkg, upstream_items, annot_items.
  rewrite (sort_by_order_free fst facts facts' Pf Nf), (sort_by_order_free fst annots annots' Pa Na). reflexivity.
Qed.
