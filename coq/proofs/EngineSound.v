(* Soundness invariant of the engine: everything in the state and on the work stack is justified by
   active constraints of the system C; hence every reported conflict is a real source-to-sink flow. *)
From Coq Require Import List Bool Arith PeanoNat Lia.
From NM Require Import Engine EngineSpec.
From NP Require Import EngineBasics.
Import ListNotations.

Lemma det_store_det m s e x : det_l (store m s (Det e)) x = if Nat.eqb s x then Some e else det_l m x.
Proof. unfold det_l. rewrite lookup_store. destruct (Nat.eqb s x); auto. Qed.
Lemma outs_store_det m s e x : outs_l (store m s (Det e)) x = if Nat.eqb s x then [] else outs_l m x.
Proof. unfold outs_l. rewrite lookup_store. destruct (Nat.eqb s x); auto. Qed.
Lemma ins_store_det m s e x : ins_l (store m s (Det e)) x = if Nat.eqb s x then [] else ins_l m x.
Proof. unfold ins_l. rewrite lookup_store. destruct (Nat.eqb s x); auto. Qed.

Section Sound.
  Variable C : csys.

  (* e explains the verdict (eval_expl e) of site s by a chain of active edges of C that starts at an
     active source (for true) / ends at an active sink (for false) *)
  Inductive just : site -> expl -> Prop :=
    | j_leaf s e : act C (if eval_expl e then ASrc s else ASnk s) -> just s e
    | j_deep_t p c t e : act C (AEdge p c t) -> just p e -> eval_expl e = true -> just c (EDeep t e)
    | j_deep_f p c t e : act C (AEdge p c t) -> just c e -> eval_expl e = false -> just p (EDeep t e).

  Lemma act_src_nilr s : act C (ASrc s) -> nilr C s.
  Proof. intros [H|[k [H1 H2]]]; [now apply nr_src | eapply nr_csrc; eauto]. Qed.
  Lemma act_edge_nilr p c t : act C (AEdge p c t) -> nilr C p -> nilr C c.
  Proof. intros [H|[k [H1 H2]]] Hp; [eapply nr_edge; eauto | eapply nr_cedge; eauto]. Qed.

  Lemma just_reach s e : just s e -> if eval_expl e then nilr C s else nonr C s.
  Proof.
    induction 1 as [s e H | p c t e Ha Hj IH He | p c t e Ha Hj IH He].
    - destruct (eval_expl e); [now apply act_src_nilr | now apply nn_snk].
    - cbn. rewrite He in *. eapply act_edge_nilr; eauto.
    - cbn. rewrite He in *. eapply nn_edge; eauto.
  Qed.

  Definition conflict_ok (c : conflict) : Prop :=
    match c with
    | CSingle t => act C (ADirect t)
    | COver et ef => exists s, just s et /\ eval_expl et = true /\ just s ef /\ eval_expl ef = false
    end.

  Record J (st : state) (work : list item) : Prop := {
    J1 : forall s e, det_l (mp st) s = Some e -> just s e;
    J2 : forall s e, In (ISite s e) work -> just s e;
    J3 : forall t a, In (ITrig t) work -> In a (atoms_of_trigger t) -> act C a;
    J4 : forall p c t, In (IImpl p c t) work -> act C (AEdge p c t);
    J5o : forall s o t, In (o, t) (outs_l (mp st) s) -> act C (AEdge s o t);
    J5i : forall s i t, In (i, t) (ins_l (mp st) s) -> act C (AEdge i s t);
    J6 : forall t a, In t (ctl st) -> In a (atoms_of_trigger t) -> exists k, t_ctrl t = Some k /\ In (k, a) (ctld C);
    J7 : forall c, In c (conflicts st) -> conflict_ok c }.

  Lemma activate_just st s e t a :
    (forall t a, In t (ctl st) -> In a (atoms_of_trigger t) -> exists k, t_ctrl t = Some k /\ In (k, a) (ctld C)) ->
    just s e -> In (ITrig t) (activate st s (eval_expl e)) -> In a (atoms_of_trigger t) -> act C a.
  Proof.
    intros H6 Hj Hin Ha. unfold activate in Hin. destruct (eval_expl e) eqn:Ev; [|destruct Hin].
    apply in_map_iff in Hin. destruct Hin as [t' [Ht' Hin]]. inversion Ht'; subst t'.
    unfold controlled_by in Hin. apply filter_In in Hin. destruct Hin as [Hin Hc].
    destruct (H6 _ _ Hin Ha) as [k [Hk Hka]].
    unfold ctrl_is in Hc. rewrite Hk in Hc. apply Nat.eqb_eq in Hc. subst k.
    right. exists s. split; auto. pose proof (just_reach _ _ Hj) as R. now rewrite Ev in R.
  Qed.

  Lemma J_step st it rest st1 new : J st (it :: rest) -> step st it = (st1, new) -> J st1 (new ++ rest).
  Proof.
    intros HJ Hs. destruct HJ as [H1 H2 H3 H4 H5o H5i H6 H7].
    destruct it as [s e | t | p c t]; cbn in Hs.
    - (* ISite *)
      assert (Hje : just s e) by (apply H2; left; reflexivity).
      pose proof (lookup_view (mp st) s) as V.
      destruct (lookup (mp st) s) as [[e'|ins outs]|] eqn:El.
      + destruct V as [Vd _].
        destruct (Bool.eqb (eval_expl e') (eval_expl e)) eqn:Eb; inversion Hs; subst st1 new; clear Hs.
        * constructor; cbn; auto; intros; [eapply H2|eapply H3|eapply H4]; try right; eauto.
        * constructor; cbn; auto.
          -- intros s0 e0 Hin. apply in_app_or in Hin. destruct Hin as [Hin|Hin]; [|apply H2; right; auto].
             unfold activate in Hin. destruct (eval_expl e); [|destruct Hin].
             apply in_map_iff in Hin. destruct Hin as [? [Hx _]]. discriminate.
          -- intros t a Hin Ha. apply in_app_or in Hin. destruct Hin as [Hin|Hin]; [|eapply H3; [right|]; eauto].
             eapply activate_just; eauto.
          -- intros p c t Hin. apply in_app_or in Hin. destruct Hin as [Hin|Hin]; [|apply H4; right; auto].
             unfold activate in Hin. destruct (eval_expl e); [|destruct Hin].
             apply in_map_iff in Hin. destruct Hin as [? [Hx _]]. discriminate.
          -- intros c Hin. apply in_app_or in Hin. destruct Hin as [Hin|[<-|[]]]; auto.
             apply Bool.eqb_false_iff in Eb.
             assert (Hje' : just s e') by (apply H1; auto).
             destruct (eval_expl e') eqn:E1; cbn.
             ++ exists s. repeat split; auto. destruct (eval_expl e); congruence.
             ++ exists s. repeat split; auto. destruct (eval_expl e); congruence.
      + (* Undet -> Det, propagate *)
        destruct V as [Vd [Vo Vi]].
        inversion Hs; subst st1 new; clear Hs.
        constructor; cbn.
        * intros s0 e0. rewrite det_store_det. destruct (Nat.eqb s s0) eqn:E.
          -- apply Nat.eqb_eq in E; subst. intros H; inversion H; subst; auto.
          -- apply H1.
        * intros s0 e0 Hin. apply in_app_or in Hin. destruct Hin as [Hin|Hin]; [|apply H2; right; auto].
          apply in_app_or in Hin. destruct Hin as [Hin|Hin].
          { unfold activate in Hin. destruct (eval_expl e); [|destruct Hin].
            apply in_map_iff in Hin. destruct Hin as [? [Hx _]]. discriminate. }
          destruct (eval_expl e) eqn:Ev; apply in_map_iff in Hin; destruct Hin as [[x tx] [Hx Hin]]; cbn in Hx; inversion Hx; subst.
          -- eapply j_deep_t; [apply H5o; eassumption | exact Hje | exact Ev].
          -- eapply j_deep_f; [apply H5i; eassumption | exact Hje | exact Ev].
        * intros t a Hin Ha. apply in_app_or in Hin. destruct Hin as [Hin|Hin]; [|eapply H3; [right|]; eauto].
          apply in_app_or in Hin. destruct Hin as [Hin|Hin]; [eapply activate_just; eauto|].
          destruct (eval_expl e); apply in_map_iff in Hin; destruct Hin as [? [Hx _]]; discriminate.
        * intros p c t Hin. apply in_app_or in Hin. destruct Hin as [Hin|Hin]; [|apply H4; right; auto].
          apply in_app_or in Hin. destruct Hin as [Hin|Hin].
          { unfold activate in Hin. destruct (eval_expl e); [|destruct Hin].
            apply in_map_iff in Hin. destruct Hin as [? [Hx _]]. discriminate. }
          destruct (eval_expl e); apply in_map_iff in Hin; destruct Hin as [? [Hx _]]; discriminate.
        * intros s0 o t. rewrite outs_store_det. destruct (Nat.eqb s s0); [intros []|apply H5o].
        * intros s0 i t. rewrite ins_store_det. destruct (Nat.eqb s s0); [intros []|apply H5i].
        * auto.
        * auto.
      + (* absent -> Det *)
        destruct V as [Vd [Vo Vi]].
        inversion Hs; subst st1 new; clear Hs.
        constructor; cbn.
        * intros s0 e0. rewrite det_store_det. destruct (Nat.eqb s s0) eqn:E.
          -- apply Nat.eqb_eq in E; subst. intros H; inversion H; subst; auto.
          -- apply H1.
        * intros s0 e0 Hin. apply in_app_or in Hin. destruct Hin as [Hin|Hin]; [|apply H2; right; auto].
          unfold activate in Hin. destruct (eval_expl e); [|destruct Hin].
          apply in_map_iff in Hin. destruct Hin as [? [Hx _]]. discriminate.
        * intros t a Hin Ha. apply in_app_or in Hin. destruct Hin as [Hin|Hin]; [|eapply H3; [right|]; eauto].
          eapply activate_just; eauto.
        * intros p c t Hin. apply in_app_or in Hin. destruct Hin as [Hin|Hin]; [|apply H4; right; auto].
          unfold activate in Hin. destruct (eval_expl e); [|destruct Hin].
          apply in_map_iff in Hin. destruct Hin as [? [Hx _]]. discriminate.
        * intros s0 o t. rewrite outs_store_det. destruct (Nat.eqb s s0); [intros []|apply H5o].
        * intros s0 i t. rewrite ins_store_det. destruct (Nat.eqb s s0); [intros []|apply H5i].
        * auto.
        * auto.
    - (* ITrig *)
      assert (Hact : forall a, In a (atoms_of_trigger t) -> act C a) by (intros a Ha; eapply H3; [left; reflexivity|auto]).
      unfold atoms_of_trigger, atom_of_kinds in Hact.
      destruct (t_prod t) as [| |p] eqn:Ep, (t_cons t) as [| |c] eqn:Ec; inversion Hs; subst st1 new; clear Hs;
        constructor; cbn; auto;
        try (intros; first [eapply H2; right; eassumption | eapply H3; [right; eassumption|eassumption] | eapply H4; right; eassumption]).
      + intros c0 Hin. apply in_app_or in Hin. destruct Hin as [Hin|[<-|[]]]; auto. cbn. apply Hact. left; reflexivity.
      + intros s e [Hin|Hin]; [|apply H2; right; auto]. inversion Hin; subst. apply j_leaf. cbn. apply Hact. left; reflexivity.
      + intros t0 a [Hin|Hin] Ha; [discriminate|]. eapply H3; [right; exact Hin | exact Ha].
      + intros p0 c0 t0 [Hin|Hin]; [discriminate|]. apply H4; right; auto.
      + intros s e [Hin|Hin]; [|apply H2; right; auto]. inversion Hin; subst. apply j_leaf. cbn. apply Hact. left; reflexivity.
      + intros t0 a [Hin|Hin] Ha; [discriminate|]. eapply H3; [right; exact Hin | exact Ha].
      + intros p0 c0 t0 [Hin|Hin]; [discriminate|]. apply H4; right; auto.
      + intros s e [Hin|Hin]; [discriminate|]. apply H2; right; auto.
      + intros t0 a [Hin|Hin] Ha; [discriminate|]. eapply H3; [right; exact Hin | exact Ha].
      + intros p0 c0 t0 [Hin|Hin]; [|apply H4; right; auto]. inversion Hin; subst. apply Hact. left; reflexivity.
    - (* IImpl *)
      assert (Hact : act C (AEdge p c t)) by (apply H4; left; reflexivity).
      pose proof (lookup_view (mp st) p) as Vp. pose proof (lookup_view (mp st) c) as Vc.
      assert (Hdone : forall ns, (forall s e, In (ISite s e) ns -> just s e) ->
                 (forall x, In x ns -> exists s e, x = ISite s e) -> J st (ns ++ rest)).
      { intros ns Hns Hshape. constructor; auto.
        - intros s e Hin. apply in_app_or in Hin. destruct Hin; [auto | apply H2; right; auto].
        - intros t0 a Hin Ha. apply in_app_or in Hin. destruct Hin as [Hin|Hin]; [|eapply H3; [right|]; eauto].
          destruct (Hshape _ Hin) as [? [? ?]]; discriminate.
        - intros p0 c0 t0 Hin. apply in_app_or in Hin. destruct Hin as [Hin|Hin]; [|apply H4; right; auto].
          destruct (Hshape _ Hin) as [? [? ?]]; discriminate. }
      assert (Hnone : J st ([] ++ rest)) by (apply Hdone; intros; contradiction).
      destruct (lookup (mp st) p) as [[ep|ip op]|] eqn:Elp.
      + destruct Vp as [Vpd _]. destruct (eval_expl ep) eqn:Evp; inversion Hs; subst st1 new; clear Hs; auto.
        apply Hdone.
        * intros s e [Hin|[]]. inversion Hin; subst. eapply j_deep_t; eauto.
        * intros x [<-|[]]; eauto.
      + destruct Vp as [Vpd _].
        destruct (lookup (mp st) c) as [[ec|ic oc]|] eqn:Elc.
        * destruct Vc as [Vcd _]. destruct (eval_expl ec) eqn:Evc; inversion Hs; subst st1 new; clear Hs; auto.
          apply Hdone.
          -- intros s e [Hin|[]]. inversion Hin; subst. eapply j_deep_f; eauto.
          -- intros x [<-|[]]; eauto.
        * destruct Vc as [Vcd _]. inversion Hs; subst st1 new; clear Hs. cbn.
          constructor; cbn; auto; try (intros; first [eapply H2; right; eassumption | eapply H3; [right; eassumption|eassumption] | eapply H4; right; eassumption]).
          -- intros s e. rewrite store_impl_det. apply H1.
          -- intros s o t0 Hin. apply store_impl_outs in Hin; auto. destruct Hin as [Hin|[-> [-> ->]]]; auto.
          -- intros s i t0 Hin. apply store_impl_ins in Hin; auto. destruct Hin as [Hin|[-> [-> ->]]]; auto.
        * destruct Vc as [Vcd _]. inversion Hs; subst st1 new; clear Hs. cbn.
          constructor; cbn; auto; try (intros; first [eapply H2; right; eassumption | eapply H3; [right; eassumption|eassumption] | eapply H4; right; eassumption]).
          -- intros s e. rewrite store_impl_det. apply H1.
          -- intros s o t0 Hin. apply store_impl_outs in Hin; auto. destruct Hin as [Hin|[-> [-> ->]]]; auto.
          -- intros s i t0 Hin. apply store_impl_ins in Hin; auto. destruct Hin as [Hin|[-> [-> ->]]]; auto.
      + destruct Vp as [Vpd _].
        destruct (lookup (mp st) c) as [[ec|ic oc]|] eqn:Elc.
        * destruct Vc as [Vcd _]. destruct (eval_expl ec) eqn:Evc; inversion Hs; subst st1 new; clear Hs; auto.
          apply Hdone.
          -- intros s e [Hin|[]]. inversion Hin; subst. eapply j_deep_f; eauto.
          -- intros x [<-|[]]; eauto.
        * destruct Vc as [Vcd _]. inversion Hs; subst st1 new; clear Hs. cbn.
          constructor; cbn; auto; try (intros; first [eapply H2; right; eassumption | eapply H3; [right; eassumption|eassumption] | eapply H4; right; eassumption]).
          -- intros s e. rewrite store_impl_det. apply H1.
          -- intros s o t0 Hin. apply store_impl_outs in Hin; auto. destruct Hin as [Hin|[-> [-> ->]]]; auto.
          -- intros s i t0 Hin. apply store_impl_ins in Hin; auto. destruct Hin as [Hin|[-> [-> ->]]]; auto.
        * destruct Vc as [Vcd _]. inversion Hs; subst st1 new; clear Hs. cbn.
          constructor; cbn; auto; try (intros; first [eapply H2; right; eassumption | eapply H3; [right; eassumption|eassumption] | eapply H4; right; eassumption]).
          -- intros s e. rewrite store_impl_det. apply H1.
          -- intros s o t0 Hin. apply store_impl_outs in Hin; auto. destruct Hin as [Hin|[-> [-> ->]]]; auto.
          -- intros s i t0 Hin. apply store_impl_ins in Hin; auto. destruct Hin as [Hin|[-> [-> ->]]]; auto.
  Qed.

  Lemma J_run st work st' : Run st work st' -> J st work -> J st' [].
  Proof. apply (Run_invariant J). intros; eapply J_step; eauto. Qed.

  (* consequences at any point: a conflict witnesses a flow; verdicts are reachable sets *)
  Lemma conflict_ok_flow c : conflict_ok c -> has_flow C.
  Proof.
    destruct c as [t|et ef]; cbn.
    - intros H. left. eauto.
    - intros [s [H1 [E1 [H2 E2]]]]. right. exists s.
      pose proof (just_reach _ _ H1) as R1. pose proof (just_reach _ _ H2) as R2.
      rewrite E1 in R1. rewrite E2 in R2. auto.
  Qed.

  Lemma J_conflict_flow st work : J st work -> conflicts st <> [] -> has_flow C.
  Proof.
    intros HJ Hne. destruct (conflicts st) as [|c l] eqn:E; [congruence|].
    apply (conflict_ok_flow c). apply (J7 _ _ HJ). rewrite E. left; reflexivity.
  Qed.
End Sound.
