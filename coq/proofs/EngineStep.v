(* What one step of the engine does to determined values, pending work and stored edges. *)
From Coq Require Import List Bool Arith PeanoNat Lia.
From NM Require Import Engine.
From NP Require Import EngineBasics.
Import ListNotations.

Definition dv (st : state) (s : site) : option bool :=
  match det_l (mp st) s with Some e => Some (eval_expl e) | None => None end.

Definition stored (st : state) (p c : site) : Prop :=
  lookup (outs_l (mp st) p) c <> None /\ lookup (ins_l (mp st) c) p <> None.

Lemma dv_set_mp_store_det st s e x :
  dv (set_mp st (store (mp st) s (Det e))) x = if Nat.eqb s x then Some (eval_expl e) else dv st x.
Proof.
  unfold dv, det_l; cbn. rewrite lookup_store. destruct (Nat.eqb s x); auto.
Qed.

Lemma dv_add_conflict st c x : dv (add_conflict st c) x = dv st x.
Proof. reflexivity. Qed.

Lemma dv_store_impl st p c t x : dv (set_mp st (store_impl (mp st) p c t)) x = dv st x.
Proof. unfold dv; cbn. now rewrite store_impl_det. Qed.

Lemma dv_lookup st s : dv st s = match lookup (mp st) s with Some (Det e) => Some (eval_expl e) | _ => None end.
Proof. unfold dv, det_l. destruct (lookup (mp st) s) as [[e|i o]|]; auto. Qed.

(* determined values never change *)
Lemma step_dv_mono st it st1 new s b : step st it = (st1, new) -> dv st s = Some b -> dv st1 s = Some b.
Proof.
  intros Hs Hd. destruct it as [s0 e | t | p c t]; cbn in Hs.
  - destruct (lookup (mp st) s0) as [[e'|i o]|] eqn:El.
    + destruct (Bool.eqb _ _); inversion Hs; subst; auto.
    + inversion Hs; subst. rewrite dv_set_mp_store_det. destruct (Nat.eqb s0 s) eqn:E; auto.
      apply Nat.eqb_eq in E; subst. rewrite dv_lookup, El in Hd. discriminate.
    + inversion Hs; subst. rewrite dv_set_mp_store_det. destruct (Nat.eqb s0 s) eqn:E; auto.
      apply Nat.eqb_eq in E; subst. rewrite dv_lookup, El in Hd. discriminate.
  - destruct (t_prod t), (t_cons t); inversion Hs; subst; auto.
  - destruct (lookup (mp st) p) as [[ep|i o]|].
    + destruct (eval_expl ep); inversion Hs; subst; auto.
    + destruct (lookup (mp st) c) as [[ec|i' o']|]; [destruct (eval_expl ec)| |]; inversion Hs; subst; auto;
        now rewrite dv_store_impl.
    + destruct (lookup (mp st) c) as [[ec|i' o']|]; [destruct (eval_expl ec)| |]; inversion Hs; subst; auto;
        now rewrite dv_store_impl.
Qed.

Lemma app_eq_nil_r {A} (l : list A) x : l ++ [x] <> [].
Proof. destruct l; discriminate. Qed.

(* processing a site item without raising a conflict leaves the site determined with that value *)
Lemma step_site_noconf st s e st1 new :
  step st (ISite s e) = (st1, new) -> conflicts st1 = [] -> dv st1 s = Some (eval_expl e).
Proof.
  cbn. intros Hs Hc. destruct (lookup (mp st) s) as [[e'|i o]|] eqn:El.
  - destruct (Bool.eqb (eval_expl e') (eval_expl e)) eqn:Eb; inversion Hs; subst.
    + rewrite dv_lookup, El. apply Bool.eqb_prop in Eb. now rewrite Eb.
    + cbn in Hc. exfalso. eapply app_eq_nil_r; eauto.
  - inversion Hs; subst. rewrite dv_set_mp_store_det. now rewrite Nat.eqb_refl.
  - inversion Hs; subst. rewrite dv_set_mp_store_det. now rewrite Nat.eqb_refl.
Qed.

(* a newly determined site: which item did it and what that item pushed *)
Lemma step_dv_new st it st1 new x b :
  step st it = (st1, new) -> dv st x = None -> dv st1 x = Some b ->
  exists e, it = ISite x e /\ eval_expl e = b /\
    (forall i, In i (activate st x b) -> In i new) /\
    (b = true -> forall o t, In (o, t) (outs_l (mp st) x) -> In (ISite o (EDeep t e)) new) /\
    (b = false -> forall i t, In (i, t) (ins_l (mp st) x) -> In (ISite i (EDeep t e)) new).
Proof.
  intros Hs H0 H1. destruct it as [s0 e | t | p c t]; cbn in Hs.
  - pose proof (lookup_view (mp st) s0) as V.
    destruct (lookup (mp st) s0) as [[e'|i o]|] eqn:El.
    + destruct (Bool.eqb _ _); inversion Hs; subst; [congruence|]. rewrite dv_add_conflict in H1. congruence.
    + inversion Hs; subst. rewrite dv_set_mp_store_det in H1. destruct (Nat.eqb s0 x) eqn:E; [|congruence].
      apply Nat.eqb_eq in E; subst s0. inversion H1; subst b. destruct V as [_ [Vo Vi]].
      exists e. repeat split; auto.
      * intros i0 Hi. apply in_or_app. left; auto.
      * intros Hb o0 t0 Hin. rewrite Hb. apply in_or_app. right. rewrite Vo in Hin.
        apply in_map_iff. exists (o0, t0). split; auto.
      * intros Hb i0 t0 Hin. rewrite Hb. apply in_or_app. right. rewrite Vi in Hin.
        apply in_map_iff. exists (i0, t0). split; auto.
    + inversion Hs; subst. rewrite dv_set_mp_store_det in H1. destruct (Nat.eqb s0 x) eqn:E; [|congruence].
      apply Nat.eqb_eq in E; subst s0. inversion H1; subst b. destruct V as [_ [Vo Vi]].
      exists e. repeat split; auto.
      * intros _ o0 t0 Hin. rewrite Vo in Hin. destruct Hin.
      * intros _ o0 t0 Hin. rewrite Vi in Hin. destruct Hin.
  - destruct (t_prod t), (t_cons t); inversion Hs; subst; try congruence;
      rewrite dv_add_conflict in H1; congruence.
  - destruct (lookup (mp st) p) as [[ep|i o]|].
    + destruct (eval_expl ep); inversion Hs; subst; congruence.
    + destruct (lookup (mp st) c) as [[ec|i' o']|]; [destruct (eval_expl ec)| |]; inversion Hs; subst; try congruence;
        rewrite dv_store_impl in H1; congruence.
    + destruct (lookup (mp st) c) as [[ec|i' o']|]; [destruct (eval_expl ec)| |]; inversion Hs; subst; try congruence;
        rewrite dv_store_impl in H1; congruence.
Qed.

Lemma stored_lookup_undet st p c : stored st p c ->
  (exists i o, lookup (mp st) p = Some (Undet i o)) /\ (exists i o, lookup (mp st) c = Some (Undet i o)).
Proof.
  unfold stored, outs_l, ins_l. intros [H1 H2]. split.
  - destruct (lookup (mp st) p) as [[e|i o]|]; cbn in H1; try tauto. eauto.
  - destruct (lookup (mp st) c) as [[e|i o]|]; cbn in H2; try tauto. eauto.
Qed.

(* stored edges between sites that stay undetermined survive a step *)
Lemma step_stored st it st1 new p c :
  step st it = (st1, new) -> stored st p c -> dv st1 p = None -> dv st1 c = None -> stored st1 p c.
Proof.
  intros Hs Hst Hp Hc.
  assert (Hsame : forall s e, st1 = set_mp st (store (mp st) s (Det e)) -> stored st1 p c).
  { intros s e ->. rewrite dv_set_mp_store_det in Hp, Hc.
    destruct (Nat.eqb s p) eqn:E1; [discriminate|]. destruct (Nat.eqb s c) eqn:E2; [discriminate|].
    unfold stored in *; cbn. rewrite outs_store_det', ins_store_det'. rewrite E1, E2. auto. }
  destruct it as [s0 e | t | p0 c0 t]; cbn in Hs.
  - destruct (lookup (mp st) s0) as [[e'|i o]|] eqn:El.
    + destruct (Bool.eqb _ _); inversion Hs; subst; auto.
    + inversion Hs; subst. eapply Hsame; eauto.
    + inversion Hs; subst. eapply Hsame; eauto.
  - destruct (t_prod t), (t_cons t); inversion Hs; subst; auto.
  - assert (Hsi : det_l (mp st) p0 = None -> det_l (mp st) c0 = None -> stored (set_mp st (store_impl (mp st) p0 c0 t)) p c).
    { intros D1 D2. destruct Hst as [S1 S2]. split; cbn.
      - apply store_impl_outs_keep; auto.
      - apply store_impl_ins_keep; auto. }
    pose proof (lookup_view (mp st) p0) as Vp. pose proof (lookup_view (mp st) c0) as Vc.
    destruct (lookup (mp st) p0) as [[ep|i o]|].
    + destruct (eval_expl ep); inversion Hs; subst; auto.
    + destruct (lookup (mp st) c0) as [[ec|i' o']|]; [destruct (eval_expl ec)| |]; inversion Hs; subst; auto;
        apply Hsi; tauto.
    + destruct (lookup (mp st) c0) as [[ec|i' o']|]; [destruct (eval_expl ec)| |]; inversion Hs; subst; auto;
        apply Hsi; tauto.
Qed.
