From Coq Require Import List Bool Arith PeanoNat Lia.
From NM Require Import Keys.
Import ListNotations.

Section Identity.
  (* facts about the program that the key constructors respect *)
  Variable sig : obj -> nat -> option nat.          (* name of parameter n of a function (None: unnamed) *)
  Variable recv_name : obj -> option nat.           (* receiver type name printed for result-field keys *)
  Variable fld_of : obj -> nat -> nat -> obj.        (* the field called `name` of the struct at param/result n *)

  Definition wf_key (k : key) : Prop :=
    match k with
    | KCallSiteParam fn n pn _ | KParam fn n pn => pn = sig fn n
    | KRetField fn n fld rc => fld = fld_of fn n (o_name fld) /\ rc = recv_name fn
    | KParamField fn n pn fld _ _ => pn = sig fn n /\ fld = fld_of fn n (o_name fld)
    | _ => True
    end.

  (* same Object() and same rendered representation: same key *)
  Lemma repr_injective k1 k2 :
    wf_key k1 -> wf_key k2 -> key_obj k1 = key_obj k2 -> key_repr k1 = key_repr k2 -> k1 = k2.
  Proof.
    intros W1 W2 Ho Hr.
    destruct k1, k2; cbn in *; inversion Hr; subst; try congruence.
    - destruct W1 as [F1 R1], W2 as [F2 R2]. assert (fld = fld0) by congruence. subst. congruence.
    - destruct W1 as [P1 F1], W2 as [P2 F2]. assert (fld = fld0) by congruence. subst. congruence.
  Qed.

  (* ---- the package's own view: every object has its true position ---- *)
  Variable v : view.

  Definition local_view_ok (objs : list obj) : Prop :=
    (forall o, In o objs -> o_pkg o = v_pkg v) /\
    (forall o1 o2, In o1 objs -> In o2 objs -> v_pos v o1 = v_pos v o2 -> o1 = o2).

  Theorem site_injective_local objs k1 d1 k2 d2 :
    local_view_ok objs -> In (key_obj k1) objs -> In (key_obj k2) objs -> wf_key k1 -> wf_key k2 ->
    site_of v k1 d1 = site_of v k2 d2 -> k1 = k2 /\ d1 = d2.
  Proof.
    intros [Hpk Hinj] I1 I2 W1 W2 H. unfold site_of in H.
    rewrite (Hpk _ I1), (Hpk _ I2), Nat.eqb_refl in H.
    assert (Hp : v_pos v (key_obj k1) = v_pos v (key_obj k2)) by (apply (f_equal s_pos) in H; exact H).
    assert (Hr : key_repr k1 = key_repr k2) by (apply (f_equal s_repr) in H; exact H).
    assert (Hd : d1 = d2) by (apply (f_equal s_deep) in H; exact H).
    split; auto. apply repr_injective; auto.
  Qed.
End Identity.

(* ---- an importer's view of a dependency's objects ---- *)
Section Stability.
  Variables home imp : view.

  (* the dependency published a fact that mentions the object: its (pkg, objectpath) is in the importer's
     position cache with the dependency's own position *)
  Definition published (o : obj) : Prop :=
    exists pa, o_path o = Some pa /\ lookup_up (v_upstream imp) (o_pkg o) pa = Some (v_pos home o).

  (* however imprecisely the importer knows the dependency's source positions (v_pos imp is arbitrary), the
     identity computed by the importer is the one computed at home *)
  Theorem site_stable k d :
    o_pkg (key_obj k) = v_pkg home -> o_pkg (key_obj k) <> v_pkg imp -> published (key_obj k) ->
    site_of imp k d = site_of home k d.
  Proof.
    intros Hh Hi [pa [Hpa Hl]]. unfold site_of.
    assert (E1 : Nat.eqb (o_pkg (key_obj k)) (v_pkg home) = true) by (apply Nat.eqb_eq; exact Hh).
    assert (E2 : Nat.eqb (o_pkg (key_obj k)) (v_pkg imp) = false) by (apply Nat.eqb_neq; exact Hi).
    rewrite E1, E2, Hpa, Hl. reflexivity.
  Qed.

  (* without a published fact the importer falls back on its own knowledge of the position: the identity then
     agrees with the home identity only if that knowledge is exact *)
  Theorem site_unpublished k d :
    o_pkg (key_obj k) <> v_pkg imp ->
    (forall pa, o_path (key_obj k) = Some pa -> lookup_up (v_upstream imp) (o_pkg (key_obj k)) pa = None) ->
    s_pos (site_of imp k d) = v_pos imp (key_obj k).
  Proof.
    intros Hi Hn. unfold site_of. apply Nat.eqb_neq in Hi. rewrite Hi. cbn.
    destruct (o_path (key_obj k)) as [pa|]; auto. now rewrite (Hn pa eq_refl).
  Qed.
End Stability.

(* non-vacuity: two same-named methods on different types (same Repr) are told apart by position *)
Definition mA := {| o_id := 1; o_pkg := 7; o_name := 5; o_exported := true; o_dispatch := false; o_path := Some 11 |}.
Definition mB := {| o_id := 2; o_pkg := 7; o_name := 5; o_exported := true; o_dispatch := false; o_path := Some 12 |}.
Definition ex_view := {| v_pkg := 7; v_pos := fun o => (1, 10 * o_id o); v_upstream := [] |}.
Example same_name_methods_differ :
  key_repr (KRet mA 0) = key_repr (KRet mB 0) /\ site_of ex_view (KRet mA 0) false <> site_of ex_view (KRet mB 0) false.
Proof. split; [reflexivity | discriminate]. Qed.
