(* M5 x M14: the conditions of a short-circuit value expression are whatever AddNilCheck recognises.  A nested condition about
   one pointer (comparisons with nil in either order, negations, comparisons with boolean constants in either order, to any
   depth) is turned into the condition record of M14 by running M5's interpreter of AddNilCheck (Cmp.check over the GENERATED
   checker list) on it; its conclusions are right by C19_branch_attribution_nested, so the soundness theorem of M14 applies. *)
From Coq Require Import ZArith Bool List Lia.
From NM Require Import Cmp ShortCircuit.
From NG Require Import Tables.
From NP Require Import CmpProofs ShortCircuitProofs.
Import ListNotations.
Open Scope Z_scope.

Inductive ncond :=
  | NAtom (eq swap : bool)                       (* v == nil / v != nil; swap: nil on the left *)
  | NNot (c : ncond)                             (* !c *)
  | NEqB (c : ncond) (neq b constFirst : bool).  (* c == b, c != b, b == c, b != c *)

Definition pv (n : bool) : operand := ptr (if n then 0 else 1).

Fixpoint to_expr (n : bool) (c : ncond) : expr :=
  match c with
  | NAtom eq sw =>
      ECmp (if eq then EQL else NEQ) (if sw then EOp nil_lit else EOp (pv n)) (if sw then EOp (pv n) else EOp nil_lit)
  | NNot c' => ENot (to_expr n c')
  | NEqB c' neq b cf =>
      ECmp (if neq then NEQ else EQL) (if cf then EBool b else to_expr n c') (if cf then to_expr n c' else EBool b)
  end.

Definition truth (c : ncond) (n : bool) : bool := ev (to_expr n c) =? 1.
Definition concl (c : ncond) : bool * bool :=
  match checke (to_expr true c) with Some (t, f, _) => (t, f) | None => (false, false) end.
Definition cond_of (c : ncond) : cond1 := {| c_truth := truth c; c_t := fst (concl c); c_f := snd (concl c) |}.

Lemma to_expr_cond : forall n c, is_cond (to_expr n c) = true.
Proof. intros n [eq sw|c|c neq b cf]; reflexivity. Qed.

Lemma shape_cond : forall n c r, shape_of (to_expr n c) r = ShCond r.
Proof. intros n [eq sw|c|c neq b cf] r; reflexivity. Qed.

Lemma wf_to_expr : forall n c, wf_expr (to_expr n c).
Proof.
  intros n c. induction c as [eq sw|c IH|c IH neq b cf]; cbn [to_expr wf_expr].
  - destruct sw; cbn; repeat split; auto.
  - exact IH.
  - destruct cf; cbn [wf_expr]; split; auto; exact I.
Qed.

(* AddNilCheck recognises every such condition; its conclusions do not depend on the pointer's value, its subject is the pointer *)
Lemma check_ncond : forall c, exists t f, forall n, checke (to_expr n c) = Some (t, f, pv n).
Proof.
  induction c as [eq sw|c [t [f IH]]|c [t [f IH]] neq b cf].
  - destruct eq, sw; eexists; eexists; intros [|]; reflexivity.
  - exists f, t. intros n. unfold checke in *. cbn [to_expr check]. rewrite not_swaps. rewrite IH. reflexivity.
  - assert (G : forall n, exists t' f', t' = (if Bool.eqb (negb neq) b then t else f) /\ f' = (if Bool.eqb (negb neq) b then f else t) /\
                 checke (to_expr n (NEqB c neq b cf)) = Some (t', f', pv n)).
    { intros n. do 2 eexists. split; [reflexivity|]. split; [reflexivity|].
      cbn [to_expr]. unfold checke. destruct cf; cbn [check].
      - rewrite shape_cond. fold checke. rewrite IH. cbn [shape_of].
        generalize (ev (to_expr n c)) as va. intros va. generalize (pv n) as s. intros s.
        destruct neq, b, t, f; vm_compute; reflexivity.
      - rewrite shape_cond. fold checke. rewrite IH. cbn [shape_of].
        generalize (ev (to_expr n c)) as va. intros va. generalize (pv n) as s. intros s.
        destruct neq, b, t, f; vm_compute; reflexivity. }
    exists (if Bool.eqb (negb neq) b then t else f), (if Bool.eqb (negb neq) b then f else t).
    intros n. destruct (G n) as [t' [f' [-> [-> H]]]]. exact H.
Qed.

Theorem cond_of_ok : forall c, cond1_ok (cond_of c).
Proof.
  intros c. destruct (check_ncond c) as [t [f H]].
  assert (C : concl c = (t, f)) by (unfold concl; rewrite (H true); reflexivity).
  unfold cond1_ok, cond_of; cbn [c_truth c_t c_f]. rewrite C; cbn [fst snd].
  split; intros T n E; unfold truth in E.
  - destruct (branch_attribution_nested (to_expr n c) t f (pv n) (wf_to_expr n c) (H n)) as [A _].
    apply Z.eqb_eq in E. specialize (A T E). destruct n; [cbn in A; congruence|reflexivity].
  - destruct (branch_attribution_nested (to_expr n c) t f (pv n) (wf_to_expr n c) (H n)) as [_ B].
    assert (E0 : ev (to_expr n c) = 0).
    { destruct (ev_cond (to_expr n c) (to_expr_cond n c)) as [Z0|Z1]; [exact Z0|]. rewrite Z1 in E. discriminate. }
    specialize (B T E0). destruct n; [cbn in B; congruence|reflexivity].
Qed.

(* expressions whose conditions are nested conditions *)
Fixpoint nested_conds (e : sexp) : Prop :=
  match e with
  | SCond _ k => exists c, k = cond_of c
  | SAnd x y | SOr x y => nested_conds x /\ nested_conds y
  | _ => True
  end.

Lemma nested_conds_ok : forall e, nested_conds e -> conds_ok e.
Proof.
  induction e as [v k|i|v l|x IHx y IHy|x IHx y IHy]; cbn; intros H; auto.
  - destruct H as [c ->]. apply cond_of_ok.
  - destruct H; split; auto.
  - destruct H; split; auto.
Qed.

Theorem short_circuit_sound_nested : forall e nilv orc l,
  left_pure e = true -> nested_conds e -> eval nilv orc e = Panic l -> In l (reported e).
Proof. intros e nilv orc l P K E. exact (short_circuit_sound e nilv orc l P (nested_conds_ok e K) E). Qed.

(* the atomic checks of M14 are the atomic nested conditions *)
Lemma atomic_is_nested : forall eq, (forall n, c_truth (cond_of (NAtom eq false)) n = c_truth (atomic eq) n) /\
  c_t (cond_of (NAtom eq false)) = c_t (atomic eq) /\ c_f (cond_of (NAtom eq false)) = c_f (atomic eq).
Proof. intros [|]; repeat split; intros [|]; reflexivity. Qed.

Example nested_guard_silent :
  (* ((p != nil) == true) && !(p == nil) && p.f == 1 : silent;   (false == (p != nil)) || p.f == 1 : silent;
     ((p == nil) != true) || p.f == 1 : the dereference runs when p IS nil: reported *)
  reported (SAnd (SAnd (SCond 0 (cond_of (NEqB (NAtom false false) false true false))) (SCond 0 (cond_of (NNot (NAtom true false))))) (SDer 0 1)) = [] /\
  reported (SOr (SCond 0 (cond_of (NEqB (NAtom false false) false false true))) (SDer 0 1)) = [] /\
  reported (SOr (SCond 0 (cond_of (NEqB (NAtom true false) true true false))) (SDer 0 1)) = [1%nat].
Proof. repeat split. Qed.
