(* Termination of the engine on well-formed trigger sets: a lexicographic measure
   (number of undetermined sites of a finite universe, total weight of the work stack). *)
From Coq Require Import List Bool Arith PeanoNat Lia Wf_nat.
From NM Require Import Engine EngineSpec.
From NP Require Import EngineBasics EngineStep EngineSound EngineComplete EngineMain.
Import ListNotations.

Definition sites_of_kind (k : kind) : list site := match k with KCond s => [s] | _ => [] end.
Definition sites_of_trigger (t : trigger) : list site := sites_of_kind (t_prod t) ++ sites_of_kind (t_cons t).
Definition sites_of_item (it : item) : list site :=
  match it with
  | ISite s _ => [s]
  | ITrig t => sites_of_trigger t
  | IImpl p c _ => [p; c]
  end.

(* the consumer site of a controlled trigger never controls a trigger itself: in NilAway controllers are
   call-site parameter sites and controlled consumers are call-site result sites *)
Definition wf_ctl (l : list trigger) : Prop :=
  forall t c, In t l -> t_cons t = KCond c -> controlled_by l c = [].
Definition wf_triggers (ts : list trigger) : Prop := wf_ctl (filter controlled ts).

Record closed (U : list site) (st : state) (work : list item) : Prop := {
  cl_work : forall it s, In it work -> In s (sites_of_item it) -> In s U;
  cl_ctl : forall t s, In t (ctl st) -> In s (sites_of_trigger t) -> In s U;
  cl_outs : forall s x t, In (x, t) (outs_l (mp st) s) -> In x U;
  cl_ins : forall s x t, In (x, t) (ins_l (mp st) s) -> In x U;
  cl_dom : forall s, lookup (mp st) s <> None -> In s U }.

Lemma closed_step U st it rest st1 new :
  closed U st (it :: rest) -> step st it = (st1, new) -> closed U st1 (new ++ rest).
Proof.
  intros [Hw Hc Ho Hi Hd] Hs.
  assert (Hrest : forall it0 s, In it0 rest -> In s (sites_of_item it0) -> In s U) by (intros; eapply Hw; [right|]; eauto).
  assert (Hact : forall s b it0 x, In it0 (activate st s b) -> In x (sites_of_item it0) -> In x U).
  { intros s b it0 x H Hx. unfold activate in H. destruct b; [|destruct H].
    apply in_map_iff in H. destruct H as [t [<- Ht]]. apply filter_In in Ht. destruct Ht as [Ht _]. eapply Hc; eauto. }
  pose proof (step_ctl _ _ _ _ Hs) as Ectl.
  destruct it as [s e | t | p c t]; cbn in Hs.
  - pose proof (lookup_view (mp st) s) as V.
    destruct (lookup (mp st) s) as [[e'|ins outs]|] eqn:El.
    + destruct (Bool.eqb _ _); inversion Hs; subst st1 new; clear Hs; constructor; cbn; auto.
      intros it0 x H Hx. apply in_app_or in H. destruct H; eauto.
    + destruct V as [_ [Vo Vi]]. inversion Hs; subst st1 new; clear Hs. constructor; cbn; auto.
      * intros it0 x H Hx. apply in_app_or in H. destruct H as [H|H]; eauto.
        apply in_app_or in H. destruct H as [H|H]; eauto.
        destruct (eval_expl e); apply in_map_iff in H; destruct H as [[y ty] [<- Hy]]; cbn in Hx; destruct Hx as [<-|[]]; cbn.
        -- eapply Ho. rewrite Vo. eauto.
        -- eapply Hi. rewrite Vi. eauto.
      * intros s0 x t. rewrite outs_store_det'. destruct (Nat.eqb s s0); [intros []|apply Ho].
      * intros s0 x t. rewrite ins_store_det'. destruct (Nat.eqb s s0); [intros []|apply Hi].
      * intros s0. rewrite lookup_store. destruct (Nat.eqb s s0) eqn:E; auto. apply Nat.eqb_eq in E; subst. intros _.
        eapply Hw; [left; reflexivity|cbn; auto].
    + inversion Hs; subst st1 new; clear Hs. constructor; cbn; auto.
      * intros it0 x H Hx. apply in_app_or in H. destruct H as [H|H]; eauto.
      * intros s0 x t. rewrite outs_store_det'. destruct (Nat.eqb s s0); [intros []|apply Ho].
      * intros s0 x t. rewrite ins_store_det'. destruct (Nat.eqb s s0); [intros []|apply Hi].
      * intros s0. rewrite lookup_store. destruct (Nat.eqb s s0) eqn:E; auto. apply Nat.eqb_eq in E; subst. intros _.
        eapply Hw; [left; reflexivity|cbn; auto].
  - assert (Ht : forall x, In x (sites_of_trigger t) -> In x U) by (intros x Hx; eapply Hw; [left; reflexivity|auto]).
    unfold sites_of_trigger in Ht.
    destruct (t_prod t) as [| |p] eqn:Ep, (t_cons t) as [| |c] eqn:Ec; inversion Hs; subst st1 new; clear Hs;
      constructor; cbn; auto; intros it0 x [<-|H] Hx; eauto; cbn in Hx; cbn in Ht;
      repeat (destruct Hx as [<-|Hx]; auto).
  - assert (Hp : In p U) by (eapply Hw; [left; reflexivity|cbn; auto]).
    assert (Hcc : In c U) by (eapply Hw; [left; reflexivity|cbn; auto]).
    destruct (step_impl_cases _ _ _ _ _ _ Hs) as
        [[Dp [-> [e [-> Ee]]]]|[[Dp [-> ->]]|[[Dp [Dc [-> ->]]]|[[Dp [Dc [-> [e [-> Ee]]]]]|[Dp [Dc [-> [-> [Lp Lc]]]]]]]]];
      constructor; cbn; auto.
    + intros it0 x [<-|H] Hx; eauto. destruct Hx as [<-|[]]; auto.
    + intros it0 x [<-|H] Hx; eauto. destruct Hx as [<-|[]]; auto.
    + intros s x t0 H. apply store_impl_outs in H; auto. destruct H as [H|[_ [-> _]]]; eauto.
    + intros s x t0 H. apply store_impl_ins in H; auto. destruct H as [H|[_ [-> _]]]; eauto.
    + intros s H. apply store_impl_dom in H. destruct H as [->|[->|H]]; auto.
Qed.

Lemma Run_closed U st work st' : Run st work st' -> closed U st work -> closed U st' [].
Proof. apply (Run_invariant (closed U)). intros; eapply closed_step; eauto. Qed.

(* ---- the measure ---- *)
Definition undetb (st : state) (s : site) : bool := match dv st s with None => true | Some _ => false end.
Definition ucount (U : list site) (st : state) : nat := length (filter (undetb st) U).

Definition nctl (l : list trigger) (c : site) : nat := length (controlled_by l c).
Definition wS (l : list trigger) (c : site) : nat := 1 + 3 * nctl l c.
Definition weight (l : list trigger) (it : item) : nat :=
  match it with
  | ISite s e => if eval_expl e then wS l s else 1
  | IImpl p c _ => 1 + wS l c
  | ITrig t =>
      match t_prod t, t_cons t with
      | KAlways, KCond c => 1 + wS l c
      | KCond _, KAlways => 2
      | KCond _, KCond c => 2 + wS l c
      | _, _ => 1
      end
  end.
Definition W (l : list trigger) (work : list item) : nat := list_sum (map (weight l) work).

Lemma W_app l a b : W l (a ++ b) = W l a + W l b.
Proof. unfold W. now rewrite map_app, list_sum_app. Qed.

Lemma filter_length_le {A} (f g : A -> bool) l :
  (forall x, In x l -> f x = true -> g x = true) -> length (filter f l) <= length (filter g l).
Proof.
  induction l as [|x l IH]; cbn; auto. intros H.
  destruct (f x) eqn:Ef.
  - rewrite (H x (or_introl eq_refl) Ef). cbn. apply le_n_S. apply IH. intros; apply H; auto.
  - destruct (g x); cbn; [apply le_S|]; apply IH; intros; apply H; auto.
Qed.

Lemma filter_length_lt {A} (f g : A -> bool) l y :
  (forall x, In x l -> f x = true -> g x = true) -> In y l -> f y = false -> g y = true ->
  length (filter f l) < length (filter g l).
Proof.
  induction l as [|x l IH]; cbn; [tauto|]. intros H [->|Hy] Fy Gy.
  - rewrite Fy, Gy. cbn. apply Nat.lt_succ_r. apply filter_length_le. intros; apply H; auto.
  - destruct (f x) eqn:Ef.
    + rewrite (H x (or_introl eq_refl) Ef). cbn. apply -> Nat.succ_lt_mono. apply IH; auto.
    + destruct (g x); cbn; [apply Nat.lt_lt_succ_r|]; apply IH; auto.
Qed.

Lemma ucount_mono U st it st1 new : step st it = (st1, new) -> ucount U st1 <= ucount U st.
Proof.
  intros Hs. apply filter_length_le. intros x _. unfold undetb.
  destruct (dv st x) eqn:D; auto. now rewrite (step_dv_mono _ _ _ _ _ _ Hs D).
Qed.

Lemma ucount_dec U st it st1 new s : step st it = (st1, new) -> In s U -> dv st s = None -> dv st1 s <> None ->
  ucount U st1 < ucount U st.
Proof.
  intros Hs Hin D0 D1. apply filter_length_lt with (y := s); auto.
  - intros x _. unfold undetb. destruct (dv st x) eqn:D; auto. now rewrite (step_dv_mono _ _ _ _ _ _ Hs D).
  - unfold undetb. destruct (dv st1 s); congruence.
  - unfold undetb. now rewrite D0.
Qed.

Lemma W_activate l st s : ctl st = l -> wf_ctl l -> W l (activate st s true) <= 3 * nctl l s.
Proof.
  intros El Hwf. unfold activate. rewrite El. unfold nctl.
  assert (H : forall t, In t (controlled_by l s) -> weight l (ITrig t) <= 3).
  { intros t Ht. apply filter_In in Ht. destruct Ht as [Ht _]. cbn.
    destruct (t_prod t), (t_cons t) as [| |c] eqn:Ec; try lia;
      unfold wS, nctl; rewrite (Hwf t c Ht Ec); cbn; lia. }
  induction (controlled_by l s) as [|t r IH]; [cbn; lia|].
  assert (H0 : weight l (ITrig t) <= 3) by (apply H; left; reflexivity).
  assert (H1 : W l (map ITrig r) <= 3 * length r) by (apply IH; intros; apply H; right; auto).
  change (W l (map ITrig (t :: r))) with (weight l (ITrig t) + W l (map ITrig r)).
  cbn [length]. lia.
Qed.

Lemma step_measure U st it rest st1 new :
  closed U st (it :: rest) -> wf_ctl (ctl st) -> step st it = (st1, new) ->
  ucount U st1 < ucount U st \/ (ucount U st1 <= ucount U st /\ W (ctl st) (new ++ rest) < W (ctl st) (it :: rest)).
Proof.
  intros Hcl Hwf Hs. pose proof (ucount_mono U _ _ _ _ Hs) as Hmono.
  set (l := ctl st) in *.
  assert (Wc : W l (it :: rest) = weight l it + W l rest) by reflexivity.
  rewrite W_app, Wc.
  destruct it as [s e | t | p c t].
  - destruct (dv st s) as [b|] eqn:D.
    + (* already determined *)
      right. split; auto. apply Nat.add_lt_mono_r.
      cbn in Hs. rewrite dv_lookup in D. destruct (lookup (mp st) s) as [[e'|i o]|]; try discriminate.
      destruct (Bool.eqb _ _); inversion Hs; subst st1 new; cbn -[wS].
      * destruct (eval_expl e); unfold wS; lia.
      * destruct (eval_expl e) eqn:Ev; [|unfold activate; cbn; lia].
        pose proof (W_activate l st s eq_refl Hwf). unfold wS. lia.
    + left. eapply ucount_dec; eauto.
      * eapply (cl_work _ _ _ Hcl); [left; reflexivity|cbn; auto].
      * cbn in Hs. rewrite dv_lookup in D.
        destruct (lookup (mp st) s) as [[e'|i o]|] eqn:El; try discriminate; inversion Hs; subst st1;
          rewrite dv_set_mp_store_det, Nat.eqb_refl; discriminate.
  - right. split; auto. apply Nat.add_lt_mono_r. cbn in Hs. cbn -[wS].
    destruct (t_prod t), (t_cons t); inversion Hs; subst st1 new; cbn -[wS]; unfold W; cbn -[wS]; lia.
  - right. split; auto. apply Nat.add_lt_mono_r.
    destruct (step_impl_cases _ _ _ _ _ _ Hs) as
        [[Dp [-> [e [-> Ee]]]]|[[Dp [-> ->]]|[[Dp [Dc [-> ->]]]|[[Dp [Dc [-> [e [-> Ee]]]]]|[Dp [Dc [-> [-> _]]]]]]]];
      unfold W; cbn -[wS]; rewrite ?Ee; unfold wS; lia.
Qed.

Lemma terminates_aux U : forall n m st work,
  ucount U st <= n -> W (ctl st) work <= m -> closed U st work -> wf_ctl (ctl st) -> exists st', Run st work st'.
Proof.
  induction n as [n IHn] using lt_wf_ind. induction m as [m IHm] using lt_wf_ind.
  intros st work Hn Hm Hcl Hwf. destruct work as [|it rest]; [exists st; constructor|].
  destruct (step st it) as [st1 new] eqn:Hs.
  pose proof (closed_step _ _ _ _ _ _ Hcl Hs) as Hcl1.
  pose proof (step_ctl _ _ _ _ Hs) as Ectl.
  assert (Hwf1 : wf_ctl (ctl st1)) by now rewrite Ectl.
  destruct (step_measure _ _ _ _ _ _ Hcl Hwf Hs) as [Hlt|[Hle Hlt]].
  - destruct (IHn (ucount U st1) ltac:(lia) (W (ctl st1) (new ++ rest)) st1 (new ++ rest)) as [st' R]; auto.
    exists st'. econstructor; eauto.
  - destruct (IHm (W (ctl st) (new ++ rest)) ltac:(lia) st1 (new ++ rest)) as [st' R]; auto; try lia.
    + rewrite Ectl. lia.
    + exists st'. econstructor; eauto.
Qed.

Lemma terminates U st work : closed U st work -> wf_ctl (ctl st) -> exists st', Run st work st'.
Proof. intros. eapply terminates_aux; eauto. Qed.

(* ---- package level ---- *)
Definition pkg_universe (facts : list (nat * fact)) (annots : list (site * bool)) (ts : list trigger) : list site :=
  flat_map sites_of_item (upstream_items facts) ++ map fst annots ++ flat_map sites_of_trigger ts.

Lemma closed_new_work U st st' w :
  closed U st [] -> mp st = mp st' ->
  (forall it s, In it w -> In s (sites_of_item it) -> In s U) ->
  (forall t s, In t (ctl st') -> In s (sites_of_trigger t) -> In s U) ->
  closed U st' w.
Proof. intros [_ _ Ho Hi Hd] E Hw Hc. constructor; auto; rewrite <- E; auto. Qed.

Theorem engine_terminates facts annots ts : wf_triggers ts -> exists st, pkg_run facts annots ts st.
Proof.
  intros Hwf. set (U := pkg_universe facts annots ts).
  assert (CA : closed U init_state (upstream_items facts)).
  { constructor; cbn; try (intros; contradiction).
    intros it s Hit Hs. unfold U, pkg_universe. apply in_or_app. left. apply in_flat_map. eauto. }
  destruct (terminates U _ _ CA) as [st0 RA]; [intros t c []|].
  pose proof (Run_closed _ _ _ _ RA CA) as C0.
  assert (CB : closed U st0 (annot_items annots)).
  { apply (closed_new_work U st0 st0); auto.
    - intros it s Hit Hs. unfold annot_items in Hit. apply in_map_iff in Hit. destruct Hit as [[s' b] [<- Hin]].
      apply In_sort_by in Hin. cbn in Hs. destruct Hs as [<-|[]].
      unfold U, pkg_universe. apply in_or_app. right. apply in_or_app. left. apply in_map_iff. exists (s', b). auto.
    - rewrite (Run_ctl _ _ _ RA). cbn. intros t s []. }
  destruct (terminates U _ _ CB) as [st1 RB]; [rewrite (Run_ctl _ _ _ RA); intros t c []|].
  pose proof (Run_closed _ _ _ _ RB CB) as C1.
  assert (Hts : forall t s, In t ts -> In s (sites_of_trigger t) -> In s U).
  { intros t s Ht Hs. unfold U, pkg_universe. apply in_or_app. right. apply in_or_app. right. apply in_flat_map. eauto. }
  assert (CC : closed U (fst (build_pkg_work st1 ts)) (snd (build_pkg_work st1 ts))).
  { apply (closed_new_work U st1); auto.
    - intros it s Hit Hs. destruct (build_pkg_work_items _ _ _ Hit) as [t [-> [Ht _]]]. eauto.
    - cbn. intros t s Ht Hs. apply filter_In in Ht. destruct Ht as [Ht _]. eauto. }
  destruct (terminates U _ _ CC) as [st2 RC]; [exact Hwf|].
  exists st2, st0, st1. auto.
Qed.

(* ---- a concrete, non-trivial instance ---- *)
Definition ex_facts : list (nat * fact) := [(0, [(1, Undet [] [(2, 50)]); (2, Undet [(1, 50)] [])])].
Definition ex_annots : list (site * bool) := [(6, false)].
Definition ex_ts : list trigger :=
  [ {| t_id := 100; t_prod := KAlways; t_cons := KCond 1; t_ctrl := None |};      (* nil flows into site 1 *)
    {| t_id := 101; t_prod := KCond 2; t_cons := KCond 3; t_ctrl := None |};      (* 2 -> 3 (3 is a call-site param) *)
    {| t_id := 102; t_prod := KCond 4; t_cons := KCond 5; t_ctrl := Some 3 |};    (* 4 -> 5, active once 3 is nilable *)
    {| t_id := 103; t_prod := KAlways; t_cons := KCond 4; t_ctrl := Some 3 |};    (* nil -> 4, same guard *)
    {| t_id := 104; t_prod := KCond 5; t_cons := KCond 6; t_ctrl := None |} ].    (* 5 -> 6, and 6 is annotated nonnil *)

Lemma ex_runs : exists st, pkg_run ex_facts ex_annots ex_ts st /\ conflicts st <> [] /\ wf_triggers ex_ts.
Proof.
  assert (Hwf : wf_triggers ex_ts).
  { intros t c Ht Hc. cbn in Ht. destruct Ht as [<-|[<-|[]]]; cbn in Hc; inversion Hc; subst; reflexivity. }
  destruct (engine_terminates ex_facts ex_annots ex_ts Hwf) as [st R].
  exists st. split; auto. split; auto.
  apply (engine_conflict_iff_flow _ _ _ _ R).
  right. exists 6. split.
  - (* 100: src 1; fact edge 1->2; 101: 2->3; then guarded 103: src 4, 102: 4->5; 104: 5->6 *)
    assert (N1 : nilr (pkg_csys ex_facts ex_annots ex_ts) 1) by (apply nr_src; cbn; auto 10).
    assert (N2 : nilr (pkg_csys ex_facts ex_annots ex_ts) 2) by (apply nr_edge with 1 50; cbn; auto 10).
    assert (N3 : nilr (pkg_csys ex_facts ex_annots ex_ts) 3) by (apply nr_edge with 2 101; cbn; auto 10).
    assert (N4 : nilr (pkg_csys ex_facts ex_annots ex_ts) 4) by (apply nr_csrc with 3; cbn; auto 10).
    assert (N5 : nilr (pkg_csys ex_facts ex_annots ex_ts) 5) by (apply nr_cedge with 3 4 102; cbn; auto 10).
    apply nr_edge with 5 104; cbn; auto 10.
  - apply nn_snk. left. cbn. auto 10.
Qed.
