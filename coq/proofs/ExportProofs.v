(* Facts about chooseSitesToExport / inferredValDiff / Export (model M1, Section Export). *)
From Coq Require Import List Bool Arith PeanoNat Lia.
From NM Require Import Engine EngineSpec.
From NP Require Import EngineBasics EngineStep EngineSound EngineComplete EngineMain.
Import ListNotations.

Section ExportFacts.
  Variable exported : site -> bool.

  Lemma mem_In s l : mem s l = true <-> In s l.
  Proof.
    unfold mem. rewrite existsb_exists. split.
    - intros [x [H E]]. apply Nat.eqb_eq in E. now subst.
    - intros H. exists s. split; auto. apply Nat.eqb_refl.
  Qed.

  Lemma fold_left_mono {A} (f : marks -> A -> marks) (P : marks -> Prop) l :
    (forall mk a, P mk -> P (f mk a)) -> forall mk, P mk -> P (fold_left f l mk).
  Proof. intros H. induction l; cbn; auto. Qed.

  Lemma mark_rfe_toExp fuel m : forall mk s x, In x (toExp mk) -> In x (toExp (mark_rfe exported fuel m mk s)).
  Proof.
    induction fuel as [|f IH]; intros mk s x Hx; cbn; auto.
    destruct (is_undet m s && negb (exported s) && negb (mem s (toExp mk)) && negb (mem s (rfe mk))); auto.
    apply fold_left_mono with (P := fun mk => In x (toExp mk)); [intros; now apply IH|].
    destruct (mem s (re mk)); cbn; auto.
  Qed.

  Lemma mark_re_toExp fuel m : forall mk s x, In x (toExp mk) -> In x (toExp (mark_re exported fuel m mk s)).
  Proof.
    induction fuel as [|f IH]; intros mk s x Hx; cbn; auto.
    destruct (is_undet m s && negb (exported s) && negb (mem s (toExp mk)) && negb (mem s (re mk))); auto.
    apply fold_left_mono with (P := fun mk => In x (toExp mk)); [intros; now apply IH|].
    destruct (mem s (rfe mk)); cbn; auto.
  Qed.

  (* every exported site present in the map is chosen *)
  Definition choose_step (m0 : list (site * ival)) (mk : marks) (kv : site * ival) : marks :=
    let s := fst kv in
    if exported s then
      let mk0 := {| toExp := s :: toExp mk; rfe := rfe mk; re := re mk |} in
      let mk1 := fold_left (mark_re exported (S (length m0)) m0) (ins_of m0 s) mk0 in
      fold_left (mark_rfe exported (S (length m0)) m0) (outs_of m0 s) mk1
    else mk.

  Lemma choose_marks_eq m : choose_marks exported m = fold_left (choose_step m) m {| toExp := []; rfe := []; re := [] |}.
  Proof. reflexivity. Qed.

  Lemma choose_step_toExp m0 mk kv x : In x (toExp mk) -> In x (toExp (choose_step m0 mk kv)).
  Proof.
    intros H. unfold choose_step. destruct (exported (fst kv)); auto.
    apply fold_left_mono with (P := fun mk => In x (toExp mk)); [intros; now apply mark_rfe_toExp|].
    apply fold_left_mono with (P := fun mk => In x (toExp mk)); [intros; now apply mark_re_toExp|].
    right; auto.
  Qed.

  Lemma choose_step_self m0 mk kv : exported (fst kv) = true -> In (fst kv) (toExp (choose_step m0 mk kv)).
  Proof.
    intros E. unfold choose_step. rewrite E.
    apply fold_left_mono with (P := fun mk => In (fst kv) (toExp mk)); [intros; now apply mark_rfe_toExp|].
    apply fold_left_mono with (P := fun mk => In (fst kv) (toExp mk)); [intros; now apply mark_re_toExp|].
    left; auto.
  Qed.

  Lemma choose_exported_aux (m0 : list (site * ival)) : forall (m : list (site * ival)) mk s,
    (In s (toExp mk) \/ (In s (map fst m) /\ exported s = true)) ->
    In s (toExp (fold_left (choose_step m0) m mk)).
  Proof.
    induction m as [|[k v] m IH]; intros mk s H; cbn [fold_left].
    - destruct H as [H|[[] _]]; auto.
    - apply IH. destruct H as [H|[[<-|H] E]].
      + left. now apply choose_step_toExp.
      + left. now apply (choose_step_self m0 mk (k, v)).
      + right. auto.
  Qed.

  Lemma choose_exported m s : In s (map fst m) -> exported s = true -> In s (choose_sites_to_export exported m).
  Proof. intros H E. unfold choose_sites_to_export. rewrite choose_marks_eq. apply choose_exported_aux. auto. Qed.

  Lemma lookup_In_fst {A} (m : list (site * A)) s v : lookup m s = Some v -> In s (map fst m).
  Proof. intros H. apply lookup_Some_In in H. apply in_map_iff. exists (s, v). auto. Qed.

  (* what export_pairs emits for a chosen site *)
  Lemma export_pairs_det chosen up : forall m f s e,
    export_pairs chosen up m = Some f -> lookup m s = Some (Det e) -> In s chosen ->
    (exists e', lookup f s = Some (Det e') /\ eval_expl e' = eval_expl e) \/
    (exists e', lookup up s = Some (Det e') /\ eval_expl e' = eval_expl e).
  Proof.
    induction m as [|[k v] m IH]; intros f s e Hf Hl Hc; [discriminate|].
    cbn in Hf, Hl. destruct (export_pairs chosen up m) as [rest|] eqn:Er; [|discriminate].
    destruct (Nat.eqb k s) eqn:Ek.
    - apply Nat.eqb_eq in Ek; subst k. inversion Hl; subst v.
      assert (Hm : mem s chosen = true) by now apply mem_In. rewrite Hm in Hf.
      destruct (lookup up s) as [uv|] eqn:Eu.
      + destruct uv as [eo|oi oo]; cbn in Hf.
        * destruct (Bool.eqb (eval_expl e) (eval_expl eo)) eqn:Eb; [|discriminate].
          right. exists eo. split; auto. symmetry. now apply Bool.eqb_prop.
        * inversion Hf; subst f. left. exists e. cbn. rewrite Nat.eqb_refl. auto.
      + inversion Hf; subst f. left. exists e. cbn. rewrite Nat.eqb_refl. auto.
    - assert (IHs := IH rest s e eq_refl Hl Hc).
      destruct (mem k chosen).
      + destruct (lookup up k) as [uv|].
        * destruct (val_diff v uv) as [[d|]|]; [| |discriminate]; inversion Hf; subst f; auto.
          destruct IHs as [[e' [H1 H2]]|H]; auto. left. exists e'. cbn. rewrite Ek. auto.
        * inversion Hf; subst f. destruct IHs as [[e' [H1 H2]]|H]; auto. left. exists e'. cbn. rewrite Ek. auto.
      + inversion Hf; subst f; auto.
  Qed.

  (* the only way Export panics: the new value does not supersede the upstream one *)
  Lemma export_pairs_no_panic chosen up : forall m,
    (forall s v uv, In (s, v) m -> lookup up s = Some uv -> val_diff v uv <> None) ->
    export_pairs chosen up m <> None.
  Proof.
    induction m as [|[k v] m IH]; intros H; cbn; [discriminate|].
    destruct (export_pairs chosen up m) as [rest|] eqn:Er.
    - destruct (mem k chosen); [|discriminate].
      destruct (lookup up k) as [uv|] eqn:Eu; [|discriminate].
      specialize (H k v uv (or_introl eq_refl) Eu).
      destruct (val_diff v uv) as [[d|]|]; try discriminate. congruence.
    - exfalso. apply IH; auto. intros s v0 uv Hin. apply H. right; auto.
  Qed.
End ExportFacts.

(* determined values persist along a whole run *)
Lemma Run_dv_mono st work st' s b : Run st work st' -> dv st s = Some b -> dv st' s = Some b.
Proof. induction 1; auto. intros D. apply IHRun. eapply step_dv_mono; eauto. Qed.

Lemma build_pkg_work_mp st ts : mp (fst (build_pkg_work st ts)) = mp st.
Proof. reflexivity. Qed.

Section PackageExport.
  Variable exported : site -> bool.
  Variables (facts : list (nat * fact)) (annots : list (site * bool)) (ts : list trigger).

  (* the upstream snapshot and the final map of a package run *)
  Definition pkg_run_up (up : list (site * ival)) (st2 : state) : Prop :=
    exists st0 st1,
      Run init_state (upstream_items facts) st0 /\ up = mp st0 /\
      Run st0 (annot_items annots) st1 /\
      Run (fst (build_pkg_work st1 ts)) (snd (build_pkg_work st1 ts)) st2.

  Lemma pkg_run_up_run up st2 : pkg_run_up up st2 -> pkg_run facts annots ts st2.
  Proof. intros [st0 [st1 [RA [_ [RB RC]]]]]. exists st0, st1. auto. Qed.

  Lemma up_det_kept up st2 s e : pkg_run_up up st2 -> lookup up s = Some (Det e) ->
    exists e', lookup (mp st2) s = Some (Det e') /\ eval_expl e' = eval_expl e.
  Proof.
    intros [st0 [st1 [RA [-> [RB RC]]]]] Hl.
    assert (D0 : dv st0 s = Some (eval_expl e)) by (rewrite dv_lookup, Hl; auto).
    pose proof (Run_dv_mono _ _ _ _ _ RB D0) as D1.
    assert (D1' : dv (fst (build_pkg_work st1 ts)) s = Some (eval_expl e)) by (unfold dv in *; now rewrite build_pkg_work_mp).
    pose proof (Run_dv_mono _ _ _ _ _ RC D1') as D2.
    rewrite dv_lookup in D2. destruct (lookup (mp st2) s) as [[e'|i o]|]; try discriminate.
    exists e'. split; auto. now inversion D2.
  Qed.

  Lemma pkg_run_nodup up st2 : pkg_run_up up st2 -> NoDup (map fst (mp st2)).
  Proof.
    intros [st0 [st1 [RA [_ [RB RC]]]]].
    eapply Run_nodup; eauto. rewrite build_pkg_work_mp.
    eapply Run_nodup; eauto. eapply Run_nodup; eauto. constructor.
  Qed.

  (* Export never hits its "does not supersede" panic on the state a package run produces *)
  Theorem export_no_panic up st2 : pkg_run_up up st2 -> export exported up (mp st2) <> None.
  Proof.
    intros HR. unfold export. destruct (mp st2) as [|kv m] eqn:Em; [discriminate|]. rewrite <- Em.
    assert (HN : export_pairs (choose_sites_to_export exported (mp st2)) up (mp st2) <> None).
    { apply export_pairs_no_panic. intros s v uv Hin Hu.
      apply In_lookup_nodup in Hin; [|eapply pkg_run_nodup; eauto].
      destruct uv as [eo|oi oo].
      - destruct (up_det_kept _ _ _ _ HR Hu) as [e' [Hl Hev]].
        rewrite Hl in Hin. inversion Hin; subst v. cbn. rewrite Hev. rewrite Bool.eqb_reflx. discriminate.
      - destruct v as [en|ni no]; cbn; [discriminate|].
        destruct (edges_diff ni oi), (edges_diff no oo); discriminate. }
    destruct (export_pairs (choose_sites_to_export exported (mp st2)) up (mp st2)) as [[|]|]; congruence.
  Qed.
End PackageExport.

(* the increment contains nothing the dependencies already published *)
Lemma export_pairs_increment chosen up : forall m f,
  export_pairs chosen up m = Some f -> forall s d, In (s, d) f ->
  match lookup up s with
  | Some (Det _) => False
  | Some (Undet oi oo) =>
      match d with
      | Det _ => True
      | Undet di do => (forall x t, In (x, t) di -> lookup oi x = None) /\ (forall x t, In (x, t) do -> lookup oo x = None)
      end
  | None => True
  end.
Proof.
  induction m as [|[k v] m IH]; intros f Hf s d Hin; cbn in Hf.
  - inversion Hf; subst. destruct Hin.
  - destruct (export_pairs chosen up m) as [rest|] eqn:Er; [|discriminate].
    specialize (IH rest eq_refl).
    destruct (mem k chosen).
    + destruct (lookup up k) as [uv|] eqn:Eu.
      * destruct (val_diff v uv) as [[dd|]|] eqn:Ed; [| |discriminate]; inversion Hf; subst f; [|now apply IH].
        destruct Hin as [Hin|Hin]; [|now apply IH]. inversion Hin; subst k dd. rewrite Eu.
        destruct v as [en|ni no], uv as [eo|oi oo]; cbn in Ed.
        -- destruct (Bool.eqb _ _); discriminate.
        -- inversion Ed; subst; auto.
        -- discriminate.
        -- assert (Hd : d = Undet (edges_diff ni oi) (edges_diff no oo)).
           { destruct (edges_diff ni oi), (edges_diff no oo); inversion Ed; auto. }
           subst d. split; intros x t Hx; unfold edges_diff in Hx; apply filter_In in Hx; destruct Hx as [_ Hx];
             cbn in Hx; destruct (lookup _ x); auto; discriminate.
      * inversion Hf; subst f. destruct Hin as [Hin|Hin]; [|now apply IH]. inversion Hin; subst. now rewrite Eu.
    + inversion Hf; subst f. now apply IH.
Qed.

Section PackageExport2.
  Variable exported : site -> bool.
  Variables (facts : list (nat * fact)) (annots : list (site * bool)) (ts : list trigger).

  (* every verdict on an exported site is in the published increment or was already published upstream *)
  Theorem export_verdicts_kept up st2 fo s e :
    pkg_run_up facts annots ts up st2 -> export exported up (mp st2) = Some fo ->
    exported s = true -> lookup (mp st2) s = Some (Det e) ->
    (exists f e', fo = Some f /\ lookup f s = Some (Det e') /\ eval_expl e' = eval_expl e) \/
    (exists e', lookup up s = Some (Det e') /\ eval_expl e' = eval_expl e).
  Proof.
    intros HR He Hx Hl. unfold export in He.
    destruct (mp st2) as [|kv m] eqn:Em; [discriminate|]. rewrite <- Em in *.
    destruct (export_pairs (choose_sites_to_export exported (mp st2)) up (mp st2)) as [l|] eqn:Ep; [|discriminate].
    assert (Hc : In s (choose_sites_to_export exported (mp st2))).
    { apply choose_exported; auto. eapply lookup_In_fst; eauto. }
    destruct (export_pairs_det _ _ _ _ _ _ Ep Hl Hc) as [[e' [H1 H2]]|H]; auto.
    left. destruct l as [|x l]; [discriminate|]. inversion He; subst fo. eauto.
  Qed.

  Theorem export_increment up st2 f :
    export exported up (mp st2) = Some (Some f) -> forall s d, In (s, d) f ->
    match lookup up s with
    | Some (Det _) => False
    | Some (Undet oi oo) =>
        match d with
        | Det _ => True
        | Undet di do => (forall x t, In (x, t) di -> lookup oi x = None) /\ (forall x t, In (x, t) do -> lookup oo x = None)
        end
    | None => True
    end.
  Proof.
    unfold export. destruct (mp st2) as [|kv m] eqn:Em; [discriminate|]. rewrite <- Em.
    destruct (export_pairs (choose_sites_to_export exported (mp st2)) up (mp st2)) as [l|] eqn:Ep; [|discriminate].
    intros He. destruct l as [|x l]; inversion He; subst f. eapply export_pairs_increment; eauto.
  Qed.
End PackageExport2.
