(* The executable analyze_pkg is an instance of pkg_run; results do not depend on observation order. *)
From Coq Require Import List Bool Arith PeanoNat Lia Permutation.
From NM Require Import Engine EngineSpec.
From NP Require Import EngineBasics EngineStep EngineSound EngineComplete EngineMain.
Import ListNotations.

Lemma observe_package_run fuel st1 ts st2 :
  observe_package fuel st1 ts = Some st2 ->
  exists st2', Run (fst (build_pkg_work st1 ts)) (snd (build_pkg_work st1 ts)) st2' /\
               mp st2 = mp st2' /\ conflicts st2 = conflicts st2'.
Proof.
  unfold observe_package, build_pkg.
  destruct (build_pkg_work st1 ts) as [st1' w] eqn:E. cbn [fst snd].
  destruct (run fuel st1' w) as [sta|] eqn:R; [|discriminate].
  cbn. destruct fuel; cbn; intros H; inversion H; subst; exists sta; (split; [eapply run_Run; eauto | split; reflexivity]).
Qed.

Lemma analyze_pkg_run exported fuel facts annots ts r :
  analyze_pkg exported fuel facts annots ts = Finished r \/ analyze_pkg exported fuel facts annots ts = Panicked r ->
  exists st2, pkg_run facts annots ts st2 /\ r_conflicts r = conflicts st2 /\ r_map r = mp st2.
Proof.
  unfold analyze_pkg.
  destruct (run fuel init_state (upstream_items facts)) as [st0|] eqn:R0; [|intros [H|H]; discriminate].
  destruct (run fuel st0 (annot_items annots)) as [st1|] eqn:R1; [|intros [H|H]; discriminate].
  destruct (observe_package fuel st1 ts) as [st2|] eqn:R2; [|intros [H|H]; discriminate].
  destruct (observe_package_run _ _ _ _ R2) as [st2' [RC [Em Ec]]].
  intros H. exists st2'. split.
  - exists st0, st1. repeat split; auto; eapply run_Run; eauto.
  - destruct (export exported (mp st0) (mp st2)); destruct H as [H|H]; inversion H; subst; cbn; auto.
Qed.

(* ---- the specification only depends on which constraints are present ---- *)
Definition csys_equiv (C C' : csys) : Prop :=
  (forall a, In a (base C) <-> In a (base C')) /\ (forall ka, In ka (ctld C) <-> In ka (ctld C')).

Lemma nilr_equiv C C' s : csys_equiv C C' -> nilr C s -> nilr C' s.
Proof.
  intros [Hb Hk]. induction 1.
  - apply nr_src. now apply Hb.
  - apply nr_csrc with k; [now apply Hk | assumption].
  - apply nr_edge with p t; [now apply Hb | assumption].
  - apply nr_cedge with k p t; [now apply Hk | assumption | assumption].
Qed.
Lemma act_equiv C C' a : csys_equiv C C' -> act C a -> act C' a.
Proof.
  intros HE [H|[k [H1 H2]]]; [left; now apply HE | right; exists k; split; [now apply HE | eapply nilr_equiv; eauto]].
Qed.
Lemma nonr_equiv C C' s : csys_equiv C C' -> nonr C s -> nonr C' s.
Proof.
  intros HE. induction 1.
  - apply nn_snk. eapply act_equiv; eauto.
  - apply nn_edge with c t; [eapply act_equiv; eauto | assumption].
Qed.
Lemma csys_equiv_sym C C' : csys_equiv C C' -> csys_equiv C' C.
Proof. intros [H1 H2]. split; intros; symmetry; auto. Qed.
Lemma has_flow_equiv C C' : csys_equiv C C' -> has_flow C -> has_flow C'.
Proof.
  intros HE [[t H]|[s [H1 H2]]].
  - left. exists t. eapply act_equiv; eauto.
  - right. exists s. split; [eapply nilr_equiv | eapply nonr_equiv]; eauto.
Qed.

Lemma in_flat_map_ext {A B} (f : A -> list B) l l' y :
  (forall x, In x l <-> In x l') -> In y (flat_map f l) -> In y (flat_map f l').
Proof. intros H Hy. apply in_flat_map in Hy. destruct Hy as [x [Hx Hy]]. apply in_flat_map. exists x. split; auto. now apply H. Qed.

Lemma pkg_csys_perm facts facts' annots annots' ts ts' :
  Permutation facts facts' -> Permutation annots annots' -> Permutation ts ts' ->
  csys_equiv (pkg_csys facts annots ts) (pkg_csys facts' annots' ts').
Proof.
  intros Pf Pa Pt.
  assert (Hf : forall x, In x (map snd facts) <-> In x (map snd facts')).
  { intros x. split; apply Permutation_in; [|symmetry]; now apply Permutation_map. }
  assert (Ha : forall x, In x annots <-> In x annots') by (intros x; split; apply Permutation_in; [|symmetry]; auto).
  assert (Ht : forall x, In x ts <-> In x ts') by (intros x; split; apply Permutation_in; [|symmetry]; auto).
  assert (Hft : forall g x, In x (filter g ts) <-> In x (filter g ts')).
  { intros g x. rewrite !filter_In. now rewrite Ht. }
  split; cbn.
  - intros a. rewrite !in_app_iff. unfold atoms_of_annots. rewrite !in_map_iff.
    split; (intros [H|[[x [Hx H]]|H]]; [left|right; left|right; right]).
    + eapply in_flat_map_ext; eauto.
    + exists x. split; auto. now apply Ha.
    + eapply in_flat_map_ext; eauto.
    + eapply in_flat_map_ext; [|eauto]. intros; symmetry; auto.
    + exists x. split; auto. now apply Ha.
    + eapply in_flat_map_ext; [|eauto]. intros; symmetry; auto.
  - intros ka. split; apply in_flat_map_ext; auto. intros; symmetry; auto.
Qed.

Theorem engine_order_independent facts facts' annots annots' ts ts' st st' :
  Permutation facts facts' -> Permutation annots annots' -> Permutation ts ts' ->
  pkg_run facts annots ts st -> pkg_run facts' annots' ts' st' ->
  (conflicts st <> [] <-> conflicts st' <> []) /\
  (conflicts st = [] -> forall s, dv st s = dv st' s).
Proof.
  intros Pf Pa Pt R R'.
  pose proof (pkg_csys_perm _ _ _ _ _ _ Pf Pa Pt) as HE.
  pose proof (csys_equiv_sym _ _ HE) as HE'.
  pose proof (engine_conflict_iff_flow _ _ _ _ R) as I1.
  pose proof (engine_conflict_iff_flow _ _ _ _ R') as I2.
  split.
  - rewrite I1, I2. split; apply has_flow_equiv; auto.
  - intros Hc s.
    assert (NF : ~ has_flow (pkg_csys facts annots ts)) by (intros HF; apply I1 in HF; congruence).
    assert (NF' : ~ has_flow (pkg_csys facts' annots' ts')) by (intros HF; apply NF; eapply has_flow_equiv; eauto).
    destruct (engine_verdicts _ _ _ _ R NF s) as [T1 F1].
    destruct (engine_verdicts _ _ _ _ R' NF' s) as [T2 F2].
    destruct (dv st s) as [[|]|] eqn:D.
    + symmetry. apply T2. eapply nilr_equiv; eauto. now apply T1.
    + symmetry. apply F2. eapply nonr_equiv; eauto. now apply F1.
    + destruct (dv st' s) as [[|]|] eqn:D'; auto.
      * assert (H : None = Some true) by (apply T1; eapply nilr_equiv; eauto; now apply T2). congruence.
      * assert (H : None = Some false) by (apply F1; eapply nonr_equiv; eauto; now apply F2). congruence.
Qed.
