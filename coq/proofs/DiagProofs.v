(* Theorems about M2: sorting, nolint filtering, grouping. *)
From Coq Require Import List Bool Arith PeanoNat Lia Permutation.
From NM Require Import Diag.
Import ListNotations.

(* ---- key equality is decided correctly ---- *)
Lemma opt3_eqb_eq a b : opt3_eqb a b = true <-> a = b.
Proof.
  destruct a as [[[x y] z]|], b as [[[x' y'] z']|]; cbn; split; intros H; try discriminate; auto.
  - apply andb_true_iff in H. destruct H as [H H3]. apply andb_true_iff in H. destruct H as [H1 H2].
    apply Nat.eqb_eq in H1, H2, H3. now subst.
  - inversion H; subst. now rewrite !Nat.eqb_refl.
Qed.

Lemma nk_eqb_eq a b : nk_eqb a b = true <-> a = b.
Proof.
  destruct a as [[[[a1 a2] a3] a4] a5], b as [[[[b1 b2] b3] b4] b5]. cbn. split; intros H.
  - apply andb_true_iff in H. destruct H as [H H5]. apply andb_true_iff in H. destruct H as [H H4].
    apply andb_true_iff in H. destruct H as [H H3]. apply andb_true_iff in H. destruct H as [H1 H2].
    apply opt3_eqb_eq in H1, H4, H5. apply Nat.eqb_eq in H2, H3. now subst.
  - inversion H; subst. rewrite !Nat.eqb_refl.
    rewrite (proj2 (opt3_eqb_eq b1 b1) eq_refl), (proj2 (opt3_eqb_eq b4 b4) eq_refl), (proj2 (opt3_eqb_eq b5 b5) eq_refl). reflexivity.
Qed.

Lemma list_eqb_eq {A} (eqb : A -> A -> bool) (H : forall x y, eqb x y = true <-> x = y) l l' :
  list_eqb eqb l l' = true <-> l = l'.
Proof.
  revert l'. induction l as [|x l IH]; destruct l' as [|y l']; cbn; split; intros E; try discriminate; auto.
  - apply andb_true_iff in E. destruct E as [E1 E2]. apply H in E1. apply IH in E2. now subst.
  - inversion E; subst. apply andb_true_iff. split; [now apply H | now apply IH].
Qed.

Lemma optnat_eqb_eq a b : optnat_eqb a b = true <-> a = b.
Proof.
  destruct a, b; cbn; split; intros H; try discriminate; auto.
  - apply Nat.eqb_eq in H. now subst.
  - inversion H. apply Nat.eqb_refl.
Qed.

Lemma gkey_eqb_eq a b : gkey_eqb a b = true <-> a = b.
Proof.
  destruct a as [l|[[x y] z] r|f sr p c], b as [l'|[[x' y'] z'] r'|f' sr' p' c']; cbn; split; intros H; try discriminate.
  - apply (list_eqb_eq nk_eqb nk_eqb_eq) in H. now subst.
  - inversion H; subst. now apply (list_eqb_eq nk_eqb nk_eqb_eq).
  - apply andb_true_iff in H. destruct H as [H H4]. apply andb_true_iff in H. destruct H as [H H3].
    apply andb_true_iff in H. destruct H as [H1 H2]. apply Nat.eqb_eq in H1, H2, H3, H4. now subst.
  - inversion H; subst. now rewrite !Nat.eqb_refl.
  - apply andb_true_iff in H. destruct H as [H H4]. apply andb_true_iff in H. destruct H as [H H3].
    apply andb_true_iff in H. destruct H as [H1 H2].
    apply optnat_eqb_eq in H1. apply opt3_eqb_eq in H2. apply Nat.eqb_eq in H3, H4. now subst.
  - inversion H; subst. rewrite (proj2 (optnat_eqb_eq f' f') eq_refl), (proj2 (opt3_eqb_eq sr' sr') eq_refl), !Nat.eqb_refl. reflexivity.
Qed.

(* ---- grouping partitions its input ---- *)
Lemma add_to_group_members gs c :
  Permutation (flat_map members (add_to_group gs c)) (flat_map members gs ++ [c]).
Proof.
  induction gs as [|g gs IH]; cbn; auto.
  destruct (gkey_eqb (group_key (d_head g)) (group_key c)); cbn.
  - apply perm_skip.
    rewrite <- !app_assoc. apply Permutation_app_head. apply Permutation_app_comm.
  - apply perm_skip. rewrite <- app_assoc. apply Permutation_app_head. exact IH.
Qed.

Lemma fold_group_members cs : forall gs,
  Permutation (flat_map members (fold_left add_to_group cs gs)) (flat_map members gs ++ cs).
Proof.
  induction cs as [|c cs IH]; intros gs; cbn.
  - now rewrite app_nil_r.
  - eapply perm_trans; [apply IH|].
    eapply perm_trans; [apply Permutation_app_tail; apply add_to_group_members|].
    rewrite <- app_assoc. reflexivity.
Qed.

Theorem group_partition cs : Permutation (flat_map members (group_conflicts cs)) cs.
Proof. unfold group_conflicts. apply (fold_group_members cs []). Qed.

Lemma no_grouping_members cs : flat_map members (no_grouping cs) = cs.
Proof. induction cs as [|c cs IH]; cbn; auto. f_equal. exact IH. Qed.

(* members of a group share the head's key; heads have pairwise different keys *)
Definition group_ok (g : diag) : Prop := forall c, In c (d_similar g) -> group_key c = group_key (d_head g).

Lemma add_to_group_ok gs c : Forall group_ok gs -> Forall group_ok (add_to_group gs c).
Proof.
  induction gs as [|g gs IH]; intros H; cbn.
  - constructor; auto. intros x [].
  - inversion H as [|? ? Hg Hgs]; subst.
    destruct (gkey_eqb (group_key (d_head g)) (group_key c)) eqn:E.
    + constructor; auto. intros x Hx. cbn in *. apply in_app_or in Hx. destruct Hx as [Hx|[<-|[]]]; auto.
      symmetry. now apply gkey_eqb_eq.
    + constructor; auto.
Qed.

Theorem group_same_source cs : Forall group_ok (group_conflicts cs).
Proof.
  unfold group_conflicts. assert (H : Forall group_ok []) by constructor.
  revert H. generalize (@nil diag). induction cs as [|c cs IH]; intros gs H; cbn; auto.
  apply IH. now apply add_to_group_ok.
Qed.

Definition heads_distinct (gs : list diag) : Prop :=
  NoDup (map (fun g => group_key (d_head g)) gs).

Lemma add_to_group_heads gs c :
  map (fun g => group_key (d_head g)) (add_to_group gs c) =
  if existsb (fun g => gkey_eqb (group_key (d_head g)) (group_key c)) gs
  then map (fun g => group_key (d_head g)) gs
  else map (fun g => group_key (d_head g)) gs ++ [group_key c].
Proof.
  induction gs as [|g gs IH]; cbn; auto.
  destruct (gkey_eqb (group_key (d_head g)) (group_key c)) eqn:E; cbn; auto.
  rewrite IH. destruct (existsb _ gs); auto.
Qed.

Lemma add_to_group_distinct gs c : heads_distinct gs -> heads_distinct (add_to_group gs c).
Proof.
  unfold heads_distinct. intros H. rewrite add_to_group_heads.
  destruct (existsb (fun g => gkey_eqb (group_key (d_head g)) (group_key c)) gs) eqn:E; auto.
  assert (Hn : ~ In (group_key c) (map (fun g => group_key (d_head g)) gs)).
  { intros Hin. apply in_map_iff in Hin. destruct Hin as [g [Hk Hg]].
    assert (existsb (fun g => gkey_eqb (group_key (d_head g)) (group_key c)) gs = true).
    { apply existsb_exists. exists g. split; auto. now apply gkey_eqb_eq. }
    congruence. }
  clear E. induction (map (fun g => group_key (d_head g)) gs) as [|k l IH]; cbn.
  - repeat constructor; auto.
  - inversion H; subst. constructor.
    + intros Hin. apply in_app_or in Hin. destruct Hin as [Hin|[<-|[]]]; auto. apply Hn. left; auto.
    + apply IH; auto. intros Hin. apply Hn. right; auto.
Qed.

Theorem group_heads_distinct cs : heads_distinct (group_conflicts cs).
Proof.
  unfold group_conflicts. assert (H : heads_distinct []) by constructor.
  revert H. generalize (@nil diag). induction cs as [|c cs IH]; intros gs H; cbn; auto.
  apply IH. now apply add_to_group_distinct.
Qed.

(* ---- sorting and filtering ---- *)
Lemma insert_c_perm x l : Permutation (insert_c x l) (x :: l).
Proof.
  induction l as [|y l IH]; cbn; auto. destruct (conflict_leb x y); auto.
  eapply perm_trans; [apply perm_skip; apply IH | apply perm_swap].
Qed.
Lemma sort_conflicts_perm l : Permutation (sort_conflicts l) l.
Proof.
  induction l as [|x l IH]; cbn; auto.
  eapply perm_trans; [apply insert_c_perm | now apply perm_skip].
Qed.

Lemma filter_perm {A} (f : A -> bool) l l' : Permutation l l' -> Permutation (filter f l) (filter f l').
Proof.
  induction 1; cbn; auto.
  - destruct (f x); auto.
  - destruct (f x), (f y); auto. apply perm_swap.
  - eapply perm_trans; eauto.
Qed.

(* the conflicts that are shown (as a diagnostic position or in an "other places" list) are exactly the
   conflicts that are not suppressed -- for both values of the grouping flag *)
Theorem diagnostics_exact grouping rs et cs :
  Permutation (flat_map members (diagnostics grouping rs et cs))
              (filter (fun c => negb (suppressed rs et c)) cs).
Proof.
  unfold diagnostics. destruct grouping.
  - eapply perm_trans; [apply group_partition|]. apply filter_perm. apply sort_conflicts_perm.
  - rewrite no_grouping_members. apply filter_perm. apply sort_conflicts_perm.
Qed.

(* grouping on/off show the same conflicts *)
Theorem grouping_loses_nothing rs et cs :
  Permutation (flat_map members (diagnostics true rs et cs)) (map d_head (diagnostics false rs et cs)).
Proof.
  eapply perm_trans; [apply diagnostics_exact|]. symmetry.
  assert (H : map d_head (diagnostics false rs et cs) = flat_map members (diagnostics false rs et cs)).
  { unfold diagnostics. generalize (filter (fun c => negb (suppressed rs et c)) (sort_conflicts cs)).
    induction l; cbn; auto. f_equal. exact IHl. }
  rewrite H. apply diagnostics_exact.
Qed.

(* a nolint range removes exactly the conflicts reported on its lines, whatever else is present *)
Theorem nolint_exact grouping rs et cs c :
  In c (flat_map members (diagnostics grouping rs et cs)) <-> (In c cs /\ suppressed rs et c = false).
Proof.
  split.
  - intros H. apply (Permutation_in _ (diagnostics_exact grouping rs et cs)) in H.
    apply filter_In in H. destruct H as [H1 H2]. split; auto. now apply negb_true_iff.
  - intros [H1 H2]. apply (Permutation_in _ (Permutation_sym (diagnostics_exact grouping rs et cs))).
    apply filter_In. split; auto. now rewrite H2.
Qed.

Theorem count_matches_list d : shown_count d = length (shown_places d).
Proof. unfold shown_count, shown_places. now rewrite map_length. Qed.

(* grouped diagnostics: everyone in a group has the head's nil source, different diagnostics have different ones *)
Theorem diagnostics_groups rs et cs :
  Forall group_ok (diagnostics true rs et cs) /\ heads_distinct (diagnostics true rs et cs).
Proof. unfold diagnostics. split; [apply group_same_source | apply group_heads_distinct]. Qed.

(* non-vacuity: three conflicts with one nil source, a nolint range on the first one's line *)
Definition mkpos f l := {| p_file := f; p_line := l; p_col := 1; p_off := l * 10; p_valid := true |}.
Definition nopos := {| p_file := 0; p_line := 0; p_col := 0; p_off := 0; p_valid := false |}.
Definition src_node := {| n_ppos := mkpos 1 3; n_cpos := mkpos 1 3; n_prepr := 7; n_crepr := 8; n_site := mkpos 1 3 |}.
Definition use_node l := {| n_ppos := nopos; n_cpos := mkpos 1 l; n_prepr := 9; n_crepr := 10; n_site := nopos |}.
Definition ex_conflict i l := {| c_id := i; c_pos := mkpos 1 l; c_nil := [src_node]; c_nonnil := [use_node l]; c_func := None; c_test := false; c_src := nopos |}.
Definition ex_cs := [ex_conflict 1 10; ex_conflict 2 20; ex_conflict 3 30].
Example ex_nolint_first :
  map (fun d => (c_id (d_head d), map c_id (d_similar d))) (diagnostics true [{| r_file := 1; r_from := 10; r_to := 10 |}] false ex_cs)
  = [(2, [3])].
Proof. reflexivity. Qed.

(* ---- the key separates what the printed positions cannot (repairs of F56, F57) ---- *)
Lemma same_key_same_sites c c' : c_nil c <> [] -> group_key c = group_key c' ->
  map (fun n => pos_key (n_site n)) (c_nil c) = map (fun n => pos_key (n_site n)) (c_nil c').
Proof.
  intros NE H. unfold group_key in H.
  destruct (c_nil c) as [|n l] eqn:E; [congruence|].
  destruct (c_nil c') as [|n' l'] eqn:E'.
  - exfalso. destruct (c_nonnil c) as [|p0 r0]; destruct (c_nonnil c') as [|p [|q r]]; cbn in H; try discriminate;
      destruct (pos_key (n_ppos p)); discriminate.
  - assert (H' : map node_key (n :: l) = map node_key (n' :: l')) .
    { assert (KI : forall a b, KPath a = KPath b -> a = b) by (intros a b X; now injection X).
      destruct (c_nonnil c) as [|? [|? ?]], (c_nonnil c') as [|? [|? ?]]; cbv beta iota in H; exact (KI _ _ H). }
    clear - H'. revert H'. generalize (n :: l) (n' :: l'). clear.
    induction l as [|x l IH]; intros [|y l'] H; simpl in *; try discriminate; auto.
    assert (Hx : node_key x = node_key y) by congruence.
    assert (Hl : map node_key l = map node_key l') by congruence.
    f_equal; [unfold node_key in Hx; congruence|now apply IH].
Qed.

Lemma same_key_same_source c c' p p' : c_nil c = [] -> c_nonnil c = [p] -> pos_key (n_ppos p) = None ->
  c_nil c' = [] -> c_nonnil c' = [p'] -> group_key c = group_key c' -> pos_key (c_src c) = pos_key (c_src c').
Proof.
  intros E1 E2 E3 E1' E2' H. unfold group_key in H. rewrite E1, E2, E3, E1', E2' in H.
  destruct (pos_key (n_ppos p')); [discriminate|]. now injection H.
Qed.

Example lookalike_files_not_grouped :
  let n f := {| n_ppos := mkpos 2 3; n_cpos := mkpos 2 3; n_prepr := 7; n_crepr := 8; n_site := mkpos f 3 |} in
  let c i f l := {| c_id := i; c_pos := mkpos 1 l; c_nil := [n f]; c_nonnil := [use_node l]; c_func := None; c_test := false; c_src := nopos |} in
  gkey_eqb (group_key (c 1 2 10)) (group_key (c 2 3 11)) = false /\ gkey_eqb (group_key (c 1 2 10)) (group_key (c 3 2 12)) = true.
Proof. vm_compute. split; reflexivity. Qed.
