From Coq Require Import List Bool Arith PeanoNat Lia.
From NM Require Import Paths.
Import ListNotations.

(* relocation: only the parts below the common root matter *)
Lemma rel_common_root r c p : rel (r ++ c) (r ++ p) = rel c p.
Proof. induction r as [|x r IH]; cbn; auto. now rewrite Nat.eqb_refl. Qed.

Theorem rel_relocate r r' c p : rel (r ++ c) (r ++ p) = rel (r' ++ c) (r' ++ p).
Proof. now rewrite !rel_common_root. Qed.

(* the shape of a result: k times "..", then names; and the target can be rebuilt from it *)
Fixpoint ups (l : list rseg) : nat := match l with Up :: l' => S (ups l') | _ => 0 end.
Fixpoint names (l : list rseg) : list seg := match l with Up :: l' => names l' | Seg s :: l' => s :: names l' | [] => [] end.

Lemma ups_app_seg k (t : list seg) : ups (map (fun _ : seg => Up) k ++ map Seg t) = length k.
Proof. induction k; cbn; auto. destruct t; reflexivity. Qed.
Lemma names_app_seg k (t : list seg) : names (map (fun _ : seg => Up) k ++ map Seg t) = t.
Proof. induction k; cbn; auto. induction t; cbn; auto. now rewrite IHt. Qed.

Lemma rel_rebuild : forall base targ,
  targ = firstn (length base - ups (rel base targ)) base ++ names (rel base targ) /\ ups (rel base targ) <= length base.
Proof.
  induction base as [|b base IH]; intros targ.
  - assert (E : rel [] targ = map (fun _ : seg => Up) [] ++ map Seg targ) by (destruct targ; reflexivity).
    rewrite E, ups_app_seg, names_app_seg. cbn. split; auto.
  - destruct targ as [|t targ].
    + cbn [rel]. rewrite ups_app_seg, names_app_seg. rewrite Nat.sub_diag. cbn. split; auto.
    + cbn [rel]. destruct (Nat.eqb b t) eqn:E.
      * apply Nat.eqb_eq in E; subst t. destruct (IH targ) as [H1 H2]. split; [|cbn; lia].
        assert (El : length (b :: base) - ups (rel base targ) = S (length base - ups (rel base targ))) by (cbn [length]; lia).
        rewrite El. cbn [firstn app]. f_equal. exact H1.
      * rewrite ups_app_seg, names_app_seg. rewrite Nat.sub_diag. cbn. split; auto.
Qed.

(* for a fixed working directory, relativised names identify files: rel cwd is injective *)
Theorem rel_injective cwd t1 t2 : rel cwd t1 = rel cwd t2 -> t1 = t2.
Proof.
  intros H. destruct (rel_rebuild cwd t1) as [H1 _]. destruct (rel_rebuild cwd t2) as [H2 _].
  rewrite H1, H2, H. reflexivity.
Qed.

(* hence two working directories induce the same equalities between file names *)
Theorem rel_cwd_independent c1 c2 t1 t2 : rel c1 t1 = rel c1 t2 <-> rel c2 t1 = rel c2 t2.
Proof. split; intros H; apply rel_injective in H; now subst. Qed.

(* from the module root (or the same place below it) the name is the module-relative name, wherever the module is *)
Theorem rel_from_root r p : rel r (r ++ p) = map Seg p.
Proof. rewrite <- (app_nil_r r) at 1. rewrite rel_common_root. destruct p; reflexivity. Qed.

(* from an ancestor directory the name is the module-relative name behind a fixed prefix *)
Theorem rel_from_ancestor a m p : rel a (a ++ m ++ p) = map Seg (m ++ p).
Proof. apply rel_from_root. Qed.

Theorem rel_to_cwd_relative cwd l : rel_to_cwd cwd (Relp l) = Relp l.
Proof. reflexivity. Qed.

Lemma portion_short {A} (l : list A) occ : length l <= occ + 1 -> portion_after_sep l occ = l.
Proof. intros H. unfold portion_after_sep. replace (length l - (occ + 1)) with 0 by lia. reflexivity. Qed.

Lemma portion_length {A} (l : list A) occ : occ + 1 <= length l -> length (portion_after_sep l occ) = occ + 1.
Proof. intros H. unfold portion_after_sep. rewrite skipn_length. lia. Qed.

Lemma portion_suffix {A} (l : list A) occ : exists pre, l = pre ++ portion_after_sep l occ.
Proof. unfold portion_after_sep. exists (firstn (length l - (occ + 1)) l). now rewrite firstn_skipn. Qed.

(* printed (truncated) names do not depend on where the module lives either *)
Lemma skipn_app_length {A} (r p : list A) k : skipn (length r + k) (r ++ p) = skipn k p.
Proof. induction r as [|x r IH]; cbn; auto. Qed.

Theorem portion_relocate {A} (r r' p : list A) occ : occ + 1 <= length p ->
  portion_after_sep (r ++ p) occ = portion_after_sep (r' ++ p) occ.
Proof.
  intros H. unfold portion_after_sep. rewrite !app_length.
  replace (length r + length p - (occ + 1)) with (length r + (length p - (occ + 1))) by lia.
  replace (length r' + length p - (occ + 1)) with (length r' + (length p - (occ + 1))) by lia.
  now rewrite !skipn_app_length.
Qed.

Example rel_example : rel [1;2;3] [1;2;4;5] = [Up; Seg 4; Seg 5] /\ rel [1;2] [1;2] = [] /\ rel [1;2;3] [1] = [Up; Up].
Proof. repeat split. Qed.

(* ---- AbsFromCwd: the sort key of the diagnostics (finding F107) ---- *)
Lemma removelast_snoc {A} (l : list A) x : removelast (l ++ [x]) = l.
Proof. apply removelast_last. Qed.

Lemma join_ups (acc k : list seg) (r : list rseg) :
  join_clean (acc ++ k) (map (fun _ : seg => Up) k ++ r) = join_clean acc r.
Proof.
  revert acc r. induction k as [|x k IH] using rev_ind; intros acc r.
  - rewrite app_nil_r. reflexivity.
  - rewrite map_app. cbn [map]. rewrite <- app_assoc. cbn [app].
    (* one Up for x is consumed last: reorder *)
    assert (E : map (fun _ : seg => Up) k ++ Up :: r = Up :: map (fun _ : seg => Up) k ++ r).
    { clear. induction k as [|y k IHk]; cbn; [reflexivity|]. rewrite IHk. reflexivity. }
    rewrite E. cbn [join_clean]. rewrite app_assoc, removelast_snoc. apply IH.
Qed.

Lemma join_segs (acc t : list seg) : join_clean acc (map Seg t) = acc ++ t.
Proof.
  revert acc. induction t as [|s t IH]; intros acc; cbn [map join_clean].
  - rewrite app_nil_r. reflexivity.
  - rewrite IH, <- app_assoc. reflexivity.
Qed.

(* the round trip: whatever the working directory, the key of a file is its absolute name *)
Theorem abs_of_rel : forall cwd t, join_clean cwd (rel cwd t) = t.
Proof.
  assert (G : forall pre cwd t, join_clean (pre ++ cwd) (rel cwd t) = pre ++ t).
  { intros pre cwd. revert pre. induction cwd as [|b cwd IH]; intros pre t.
    - rewrite app_nil_r. replace (rel [] t) with (map Seg t) by (destruct t; reflexivity). apply join_segs.
    - destruct t as [|x t].
      + cbn [rel]. rewrite (join_ups pre (b :: cwd) (map Seg [])). cbn. rewrite app_nil_r. reflexivity.
      + cbn [rel]. destruct (Nat.eqb b x) eqn:E.
        * apply Nat.eqb_eq in E. subst x.
          replace (pre ++ b :: cwd) with ((pre ++ [b]) ++ cwd) by (rewrite <- app_assoc; reflexivity).
          rewrite IH, <- app_assoc. reflexivity.
        * rewrite (join_ups pre (b :: cwd) (map Seg (x :: t))). apply join_segs. }
  intros cwd t. exact (G [] cwd t).
Qed.

Theorem sort_key_cwd_independent : forall c1 c2 t,
  abs_from_cwd c1 (rel_to_cwd c1 (Abs t)) = abs_from_cwd c2 (rel_to_cwd c2 (Abs t)).
Proof. intros c1 c2 t. cbn [rel_to_cwd abs_from_cwd]. rewrite !abs_of_rel. reflexivity. Qed.

(* relocation: the order of two files of one module does not depend on where the module lives *)
Theorem lex_relocate : forall r p q, lex_leb (r ++ p) (r ++ q) = lex_leb p q.
Proof. induction r as [|x r IH]; intros p q; cbn [app lex_leb]; [reflexivity|]. rewrite Nat.eqb_refl. apply IH. Qed.

Example sort_key_example :
  abs_from_cwd [1; 2; 3] (rel_to_cwd [1; 2; 3] (Abs [1; 2; 4; 5])) = [1; 2; 4; 5] /\
  rel_to_cwd [1; 2; 3] (Abs [1; 2; 4; 5]) = Relp [Up; Seg 4; Seg 5].
Proof. split; reflexivity. Qed.
