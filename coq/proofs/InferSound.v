(* Soundness of the contract inference (model M10, coq/model/Infer.v):
   whenever the validated inference (infer_checked) says contract(nonnil -> nonnil), every execution of the abstract
   SSA function that reaches a `return r` with a non-nil contracted parameter returns a non-nil r.

   The semantics of the abstract SSA form is the one nilaway's own notion of nilness induces:
     - an environment gives every value "is nil now";
     - the constant nil is nil, allocations / addresses / closures / makes / append(x, e...) are non-nil, a wrapper
       (ChangeInterface, MakeInterface -- nilaway takes an interface holding a nil pointer for nil --, Slice, append(x),
       SliceToArrayPointer to a zero-length array) is nil exactly if its operand is, append(x, s...) is non-nil if x is,
       anything else (calls, loads, field reads, ...) can be either -- the environment is arbitrary there (envok);
       "wrapper in step with its operand" is exact for `semiplain` functions (operand computed in the same block, or
       never computed by an instruction), and otherwise an idealisation (see envok);
     - taking the edge p -> b out of `if x == y`: on the equal edge x and y are both nil or both non-nil (two nil values
       are equal, a nil value never equals a non-nil one); on the not-equal edge they are not both nil;
     - entering b, the phis of b take -- in parallel -- the values their operand on that edge had, the other
       instructions of b compute arbitrary new values (again within envok), every other value is unchanged.
   The theorem is by an inductive invariant over executions: in every reachable state (b, env) some table of block b
   holds of env.  The invariant is preserved because the final state of the work-list loop is a post-fixpoint
   (`stable`, a boolean the model evaluates: translation validation), and because learn / enter are sound
   (learn_sound, enter_sound).  Proving these two lemmas is what exposed findings F44 and F45. *)
From Coq Require Import List Bool Arith PeanoNat Lia.
From NM Require Import Infer.
Import ListNotations.

(* ---------- tables ---------- *)

Inductive sorted : table -> Prop :=
  | sorted_nil : sorted []
  | sorted_cons k v t : sorted t -> (forall k' v', In (k', v') t -> k < k') -> sorted ((k, v) :: t).

Lemma tget_in t k v : tget t k = Some v -> In (k, v) t.
Proof.
  induction t as [|[k0 v0] t IH]; simpl; [discriminate|].
  destruct (Nat.eqb_spec k0 k) as [->|N]; [intros [= ->]; now left|].
  destruct (Nat.ltb k k0); [discriminate|]. intros H; right; auto.
Qed.

Lemma in_tget t k v : sorted t -> In (k, v) t -> tget t k = Some v.
Proof.
  induction 1 as [|k0 v0 t S IH B]; simpl; [tauto|].
  intros [[= -> ->]|I].
  - now rewrite Nat.eqb_refl.
  - pose proof (B _ _ I) as L.
    destruct (Nat.eqb_spec k0 k) as [->|N]; [lia|].
    destruct (Nat.ltb_spec k k0); [lia|]. auto.
Qed.

Lemma tget_none t k v : sorted t -> tget t k = None -> ~ In (k, v) t.
Proof. intros S H I. rewrite (in_tget _ _ _ S I) in H. discriminate. Qed.

Lemma tset_spec t k v : sorted t ->
  sorted (tset t k v) /\
  forall k' v', In (k', v') (tset t k v) <-> (k' = k /\ v' = v) \/ (k' <> k /\ In (k', v') t).
Proof.
  induction 1 as [|k0 v0 t S [IS IM] B]; simpl.
  - split; [constructor; [constructor|simpl; tauto]|].
    intros k' v'; split; [intros [[= <- <-]|[]]; now left|intros [[-> ->]|[_ []]]; now left].
  - destruct (Nat.eqb_spec k0 k) as [->|N].
    + split; [constructor; auto|].
      intros k' v'; simpl; split.
      * intros [[= <- <-]|I]; [now left|]. right. split; [pose proof (B _ _ I); lia|now right].
      * intros [[-> ->]|[N [[= E _]|I]]]; [now left|congruence|now right].
    + destruct (Nat.ltb_spec k k0) as [L|L].
      * split.
        { constructor; [constructor; auto|].
          intros k' v' [[= <- <-]|I]; [lia|]. pose proof (B _ _ I); lia. }
        intros k' v'; simpl; split.
        { intros [[= <- <-]|[[= <- <-]|I]]; [now left| right; split; [lia|now left] |].
          right; split; [pose proof (B _ _ I); lia|now right]. }
        { intros [[-> ->]|[_ I]]; [now left|now right]. }
      * split.
        { constructor; auto. intros k' v' I. apply IM in I. destruct I as [[-> _]|[_ I]]; [lia|eauto]. }
        intros k' v'; simpl; split.
        { intros [[= <- <-]|I]; [right; split; [lia|now left]|].
          apply IM in I. destruct I as [E|[N' I]]; [now left|right; split; auto]. }
        { intros [[-> ->]|[N' [[= <- <-]|I]]]; [right; apply IM; now left|now left|right; apply IM; right; auto]. }
Qed.

Lemma tdel_spec t k : sorted t ->
  sorted (tdel t k) /\ forall k' v', In (k', v') (tdel t k) <-> (k' <> k /\ In (k', v') t).
Proof.
  induction 1 as [|k0 v0 t S [IS IM] B]; simpl.
  - split; [constructor|]. intros; tauto.
  - destruct (Nat.eqb_spec k0 k) as [->|N].
    + split; auto. intros k' v'; split.
      * intros I; split; [pose proof (B _ _ I); lia|now right].
      * intros [N [[= E _]|I]]; [congruence|auto].
    + split.
      * constructor; auto. intros k' v' I. apply IM in I. destruct I; eauto.
      * intros k' v'; simpl; split.
        { intros [[= <- <-]|I]; [split; [auto|now left]|]. apply IM in I. destruct I; split; auto. }
        { intros [N' [[= <- <-]|I]]; [now left|right; apply IM; auto]. }
Qed.

Lemma table_eqb_eq a b : table_eqb a b = true -> a = b.
Proof.
  revert b; induction a as [|[k v] a IH]; intros [|[k' v'] b]; simpl; try discriminate; auto.
  intros H. apply andb_prop in H; destruct H as [H H3]. apply andb_prop in H; destruct H as [H1 H2].
  apply Nat.eqb_eq in H1; subst. rewrite (IH _ H3).
  destruct v, v'; simpl in H2; try discriminate; reflexivity.
Qed.

(* ---------- environments ---------- *)

Definition env := nat -> bool.                       (* true = the value is nil now *)
Definition agrees (n : nn) (b : bool) : Prop :=
  match n with NNil => b = true | NNon => b = false | NUnk => True end.
Definition holds (t : table) (e : env) : Prop := forall k n, In (k, n) t -> agrees n (e k).

Lemma holds_nil e : holds [] e.
Proof. intros k n []. Qed.

Lemma holds_tset t k n e : sorted t -> holds t e -> agrees n (e k) -> holds (tset t k n) e.
Proof.
  intros S H A k' n' I. apply (proj2 (tset_spec t k n S)) in I.
  destruct I as [[-> ->]|[_ I]]; auto.
Qed.

Section Fn.
  Variable F : ifn.
  Hypothesis Hwf : wf_fn F = true.

  (* what every state of an execution satisfies: the intrinsic nilness of constants and allocations, and wrapper values
     in step with their operand (exact for `semiplain` functions, where the operand is computed in the same block or
     never; otherwise an idealisation that SSA dominance justifies: a wrapper is only used where it is in step) *)
  Definition envok (e : env) : Prop :=
    forall v, match kind_of F v with
              | IVNil => e v = true
              | IVNonNil => e v = false
              | IVChg x | IVMk x | IVSlice x | IVAppend1 x => e v = e x
              | IVS2AP x lenpos => if lenpos then e v = false else e v = e x
              | IVAppendN x lit => if lit then e v = false else (e x = false -> e v = false)
              | _ => True
              end.

  Lemma nilness_of_sound fuel : forall t e v, envok e -> holds t e -> agrees (nilness_of F fuel t v) (e v).
  Proof.
    induction fuel as [|f IH]; intros t e v E H; simpl; auto.
    assert (LK : agrees (match tget t v with Some x => x | None => NUnk end) (e v)).
    { destruct (tget t v) eqn:G; simpl; auto. apply tget_in in G. exact (H _ _ G). }
    pose proof (E v) as Ev.
    destruct (kind_of F v) as [| | | |x|x|x|x lp|x|x lit|edges|] eqn:K; simpl; auto;
      try (pose proof (IH t e x E H) as Ax; destruct (nilness_of F f t x); simpl in *; auto; congruence).
    - (* SliceToArrayPointer *)
      pose proof (IH t e x E H) as Ax. destruct lp.
      + destruct (nilness_of F f t x); simpl; auto.
      + destruct (nilness_of F f t x); simpl in *; auto; congruence.
    - (* append(x, ...) *)
      destruct lit; [exact Ev|].
      pose proof (IH t e x E H) as Ax. destruct (nilness_of F f t x); simpl in *; auto.
  Qed.

  Lemma nof_sound t e v : envok e -> holds t e -> agrees (nof F t v) (e v).
  Proof. apply nilness_of_sound. Qed.

  Lemma expand_sound fuel : forall t v n e, envok e -> sorted t -> holds t e -> agrees n (e v) ->
    sorted (expand F fuel t v n) /\ holds (expand F fuel t v n) e.
  Proof.
    induction fuel as [|f IH]; intros t v n e E S H A; simpl; auto.
    destruct (tget t v) eqn:G; auto.
    assert (S1 : sorted (tset t v n)) by now apply tset_spec.
    assert (H1 : holds (tset t v n) e) by now apply holds_tset.
    pose proof (E v) as Ev.
    destruct (kind_of F v) as [| | | |x|x|x|x lp|x|x lit|edges|] eqn:K; auto;
      apply IH; auto; rewrite <- Ev; exact A.
  Qed.

  Lemma exp_sorted t v n e : envok e -> sorted t -> holds t e -> agrees n (e v) -> sorted (exp F t v n).
  Proof. intros. now apply (expand_sound (nvals F) t v n e). Qed.

  Lemma exp_holds t v n e : envok e -> sorted t -> holds t e -> agrees n (e v) -> holds (exp F t v n) e.
  Proof. intros. now apply (expand_sound (nvals F) t v n e). Qed.

  Lemma add_all_sound l t e : sorted t -> holds t e -> holds l e ->
    sorted (add_all t l) /\ holds (add_all t l) e.
  Proof.
    unfold add_all. revert t; induction l as [|[k n] l IH]; simpl; intros t S H Hl; [auto|].
    apply IH.
    - now apply tset_spec.
    - apply holds_tset; auto. apply Hl; now left.
    - intros k' n' I; apply Hl; now right.
  Qed.

  Lemma kill_sound vs t : sorted t ->
    sorted (kill t vs) /\ forall k n, In (k, n) (kill t vs) <-> (~ In k vs /\ In (k, n) t).
  Proof.
    unfold kill. revert t; induction vs as [|v vs IH]; simpl; intros t S.
    - split; auto. intros; tauto.
    - destruct (tdel_spec t v S) as [S' M]. destruct (IH _ S') as [S'' M'']. split; auto.
      intros k n. rewrite M'', M. intuition.
  Qed.

  (* ---------- one edge ---------- *)

  Definition eq_succ (p : nat) (iseq : bool) :=
    if iseq then nth 0 (ib_succs (block F p)) 0 else nth 1 (ib_succs (block F p)) 0.
  Definition ne_succ (p : nat) (iseq : bool) :=
    if iseq then nth 1 (ib_succs (block F p)) 0 else nth 0 (ib_succs (block F p)) 0.

  (* what taking the edge p -> b says about the environment *)
  Definition edge_ok (p b : nat) (e : env) : Prop :=
    match ib_if (block F p) with
    | None => True
    | Some (iseq, x, y) =>
        (b = eq_succ p iseq /\ e x = e y) \/ (b = ne_succ p iseq /\ (e x = false \/ e y = false))
    end.

  Lemma block_wf p : wf_blk F (block F p) = true.
  Proof.
    unfold block. destruct (Nat.lt_ge_cases p (length (if_blocks F))) as [L|L].
    - unfold wf_fn in Hwf. rewrite forallb_forall in Hwf. apply Hwf. now apply nth_In.
    - rewrite nth_overflow by auto. reflexivity.
  Qed.

  Lemma succs_differ p iseq x y : ib_if (block F p) = Some (iseq, x, y) -> eq_succ p iseq <> ne_succ p iseq.
  Proof.
    intros I. pose proof (block_wf p) as W. unfold wf_blk in W. rewrite I in W.
    apply andb_prop in W; destruct W as [W _]. apply negb_true_iff, Nat.eqb_neq in W.
    unfold eq_succ, ne_succ; destruct iseq; congruence.
  Qed.

  Lemma learn_sound p b t e : envok e -> holds t e -> edge_ok p b e ->
    exists l, learn F b p t = Some l /\ sorted l /\ holds l e.
  Proof.
    intros E H Ed. unfold learn, edge_ok in *.
    destruct (ib_if (block F p)) as [[[iseq x] y]|] eqn:I; [|exists []; repeat split; [constructor|apply holds_nil]].
    pose proof (succs_differ _ _ _ _ I) as D.
    fold (eq_succ p iseq). fold (ne_succ p iseq).
    pose proof (nof_sound t e x E H) as Ax. pose proof (nof_sound t e y E H) as Ay.
    assert (One : forall v n, agrees n (e v) -> sorted (exp F [] v n) /\ holds (exp F [] v n) e).
    { intros v n A. apply (expand_sound (nvals F) [] v n e); auto using holds_nil. constructor. }
    assert (Nil : sorted [] /\ holds [] e) by (split; [constructor|apply holds_nil]).
    destruct Ed as [[-> Exy]|[-> Nb]].
    - (* the equal edge *)
      rewrite Nat.eqb_refl.
      destruct (nof F t x) eqn:Nx, (nof F t y) eqn:Ny; simpl in *;
        try (eexists; split; [reflexivity|]; first [exact Nil | apply One; simpl; congruence]);
        congruence.
    - (* the not-equal edge *)
      destruct (Nat.eqb_spec (ne_succ p iseq) (eq_succ p iseq)) as [Q|_]; [congruence|].
      rewrite Nat.eqb_refl.
      destruct (nof F t x) eqn:Nx, (nof F t y) eqn:Ny; simpl in *;
        try (eexists; split; [reflexivity|]; first [exact Nil | apply One; simpl; destruct Nb; congruence]);
        destruct Nb; congruence.
  Qed.

  (* entering b over its edge number idx *)
  Definition enters (b idx : nat) (e e' : env) : Prop :=
    (forall v, ~ In v (ib_phis (block F b)) -> ~ In v (ib_defs (block F b)) -> e' v = e v) /\
    (forall phi edges, In phi (ib_phis (block F b)) -> kind_of F phi = IVPhi edges -> e' phi = e (nth idx edges 0)) /\
    envok e'.

  Lemma enter_sound b idx t e e' : envok e -> sorted t -> holds t e -> enters b idx e e' ->
    sorted (enter F b idx t) /\ holds (enter F b idx t) e'.
  Proof.
    intros E S H (Fr & Ph & E'). unfold enter.
    destruct (kill_sound (ib_phis (block F b)) t S) as [S1 M1].
    destruct (kill_sound (ib_defs (block F b)) _ S1) as [S2 M2].
    set (t1 := kill (kill t (ib_phis (block F b))) (ib_defs (block F b))) in *.
    assert (H1 : holds t1 e').
    { intros k n I. apply M2 in I. destruct I as [Nd I]. apply M1 in I. destruct I as [Np I].
      rewrite (Fr _ Np Nd). exact (H _ _ I). }
    assert (C : forall pc, In pc (phi_cands F b idx t) -> agrees (snd pc) (e' (fst pc))).
    { intros pc I. unfold phi_cands in I. apply in_map_iff in I. destruct I as (phi & <- & I). simpl.
      destruct (kind_of F phi) eqn:K; simpl; auto.
      rewrite (Ph _ _ I K). now apply nof_sound. }
    revert C S2 H1. generalize (phi_cands F b idx t) t1. clear - E'.
    induction l as [|[phi n] l IH]; simpl; intros t1 C S H; [auto|].
    pose proof (C (phi, n) (or_introl eq_refl)) as A; simpl in A.
    apply IH.
    - intros pc I; apply C; now right.
    - destruct n; auto; eapply exp_sorted; eauto.
    - destruct n; auto; eapply exp_holds; eauto.
  Qed.

  (* ---------- executions ---------- *)

  Definition step (p : nat) (e : env) (b : nat) (e' : env) : Prop :=
    In b (ib_succs (block F p)) /\ edge_ok p b e /\
    exists idx, nth_error (ib_preds (block F b)) idx = Some p /\ enters b idx e e'.

  Inductive reach : nat -> env -> Prop :=
    | reach_entry e : envok e -> reach 0 e
    | reach_step p e b e' : reach p e -> step p e b e' -> reach b e'.

  Lemma reach_envok b e : reach b e -> envok e.
  Proof. destruct 1 as [e E|p e b e' _ (_ & _ & idx & _ & _ & _ & E)]; auto. Qed.

  (* the contracted parameter keeps the value it was called with *)
  Lemma reach_param b e : reach b e -> exists e0, envok e0 /\ e (if_param F) = e0 (if_param F).
  Proof.
    induction 1 as [e E|p e b e' R (e0 & E0 & IH) (_ & _ & idx & _ & Fr & _ & _)]; [exists e; auto|].
    exists e0; split; auto. rewrite <- IH.
    pose proof (block_wf b) as W. unfold wf_blk in W. apply andb_prop in W; destruct W as [_ W].
    apply negb_true_iff in W.
    assert (X : In (if_param F) (ib_phis (block F b) ++ ib_defs (block F b)) -> False).
    { intros I.
      assert (X : existsb (Nat.eqb (if_param F)) (ib_phis (block F b) ++ ib_defs (block F b)) = true).
      { apply existsb_exists. exists (if_param F); split; [exact I|apply Nat.eqb_refl]. }
      congruence. }
    apply Fr; intros I; apply X; apply in_or_app; tauto.
  Qed.

  (* ---------- the invariant ---------- *)

  (* the sets cover every reachable state *)
  Definition covers (sets0 : list (nat * list table)) : Prop :=
    forall b e, reach b e -> exists t, In t (tables_or_top sets0 b) /\ sorted t /\ holds t e.

  Lemma covers_nothing : covers [].
  Proof. intros b e _. exists []. split; [now left|split; [constructor|apply holds_nil]]. Qed.

  Lemma tables_or_top_set s b :
    (set_of s b = [] /\ tables_or_top (i_sets s) b = [[]]) \/
    (set_of s b <> [] /\ tables_or_top (i_sets s) b = set_of s b).
  Proof.
    unfold set_of, tables_or_top. destruct (aget (i_sets s) b) as [[|x l]|]; auto.
    right; split; [discriminate|reflexivity].
  Qed.

  Lemma forallb_idx_nth {A} (f : nat -> A -> bool) l i0 idx x :
    forallb_idx f i0 l = true -> nth_error l idx = Some x -> f (i0 + idx) x = true.
  Proof.
    revert i0 idx; induction l as [|y l IH]; intros i0 [|idx]; simpl; try discriminate.
    - intros H [= <-]. apply andb_prop in H. now rewrite Nat.add_0_r.
    - intros H N. apply andb_prop in H; destruct H as [_ H]. rewrite <- Nat.add_succ_comm. eauto.
  Qed.

  Definition Inv (s : ist) (b : nat) (e : env) : Prop :=
    is_seen s b = true /\ exists t, In t (tables_or_top (i_sets s) b) /\ sorted t /\ holds t e.

  Lemma stable_inv s : stable F s = true -> forall b e, reach b e -> Inv s b e.
  Proof.
    intros St. unfold stable in St.
    apply andb_prop in St; destruct St as [St Edges]. apply andb_prop in St; destruct St as [Seen0 Set0].
    induction 1 as [e E|p e b e' R [SeenP (t & It & St & Ht)] (Sc & Ed & idx & Pi & En)].
    - split; auto. exists []. split; [|split; [constructor|apply holds_nil]].
      destruct (tables_or_top_set s 0) as [[_ ->]|[N _]]; [now left|].
      destruct (set_of s 0); [congruence|discriminate].
    - rewrite forallb_forall in Edges.
      assert (Ip : In p (i_seen s)).
      { unfold is_seen in SeenP. apply existsb_exists in SeenP. destruct SeenP as (q & I & Q).
        apply Nat.eqb_eq in Q; now subst. }
      pose proof (Edges _ Ip) as Eb. rewrite forallb_forall in Eb. pose proof (Eb _ Sc) as Ebb.
      apply andb_prop in Ebb; destruct Ebb as [SeenB Idx]. split; auto.
      pose proof (forallb_idx_nth _ _ _ _ _ Idx Pi) as Q. simpl in Q. rewrite Nat.eqb_refl in Q.
      unfold stable_edge in Q. rewrite forallb_forall in Q. pose proof (Q _ It) as Qt.
      pose proof (reach_envok _ _ R) as E.
      destruct (learn_sound p b t e E Ht Ed) as (l & L & Sl & Hl). rewrite L in Qt.
      destruct (add_all_sound l t e St Ht Hl) as [Sa Ha].
      destruct (enter_sound b idx _ e e' E Sa Ha En) as [Se He].
      unfold covered in Qt.
      destruct (tables_or_top_set s b) as [[Z ->]|[N ->]].
      + exists []. split; [now left|split; [constructor|apply holds_nil]].
      + destruct (set_of s b) as [|x r] eqn:Sb; [congruence|].
        apply existsb_exists in Qt. destruct Qt as (t'' & I'' & Q'').
        apply table_eqb_eq in Q''. exists t''. subst t''. auto.
  Qed.

  Lemma stable_covers s : stable F s = true -> covers (i_sets s).
  Proof. intros St b e R. exact (proj2 (stable_inv s St b e R)). Qed.

  (* ---------- deriveContracts ---------- *)

  Lemma ret_blocks_in b r : ib_ret (block F b) = Some r -> In (b, r) (ret_blocks F).
  Proof.
    intros Rt. unfold ret_blocks. apply in_flat_map.
    assert (L : b < length (if_blocks F)).
    { destruct (Nat.lt_ge_cases b (length (if_blocks F))); auto.
      unfold block in Rt. rewrite nth_overflow in Rt by auto. discriminate. }
    exists (b, block F b). split.
    - unfold block.
      replace (b, nth b (if_blocks F) _) with
        (nth b (combine (seq 0 (length (if_blocks F))) (if_blocks F)) (0, {| ib_preds := []; ib_succs := []; ib_phis := []; ib_defs := []; ib_if := None; ib_ret := None |})).
      + apply nth_In. rewrite combine_length, seq_length. lia.
      + rewrite combine_nth by now rewrite seq_length. now rewrite seq_nth.
    - simpl. rewrite Rt. now left.
  Qed.

  Lemma derive_sound sets0 : covers sets0 -> derive F sets0 = true ->
    forall b e r, reach b e -> ib_ret (block F b) = Some r -> e (if_param F) = false -> e r = false.
  Proof.
    intros Cv D b e r R Rt Pn. unfold derive in D.
    destruct (existsb (counterex F) (ret_checks F sets0)) eqn:X; [discriminate|].
    destruct (Cv _ _ R) as (t & It & St & Ht).
    assert (Ic : In (nof F t (if_param F), nof F t r, r) (ret_checks F sets0)).
    { unfold ret_checks. apply in_flat_map. exists (b, r). split; [now apply ret_blocks_in|].
      simpl. apply in_map_iff. exists t; auto. }
    assert (Cx : counterex F (nof F t (if_param F), nof F t r, r) = false).
    { destruct (counterex F _) eqn:Cx; auto.
      assert (existsb (counterex F) (ret_checks F sets0) = true) by (apply existsb_exists; eauto). congruence. }
    pose proof (reach_envok _ _ R) as E.
    pose proof (nof_sound t e (if_param F) E Ht) as Ap. pose proof (nof_sound t e r E Ht) as Ar.
    unfold counterex in Cx.
    destruct (nof F t (if_param F)) eqn:Np, (nof F t r) eqn:Nr; simpl in *; try congruence.
    apply negb_false_iff, Nat.eqb_eq in Cx. now rewrite <- Cx.
  Qed.

  (* ---------- the theorem ---------- *)

  Theorem infer_checked_sound fuel : infer_checked F fuel = true ->
    forall b e r, reach b e -> ib_ret (block F b) = Some r -> e (if_param F) = false -> e r = false.
  Proof.
    unfold infer_checked. rewrite Hwf. simpl.
    destruct (derive F []) eqn:D0.
    - intros _. now apply derive_sound with (sets0 := []); [apply covers_nothing|].
    - destruct (loop F fuel _ _) as [| |s]; try discriminate.
      intros H. apply andb_prop in H; destruct H as [St D].
      apply derive_sound with (sets0 := i_sets s); auto using stable_covers.
  Qed.

  (* in terms of the argument the function was called with *)
  Corollary infer_checked_contract fuel : infer_checked F fuel = true ->
    forall b e r, reach b e -> ib_ret (block F b) = Some r ->
    exists e0, envok e0 /\ e (if_param F) = e0 (if_param F) /\ (e0 (if_param F) = false -> e r = false).
  Proof.
    intros H b e r R Rt. destruct (reach_param _ _ R) as (e0 & E0 & P). exists e0; repeat split; auto.
    intros N. apply (infer_checked_sound fuel H b e r R Rt). congruence.
  Qed.
End Fn.

(* the hypothesis wf_fn is part of infer_checked itself *)
Theorem infer_checked_is_sound F fuel : infer_checked F fuel = true ->
  forall b e r, reach F b e -> ib_ret (block F b) = Some r -> e (if_param F) = false -> e r = false.
Proof.
  intros H. assert (P : wf_fn F = true).
  { unfold infer_checked in H. destruct (wf_fn F); simpl in H; try discriminate; auto. }
  now apply infer_checked_sound with fuel.
Qed.

(* ---------- non-vacuity ---------- *)

Definition blk preds succs phis defs i r :=
  {| ib_preds := preds; ib_succs := succs; ib_phis := phis; ib_defs := defs; ib_if := i; ib_ret := r |}.

(* func f(p *T) *T { if p == nil { return nil }; return p } *)
Definition ex_guard : ifn :=
  {| if_param := 0; if_vals := [IVParam; IVNil];
     if_blocks := [blk [] [1; 2] [] [] (Some (true, 0, 1)) None; blk [0] [] [] [] None (Some 1); blk [0] [] [] [] None (Some 0)] |}.

(* func f(p *T) *T { a, b := new(T), new(T); if p == nil || a != b { return nil }; return p }   (finding F45) *)
Definition ex_distinct : ifn :=
  {| if_param := 0; if_vals := [IVParam; IVNil; IVNonNil; IVNonNil];
     if_blocks := [blk [] [1; 2] [] [2; 3] (Some (true, 0, 1)) None;
                   blk [0; 2] [] [] [] None (Some 1);
                   blk [0] [1; 3] [] [] (Some (false, 2, 3)) None;
                   blk [2] [] [] [] None (Some 0)] |}.

(* func f(p *T) *T { if p == nil { return nil }; r := p; for cond() { r = p }; return r }: a loop with a phi;
   v2 = phi [p, p], v3 = cond() *)
Definition ex_loop : ifn :=
  {| if_param := 0; if_vals := [IVParam; IVNil; IVPhi [0; 0]; IVOther];
     if_blocks := [blk [] [1; 2] [] [] (Some (true, 0, 1)) None;
                   blk [0] [] [] [] None (Some 1);
                   blk [0; 3] [3; 4] [2] [3] None None;
                   blk [2] [2] [] [] None None;
                   blk [2] [] [] [] None (Some 2)] |}.

(* func f(p *T) I { if p == nil { return nil }; return p }: the returned value is MakeInterface p *)
Definition ex_iface : ifn :=
  {| if_param := 0; if_vals := [IVParam; IVNil; IVMk 0];
     if_blocks := [blk [] [1; 2] [] [] (Some (true, 0, 1)) None; blk [0] [] [] [] None (Some 1); blk [0] [] [] [2] None (Some 2)] |}.

Example infer_wrapper_example :
  infer_checked ex_iface 100 = true /\ infer ex_iface 100 = IInferred /\ plain ex_iface = false /\ semiplain ex_iface = true.
Proof. vm_compute. repeat split. Qed.

Example infer_checked_examples :
  infer_checked ex_guard 100 = true /\ infer ex_guard 100 = IInferred /\
  infer_checked ex_loop 100 = true /\ infer ex_loop 100 = IInferred /\
  infer_checked ex_distinct 100 = false /\ infer ex_distinct 100 = INotInferred.
Proof. vm_compute. repeat split. Qed.

(* the semantics has the execution that refutes the contract the unrepaired code gave ex_distinct:
   p non-nil, a and b non-nil and different, the function returns the constant nil *)
Example distinct_returns_nil :
  exists b e r, reach ex_distinct b e /\ ib_ret (block ex_distinct b) = Some r /\ e (if_param ex_distinct) = false /\ e r = true.
Proof.
  set (e := fun v : nat => Nat.eqb v 1).
  assert (E : envok ex_distinct e) by (intros [|[|[|[|[|v]]]]]; vm_compute; auto).
  assert (En : forall b idx, enters ex_distinct b idx e e).
  { intros b idx; split; [auto|split; [|exact E]].
    intros phi edges I K. destruct b as [|[|[|[|b]]]]; simpl in I; try tauto. destruct b; simpl in I; tauto. }
  exists 1, e, 1. split; [|vm_compute; auto].
  apply reach_step with 2 e.
  - apply reach_step with 0 e; [now constructor|].
    split; [simpl; tauto|split; [|exists 0; split; [reflexivity|apply En]]].
    right; vm_compute; auto.
  - split; [simpl; tauto|split; [|exists 1; split; [reflexivity|apply En]]].
    right; vm_compute; auto.
Qed.

(* and ex_guard has an execution that reaches a return with a non-nil parameter: the theorem is not vacuous *)
Example guard_reaches_return :
  exists b e r, reach ex_guard b e /\ ib_ret (block ex_guard b) = Some r /\ e (if_param ex_guard) = false.
Proof.
  set (e := fun v : nat => Nat.eqb v 1).
  assert (E : envok ex_guard e) by (intros [|[|[|v]]]; vm_compute; auto).
  exists 2, e, 0. split; [|vm_compute; auto].
  apply reach_step with 0 e; [now constructor|].
  split; [simpl; tauto|split; [right; vm_compute; auto|exists 0; split; [reflexivity|]]].
  split; [auto|split; [|exact E]]. intros phi edges I; simpl in I; tauto.
Qed.
