(* M11 (model/Nonce.v): the guard-nonce set operations are the set operations. *)
From Coq Require Import List Bool Arith PeanoNat Lia.
From NM Require Import Nonce.
Import ListNotations.

Lemma contains_spec g n : ns_contains g n = true <-> In n g.
Proof.
  unfold ns_contains. rewrite existsb_exists. split.
  - intros (x & I & E). apply Nat.eqb_eq in E. now subst.
  - intros I. exists n. split; auto using Nat.eqb_refl.
Qed.

Lemma add1_spec g n x : In x (ns_add1 g n) <-> x = n \/ In x g.
Proof.
  unfold ns_add1. destruct (ns_contains g n) eqn:C.
  - apply contains_spec in C. split; [auto|intros [->|]; auto].
  - rewrite in_app_iff. simpl. intuition.
Qed.

Lemma add1_nodup g n : NoDup g -> NoDup (ns_add1 g n).
Proof.
  unfold ns_add1. destruct (ns_contains g n) eqn:C; auto. intros N.
  assert (~ In n g) by (intros I; apply contains_spec in I; congruence).
  clear C. induction N as [|y l Ny N IH]; simpl; [repeat constructor; auto|].
  constructor.
  - rewrite in_app_iff. simpl. intros [I|[<-|[]]]; [auto|apply H; now left].
  - apply IH. intros I. apply H. now right.
Qed.

Lemma add_spec ns : forall g x, In x (ns_add g ns) <-> In x ns \/ In x g.
Proof.
  unfold ns_add. induction ns as [|n ns IH]; intros g x; simpl; [tauto|].
  rewrite IH, add1_spec. intuition.
Qed.

Lemma add_nodup ns : forall g, NoDup g -> NoDup (ns_add g ns).
Proof. unfold ns_add. induction ns; simpl; auto using add1_nodup. Qed.

Lemma remove1_spec g n x : In x (ns_remove1 g n) <-> In x g /\ x <> n.
Proof.
  unfold ns_remove1. rewrite filter_In, negb_true_iff, Nat.eqb_neq. intuition.
Qed.

Lemma remove_spec ns : forall g x, In x (ns_remove g ns) <-> In x g /\ ~ In x ns.
Proof.
  unfold ns_remove. induction ns as [|n ns IH]; intros g x; simpl; [tauto|].
  rewrite IH, remove1_spec. intuition.
Qed.

Lemma remove_nodup ns : forall g, NoDup g -> NoDup (ns_remove g ns).
Proof. unfold ns_remove, ns_remove1. induction ns; simpl; auto using NoDup_filter. Qed.

Lemma subset_spec g o : ns_subset g o = true <-> forall x, In x g -> In x o.
Proof.
  unfold ns_subset. rewrite forallb_forall. split; intros H x I; [apply contains_spec|apply contains_spec]; auto.
Qed.

Lemma union_spec os : forall g x, In x (ns_union g os) <-> In x g \/ exists o, In o os /\ In x o.
Proof.
  unfold ns_union. intros g x.
  assert (G : forall os acc, In x (fold_left ns_add os acc) <-> In x acc \/ exists o, In o os /\ In x o).
  { clear. induction os as [|o os IH]; intros acc; simpl.
    - split; [auto|intros [|(o & [] & _)]; auto].
    - rewrite IH, add_spec. split.
      + intros [[I|I]|(o' & I & J)]; eauto.
      + intros [I|(o' & [<-|I] & J)]; eauto. }
  rewrite G, add_spec. simpl. tauto.
Qed.

Lemma union_nodup os g : NoDup (ns_union g os).
Proof.
  unfold ns_union.
  assert (G : forall os acc, NoDup acc -> NoDup (fold_left ns_add os acc)).
  { clear. induction os; simpl; auto using add_nodup. }
  apply G, add_nodup. constructor.
Qed.

Lemma inter_spec g os x : In x (ns_inter g os) <-> In x g /\ forall o, In o os -> In x o.
Proof.
  unfold ns_inter. rewrite filter_In, andb_true_iff, forallb_forall, contains_spec, union_spec.
  split.
  - intros (_ & I & H). split; auto. intros o Io. apply contains_spec. auto.
  - intros (I & H). repeat split; auto. intros o Io. apply contains_spec. auto.
Qed.

Lemma inter_nodup g os : NoDup (ns_inter g os).
Proof. unfold ns_inter. apply NoDup_filter, union_nodup. Qed.

Lemma eq_spec g o : ns_eq g o = true <-> forall x, In x g <-> In x o.
Proof.
  unfold ns_eq. rewrite andb_true_iff, !subset_spec. split.
  - intros [A B] x. split; auto.
  - intros H. split; intros x I; apply H; auto.
Qed.

Lemma copy_spec g x : In x (ns_copy g) <-> In x g.
Proof.
  unfold ns_copy. rewrite union_spec. split; [intros [|(o & [<-|[]] & [])]; auto|auto].
Qed.

(* Eq is an equivalence that every query respects *)
Lemma eq_refl_ns g : ns_eq g g = true.
Proof. apply eq_spec. tauto. Qed.
Lemma eq_sym_ns g o : ns_eq g o = ns_eq o g.
Proof. unfold ns_eq. apply andb_comm. Qed.
Lemma eq_trans_ns a b c : ns_eq a b = true -> ns_eq b c = true -> ns_eq a c = true.
Proof. rewrite !eq_spec. intros H1 H2 x. rewrite H1. apply H2. Qed.
Lemma eq_contains g o n : ns_eq g o = true -> ns_contains g n = ns_contains o n.
Proof.
  rewrite eq_spec. intros H. destruct (ns_contains g n) eqn:A, (ns_contains o n) eqn:B; auto.
  - apply contains_spec, H, contains_spec in A. congruence.
  - apply contains_spec, H, contains_spec in B. congruence.
Qed.

(* a strictly smaller set is not equal: losing a guard is a change the fixpoint iteration sees *)
Lemma eq_detects_loss g n : In n g -> ns_eq (ns_remove g [n]) g = false.
Proof.
  intros I. destruct (ns_eq (ns_remove g [n]) g) eqn:E; auto.
  rewrite eq_spec in E. apply E in I. apply remove_spec in I. simpl in I. tauto.
Qed.

Example nonce_example :
  nrun [[]; []; []] [OAdd 0 [1; 2; 3]; OAdd 1 [2; 3; 4]; OInter 2 0 [1]; OEq 2 0; OSubset 2 0; ORemove 0 [1]; OEq 2 0; OContains 1 4]
  = ([[2; 3]; [2; 3; 4]; [2; 3]], [false; true; true; true]).
Proof. reflexivity. Qed.
