(* C03 / C06 at engine level, soundness half: the fact a package publishes is a sound summary of its constraints --
   an importer working from facts never invents a flow that whole-graph analysis would not find. *)
From Coq Require Import List Bool Arith PeanoNat Lia.
From NM Require Import Engine EngineSpec.
From NP Require Import EngineBasics EngineStep EngineSound EngineComplete EngineMain ExportProofs.
Import ListNotations.

Definition csys_union (C D : csys) : csys := {| base := base C ++ base D; ctld := ctld C ++ ctld D |}.

(* an atom that the constraint system C entails *)
Definition derivable (C : csys) (a : atom) : Prop :=
  match a with
  | ASrc s => nilr C s
  | ASnk s => nonr C s
  | AEdge p c t => act C (AEdge p c t)
  | ADirect t => act C (ADirect t)
  end.

Lemma nilr_union_l C D s : nilr C s -> nilr (csys_union C D) s.
Proof.
  induction 1.
  - apply nr_src. cbn. apply in_or_app; auto.
  - apply nr_csrc with k; auto. cbn. apply in_or_app; auto.
  - apply nr_edge with p t; auto. cbn. apply in_or_app; auto.
  - apply nr_cedge with k p t; auto. cbn. apply in_or_app; auto.
Qed.
Lemma act_union_l C D a : act C a -> act (csys_union C D) a.
Proof.
  intros [H|[k [H1 H2]]]; [left; cbn; apply in_or_app; auto|].
  right. exists k. split; [cbn; apply in_or_app; auto | now apply nilr_union_l].
Qed.
Lemma nonr_union_l C D s : nonr C s -> nonr (csys_union C D) s.
Proof.
  induction 1.
  - apply nn_snk. now apply act_union_l.
  - apply nn_edge with c t; auto. now apply act_union_l.
Qed.

Section Summary.
  Variables (C1 : csys) (E : list atom) (D : csys).
  Hypothesis HE : forall a, In a E -> derivable C1 a.

  (* the importer's system: the summary atoms plus its own constraints *)
  Definition CE : csys := {| base := E ++ base D; ctld := ctld D |}.
  Definition CW : csys := csys_union C1 D.      (* whole-graph system *)

  Lemma nilr_D_r s : nilr {| base := base D; ctld := ctld D |} s -> nilr CW s.
  Proof.
    induction 1.
    - apply nr_src. cbn. apply in_or_app; auto.
    - apply nr_csrc with k; auto. cbn. apply in_or_app; auto.
    - apply nr_edge with p t; auto. cbn. apply in_or_app; auto.
    - apply nr_cedge with k p t; auto. cbn. apply in_or_app; auto.
  Qed.

  Lemma edge_nilr_CW p c t : act CW (AEdge p c t) -> nilr CW p -> nilr CW c.
  Proof. intros [H|[k [H1 H2]]] Hp; [eapply nr_edge; eauto | eapply nr_cedge; eauto]. Qed.

  Lemma summary_nilr s : nilr CE s -> nilr CW s.
  Proof.
    induction 1 as [s Hin | k s Hin Hk IH | p c t Hin Hp IH | k p c t Hin Hk IHk Hp IHp].
    - cbn in Hin. apply in_app_or in Hin. destruct Hin as [Hin|Hin].
      + apply nilr_union_l. exact (HE _ Hin).
      + apply nr_src. cbn. apply in_or_app; auto.
    - apply nr_csrc with k; auto. cbn in *. apply in_or_app; auto.
    - cbn in Hin. apply in_app_or in Hin. destruct Hin as [Hin|Hin].
      + apply edge_nilr_CW with p t; auto. apply act_union_l. exact (HE _ Hin).
      + apply nr_edge with p t; auto. cbn. apply in_or_app; auto.
    - apply nr_cedge with k p t; auto. cbn in *. apply in_or_app; auto.
  Qed.

  Lemma summary_act a : act CE a -> (In a E /\ derivable C1 a) \/ act CW a.
  Proof.
    intros [Hin|[k [Hin Hk]]].
    - cbn in Hin. apply in_app_or in Hin. destruct Hin as [Hin|Hin]; [left; auto|].
      right. left. cbn. apply in_or_app; auto.
    - right. right. exists k. split; [cbn in *; apply in_or_app; auto | now apply summary_nilr].
  Qed.

  Lemma summary_nonr s : nonr CE s -> nonr CW s.
  Proof.
    induction 1 as [s Ha | p c t Ha Hc IH].
    - destruct (summary_act _ Ha) as [[Hin Hd]|Ha']; [now apply nonr_union_l | now apply nn_snk].
    - destruct (summary_act _ Ha) as [[Hin Hd]|Ha'].
      + apply nn_edge with c t; auto. now apply act_union_l.
      + apply nn_edge with c t; auto.
  Qed.

  Theorem summary_sound : has_flow CE -> has_flow CW.
  Proof.
    intros [[t Ha]|[s [H1 H2]]].
    - destruct (summary_act _ Ha) as [[Hin Hd]|Ha']; left; exists t; auto. now apply act_union_l.
    - right. exists s. split; [now apply summary_nilr | now apply summary_nonr].
  Qed.
End Summary.

(* ---- the fact exported by a package run consists of derivable atoms ---- *)
Lemma export_pairs_sub chosen up : forall m f s v,
  export_pairs chosen up m = Some f -> In (s, v) f ->
  exists v0, In (s, v0) m /\
    match v, v0 with
    | Det e, Det e0 => e = e0
    | Undet di do, Undet i o => (forall x, In x di -> In x i) /\ (forall x, In x do -> In x o)
    | _, _ => False
    end.
Proof.
  induction m as [|[k v0] m IH]; intros f s v Hf Hin; cbn in Hf.
  - inversion Hf; subst. destruct Hin.
  - destruct (export_pairs chosen up m) as [rest|] eqn:Er; [|discriminate].
    assert (Hrest : In (s, v) rest -> exists v1, In (s, v1) ((k, v0) :: m) /\
      match v, v1 with
      | Det e, Det e0 => e = e0
      | Undet di do, Undet i o => (forall x, In x di -> In x i) /\ (forall x, In x do -> In x o)
      | _, _ => False end).
    { intros H. destruct (IH rest s v eq_refl H) as [v1 [H1 H2]]. exists v1. split; [right; auto|auto]. }
    destruct (mem k chosen); [|inversion Hf; subst; auto].
    destruct (lookup up k) as [uv|] eqn:Eu.
    + destruct (val_diff v0 uv) as [[d|]|] eqn:Ed; [| |discriminate]; inversion Hf; subst f; auto.
      destruct Hin as [Hin|Hin]; auto. inversion Hin; subst k d.
      exists v0. split; [left; auto|].
      destruct v0 as [en|ni no], uv as [eo|oi oo]; cbn in Ed.
      * destruct (Bool.eqb _ _); discriminate.
      * inversion Ed; subst. reflexivity.
      * discriminate.
      * assert (Hv : v = Undet (edges_diff ni oi) (edges_diff no oo)) by (destruct (edges_diff ni oi), (edges_diff no oo); inversion Ed; auto).
        subst v. split; intros x Hx; unfold edges_diff in Hx; apply filter_In in Hx; tauto.
    + inversion Hf; subst f. destruct Hin as [Hin|Hin]; auto. inversion Hin; subst.
      exists v. split; [left; auto|]. destruct v; auto.
Qed.

Section Modular.
  Variable exported : site -> bool.
  Variables (facts : list (nat * fact)) (annots : list (site * bool)) (ts : list trigger).
  Let C1 := pkg_csys facts annots ts.

  Theorem exported_fact_derivable up st f :
    pkg_run_up facts annots ts up st -> export exported up (mp st) = Some (Some f) ->
    forall a, In a (atoms_of_fact f) -> derivable C1 a.
  Proof.
    intros HR He a Ha.
    pose proof (pkg_J _ _ _ _ (pkg_run_up_run _ _ _ _ _ HR)) as HJ. fold C1 in HJ.
    pose proof (pkg_run_nodup _ _ _ _ _ HR) as Hnd.
    unfold export in He. destruct (mp st) as [|kv m] eqn:Em; [discriminate|]. rewrite <- Em in *.
    destruct (export_pairs (choose_sites_to_export exported (mp st)) up (mp st)) as [l|] eqn:Ep; [|discriminate].
    assert (l = f) by (destruct l; inversion He; auto). subst l.
    unfold atoms_of_fact in Ha. apply in_flat_map in Ha. destruct Ha as [[s v] [Hsv Ha]].
    destruct (export_pairs_sub _ _ _ _ _ _ Ep Hsv) as [v0 [Hin0 Hrel]].
    apply In_lookup_nodup in Hin0; auto.
    destruct v as [e|di do], v0 as [e0|i o]; try contradiction; cbn in Ha.
    - subst e0. assert (Hd : det_l (mp st) s = Some e) by (unfold det_l; now rewrite Hin0).
      pose proof (just_reach _ _ _ (J1 _ _ _ HJ _ _ Hd)) as R.
      destruct (eval_expl e); destruct Ha as [<-|[]]; exact R.
    - destruct Hrel as [Hi Ho]. apply in_app_or in Ha. destruct Ha as [Ha|Ha]; apply in_map_iff in Ha; destruct Ha as [[x tx] [<- Hx]]; cbn.
      + apply (J5o _ _ _ HJ). unfold outs_l. rewrite Hin0. now apply Ho.
      + apply (J5i _ _ _ HJ). unfold ins_l. rewrite Hin0. now apply Hi.
  Qed.

  (* modular analysis never invents a flow: a flow the importer derives from this package's fact plus anything
     else it knows (D: other facts, its annotations and triggers) is a flow of this package's whole constraint
     graph combined with D *)
  Theorem modular_sound up st f D :
    pkg_run_up facts annots ts up st -> export exported up (mp st) = Some (Some f) ->
    has_flow (CE (atoms_of_fact f) D) -> has_flow (CW C1 D).
  Proof.
    intros HR He. apply summary_sound. eapply exported_fact_derivable; eauto.
  Qed.
End Modular.
