(* ObservePackage observes a package's triggers in two batches (all but the error-return dependent ones, then those).
   With the table of controlled triggers accumulating over the batches, the two-batch run is as good as observing all
   triggers at once: a conflict is reported iff the whole trigger set has a flow, and the verdicts are the reachable
   sets.  With the table replaced by the second batch's (the behaviour before the repair of finding F28) this is false. *)
From Coq Require Import List Bool Arith PeanoNat Lia.
From NM Require Import Engine EngineSpec.
From NP Require Import EngineBasics EngineStep EngineSound EngineComplete EngineMain.
Import ListNotations.

(* ---------- the invariants are monotone in the constraint system ---------- *)
Section Mono.
  Variables C C' : csys.
  Hypothesis Hb : forall a, In a (base C) -> In a (base C').
  Hypothesis Hk : forall ka, In ka (ctld C) -> In ka (ctld C').

  Lemma nilr_mono2 s : nilr C s -> nilr C' s.
  Proof.
    induction 1.
    - apply nr_src; auto.
    - apply nr_csrc with k; auto.
    - apply nr_edge with p t; auto.
    - apply nr_cedge with k p t; auto.
  Qed.
  Lemma act_mono2 a : act C a -> act C' a.
  Proof. intros [H|[k [H1 H2]]]; [left; auto | right; exists k; split; auto; now apply nilr_mono2]. Qed.
  Lemma just_mono s e : just C s e -> just C' s e.
  Proof.
    induction 1.
    - apply j_leaf. now apply act_mono2.
    - eapply j_deep_t; eauto. now apply act_mono2.
    - eapply j_deep_f; eauto. now apply act_mono2.
  Qed.
  Lemma conflict_ok_mono c : conflict_ok C c -> conflict_ok C' c.
  Proof.
    destruct c as [t|et ef]; cbn.
    - apply act_mono2.
    - intros [s [H1 [H2 [H3 H4]]]]. exists s. repeat split; auto; now apply just_mono.
  Qed.
  Lemma J_mono st w : J C st w -> J C' st w.
  Proof.
    intros [H1 H2 H3 H4 H5o H5i H6 H7]. constructor.
    - intros s e H. apply just_mono. auto.
    - intros s e H. apply just_mono. auto.
    - intros t a H Ha. apply act_mono2. eauto.
    - intros p c t H. apply act_mono2. auto.
    - intros s o t H. apply act_mono2. auto.
    - intros s i t H. apply act_mono2. auto.
    - intros t a H Ha. destruct (H6 t a H Ha) as [k [Hk1 Hk2]]. exists k. split; auto.
    - intros c H. apply conflict_ok_mono. auto.
  Qed.
End Mono.

(* ---------- what the work of a further batch consists of ---------- *)
Lemma more_work_items st ts it :
  In it (snd (build_pkg_more_work st ts)) ->
  exists t, it = ITrig t /\
    ((In t ts /\ controlled t = false) \/
     (exists k, In t (ctl st ++ filter controlled ts) /\ t_ctrl t = Some k /\ dv st k = Some true)).
Proof.
  cbn. intros H. apply in_app_or in H. destruct H as [H|H].
  - apply in_flat_map in H. destruct H as [k [Hk H]]. apply filter_In in Hk. destruct Hk as [_ Hk].
    apply in_map_iff in H. destruct H as [t [<- Ht]]. unfold controlled_by in Ht.
    apply filter_In in Ht. destruct Ht as [Ht Hc].
    exists t. split; auto. right. exists k. unfold ctrl_is in Hc.
    destruct (t_ctrl t) as [k'|]; [|discriminate]. apply Nat.eqb_eq in Hc. subst. repeat split; auto.
    now apply is_det_true_dv.
  - apply in_map_iff in H. destruct H as [t [<- Ht]]. apply filter_In in Ht. destruct Ht as [Ht Hc].
    exists t. split; auto. left. split; auto. now apply negb_true_iff in Hc.
Qed.

Lemma more_work_uncontrolled st ts t :
  In t ts -> controlled t = false -> In (ITrig t) (snd (build_pkg_more_work st ts)).
Proof.
  intros Ht Hc. cbn. apply in_or_app. right. apply in_map. apply filter_In. split; auto. now rewrite Hc.
Qed.

Lemma more_work_activated st ts t k :
  In t ts -> t_ctrl t = Some k -> dv st k = Some true -> In (ITrig t) (snd (build_pkg_more_work st ts)).
Proof.
  intros Ht Hk Hd. cbn. apply in_or_app. left. apply in_flat_map. exists k. split.
  - apply filter_In. split; [|now apply is_det_true_dv].
    assert (Hin : In k (ctrl_sites ts)).
    { unfold ctrl_sites. apply in_flat_map. exists t. split; auto. rewrite Hk. left; reflexivity. }
    destruct (dedup_In _ [] _ Hin) as [H|[]]; auto.
  - apply in_map. unfold controlled_by. apply filter_In. split.
    + apply in_or_app. right. apply filter_In. split; auto. unfold controlled. now rewrite Hk.
    + unfold ctrl_is. rewrite Hk. apply Nat.eqb_refl.
Qed.

Lemma csys_of_app_ts_base fs an t1 t2 a :
  In a (base (csys_of fs an (t1 ++ t2))) <->
  In a (base (csys_of fs an t1)) \/ In a (flat_map atoms_of_trigger (filter (fun t => negb (controlled t)) t2)).
Proof. unfold csys_of; cbn. rewrite filter_app, flat_map_app, !in_app_iff. tauto. Qed.
Lemma csys_of_app_ts_ctld fs an t1 t2 ka :
  In ka (ctld (csys_of fs an (t1 ++ t2))) <-> In ka (ctld (csys_of fs an t1)) \/ In ka (ctld (csys_of fs an t2)).
Proof. unfold csys_of; cbn. rewrite flat_map_app, in_app_iff. tauto. Qed.

Section TwoPass.
  Variables (facts : list (nat * fact)) (annots : list (site * bool)) (ts1 ts2 : list trigger).
  Let C1 := pkg_csys facts annots ts1.
  Let C := pkg_csys facts annots (ts1 ++ ts2).

  (* a package run in two batches *)
  Definition pkg_run2 (st3 : state) : Prop :=
    exists st2, pkg_run facts annots ts1 st2 /\
      Run (fst (build_pkg_more_work st2 ts2)) (snd (build_pkg_more_work st2 ts2)) st3.

  Lemma C_base a : In a (base C) <->
    In a (base C1) \/ In a (flat_map atoms_of_trigger (filter (fun t => negb (controlled t)) ts2)).
  Proof. unfold C, C1, pkg_csys. apply csys_of_app_ts_base. Qed.
  Lemma C_ctld ka : In ka (ctld C) <-> In ka (ctld C1) \/ In ka (ctld (csys_of (map snd facts) annots ts2)).
  Proof. unfold C, C1, pkg_csys. apply csys_of_app_ts_ctld. Qed.
  Lemma C1_sub_b a : In a (base C1) -> In a (base C).
  Proof. intros H. apply C_base. auto. Qed.
  Lemma C1_sub_k ka : In ka (ctld C1) -> In ka (ctld C).
  Proof. intros H. apply C_ctld. auto. Qed.

  Lemma pkg_run_ctl st2 : pkg_run facts annots ts1 st2 -> ctl st2 = filter controlled ts1.
  Proof.
    intros [st0 [st1 [RA [RB RC]]]]. rewrite (Run_ctl _ _ _ RC). reflexivity.
  Qed.

  Lemma ctld_ts2_inv k a : In (k, a) (ctld (csys_of (map snd facts) annots ts2)) ->
    exists t, In t ts2 /\ t_ctrl t = Some k /\ In a (atoms_of_trigger t).
  Proof. apply (ctld_inv facts annots ts2). Qed.

  Theorem pkg2_J st3 : pkg_run2 st3 -> J C st3 [].
  Proof.
    intros [st2 [R12 R3]].
    pose proof (pkg_J _ _ _ _ R12) as J2. fold C1 in J2.
    pose proof (J_mono C1 C C1_sub_b C1_sub_k _ _ J2) as J2'.
    assert (JC : J C (fst (build_pkg_more_work st2 ts2)) (snd (build_pkg_more_work st2 ts2))).
    { apply (J_new_work C st2); auto.
      - intros s e H. destruct (more_work_items _ _ _ H) as [t [Heq _]]. discriminate.
      - intros t a H Ha. destruct (more_work_items _ _ _ H) as [t' [Heq Hk]]. inversion Heq; subst t'.
        destruct Hk as [[Ht Hc]|[k [Ht [Hk Hd]]]].
        + left. apply C_base. right. apply in_flat_map. exists t. split; auto.
          apply filter_In. split; auto. now rewrite Hc.
        + right. exists k. split.
          * apply C_ctld. rewrite (pkg_run_ctl _ R12) in Ht. apply in_app_or in Ht.
            destruct Ht as [Ht|Ht]; apply filter_In in Ht; destruct Ht as [Ht _]; [left|right];
              apply (in_ctld_trig facts annots _ t k a); auto.
          * unfold dv in Hd. destruct (det_l (mp st2) k) as [e|] eqn:E; [|discriminate].
            pose proof (J1 _ _ _ J2' _ _ E) as Hj. apply just_reach in Hj. inversion Hd as [Hv]. now rewrite Hv in Hj.
      - intros p c t H. destruct (more_work_items _ _ _ H) as [t' [Heq _]]. discriminate.
      - cbn. intros t a Ht Ha. rewrite (pkg_run_ctl _ R12) in Ht. apply in_app_or in Ht.
        assert (Hc : controlled t = true /\ (In t ts1 \/ In t ts2)).
        { destruct Ht as [Ht|Ht]; apply filter_In in Ht; tauto. }
        destruct Hc as [Hc Hin]. unfold controlled in Hc. destruct (t_ctrl t) as [k|] eqn:E; [|discriminate].
        exists k. split; auto. apply C_ctld.
        destruct Hin as [Hin|Hin]; [left|right]; apply (in_ctld_trig facts annots _ t k a); auto. }
    exact (J_run _ _ _ _ R3 JC).
  Qed.

  Theorem pkg2_Good st3 : pkg_run2 st3 -> Good C st3 [].
  Proof.
    intros [st2 [R12 R3]].
    pose proof (pkg_Good _ _ _ _ R12) as G2. fold C1 in G2.
    set (st' := fst (build_pkg_more_work st2 ts2)). set (w := snd (build_pkg_more_work st2 ts2)).
    assert (Em : mp st2 = mp st') by reflexivity.
    assert (Ec : conflicts st2 = conflicts st') by reflexivity.
    assert (GC : Good C st' w).
    { intros Hc. rewrite <- Ec in Hc. destruct (G2 Hc) as [Hb1 Hk1]. constructor.
      - intros a Ha. right. apply C_base in Ha. destruct Ha as [Ha|Ha].
        + eapply Hd_mp; eauto. apply Hd_nil_work. auto.
        + apply in_flat_map in Ha. destruct Ha as [t [Ht Ha]]. apply filter_In in Ht. destruct Ht as [Ht Hcn].
          apply negb_true_iff in Hcn. left. exists t. split; auto. now apply more_work_uncontrolled.
      - intros k a Ha Hd. right. apply C_ctld in Ha. destruct Ha as [Ha|Ha].
        + eapply Hd_mp; eauto. apply Hd_nil_work. apply (Hk1 k a Ha). exact Hd.
        + destruct (ctld_ts2_inv _ _ Ha) as [t [Ht [Hk Hat]]].
          left. exists t. split; auto. eapply more_work_activated; eauto. }
    assert (LC : Linked C (ctl st')).
    { intros k a Ha. cbn. rewrite (pkg_run_ctl _ R12). apply C_ctld in Ha. destruct Ha as [Ha|Ha].
      - destruct (ctld_inv _ _ _ _ _ Ha) as [t [Ht [Hk Hat]]]. exists t. repeat split; auto.
        apply in_or_app. left. apply filter_In. split; auto. unfold controlled. now rewrite Hk.
      - destruct (ctld_ts2_inv _ _ Ha) as [t [Ht [Hk Hat]]]. exists t. repeat split; auto.
        apply in_or_app. right. apply filter_In. split; auto. unfold controlled. now rewrite Hk. }
    exact (Good_run _ _ _ _ R3 LC GC).
  Qed.

  Theorem two_pass_conflict_iff_flow st3 : pkg_run2 st3 -> (conflicts st3 <> [] <-> has_flow C).
  Proof.
    intros H. split.
    - eapply J_conflict_flow. apply (pkg2_J _ H).
    - apply Good_complete. now apply pkg2_Good.
  Qed.

  Theorem two_pass_sound st3 : pkg_run2 st3 -> forall c, In c (conflicts st3) -> conflict_ok C c.
  Proof. intros H. apply (J7 _ _ _ (pkg2_J _ H)). Qed.

  Theorem two_pass_verdicts st3 : pkg_run2 st3 -> ~ has_flow C ->
    forall s, (dv st3 s = Some true <-> nilr C s) /\ (dv st3 s = Some false <-> nonr C s).
  Proof.
    intros H NF s.
    assert (Hc : conflicts st3 = []).
    { destruct (conflicts st3) eqn:E; auto. exfalso. apply NF. apply (two_pass_conflict_iff_flow _ H). congruence. }
    pose proof (pkg2_J _ H) as HJ. pose proof (pkg2_Good _ H) as HG.
    split; split.
    - unfold dv. destruct (det_l (mp st3) s) as [e|] eqn:E; [|discriminate]. intros Hv. inversion Hv as [Hv'].
      pose proof (just_reach _ _ _ (J1 _ _ _ HJ _ _ E)) as R. now rewrite Hv' in R.
    - eapply end_nilr; eauto.
    - unfold dv. destruct (det_l (mp st3) s) as [e|] eqn:E; [|discriminate]. intros Hv. inversion Hv as [Hv'].
      pose proof (just_reach _ _ _ (J1 _ _ _ HJ _ _ E)) as R. now rewrite Hv' in R.
    - eapply end_nonr; eauto.
  Qed.

  (* the two batches are as good as one pass over all triggers *)
  Theorem two_pass_equals_one_pass st st3 :
    pkg_run facts annots (ts1 ++ ts2) st -> pkg_run2 st3 ->
    (conflicts st <> [] <-> conflicts st3 <> []) /\ (conflicts st3 = [] -> forall s, dv st s = dv st3 s).
  Proof.
    intros R1 R2. split.
    - rewrite (engine_conflict_iff_flow _ _ _ _ R1), (two_pass_conflict_iff_flow _ R2). tauto.
    - intros Hc s.
      assert (NF : ~ has_flow C) by (intros F; apply (two_pass_conflict_iff_flow _ R2) in F; congruence).
      destruct (engine_verdicts _ _ _ _ R1 NF s) as [A1 A2]. destruct (two_pass_verdicts _ R2 NF s) as [B1 B2].
      destruct (dv st s) as [[|]|] eqn:E1; destruct (dv st3 s) as [[|]|] eqn:E3; auto; exfalso.
      all: try (assert (X : Some true = Some true) by reflexivity).
      all: try (apply A1 in X; apply B1 in X; discriminate).
      all: try (apply B1 in X; apply A1 in X; discriminate).
      all: try (assert (Y : Some false = Some false) by reflexivity).
      all: try (apply A2 in Y; apply B2 in Y; discriminate).
      all: try (apply B2 in Y; apply A2 in Y; discriminate).
  Qed.
End TwoPass.

(* the executable is such a run *)
Lemma observe_package2_run fuel st1 ts1 ts2 st3 :
  observe_package2 fuel st1 ts1 ts2 = Some st3 ->
  exists st2, Run (fst (build_pkg_work st1 ts1)) (snd (build_pkg_work st1 ts1)) st2 /\
              Run (fst (build_pkg_more_work st2 ts2)) (snd (build_pkg_more_work st2 ts2)) st3.
Proof.
  unfold observe_package2, build_pkg.
  destruct (build_pkg_work st1 ts1) as [st1' w] eqn:E. cbn [fst snd].
  destruct (run fuel st1' w) as [st2|] eqn:R; [|discriminate].
  destruct (build_pkg_more_work st2 ts2) as [st2' w2] eqn:E2. intros H.
  exists st2. rewrite E2. cbn [fst snd]. split; eapply run_Run; eauto.
Qed.

(* ---------- before the repair (finding F28) ---------- *)
Definition mk_t2 id p c k := {| t_id := id; t_prod := p; t_cons := c; t_ctrl := k |}.
(* batch 1: nil -> site 1 guarded by site 3; site 1 is dereferenced.  batch 2: nil -> site 3. *)
Definition f28_ts1 : list trigger := [mk_t2 10 KAlways (KCond 1) (Some 3); mk_t2 11 (KCond 1) KAlways None].
Definition f28_ts2 : list trigger := [mk_t2 20 KAlways (KCond 3) None].

Lemma f28_refutes_reset :
  has_flow (pkg_csys [] [] (f28_ts1 ++ f28_ts2)) /\
  (exists st, observe_package2_reset 100 init_state f28_ts1 f28_ts2 = Some st /\ conflicts st = []) /\
  (exists st, observe_package2 100 init_state f28_ts1 f28_ts2 = Some st /\ conflicts st <> []).
Proof.
  split; [|split].
  - right. exists 1. split.
    + apply nr_csrc with 3; [cbn; auto|]. apply nr_src. cbn. auto.
    + apply nn_snk. left. cbn. auto.
  - eexists. split; [vm_compute; reflexivity|reflexivity].
  - eexists. split; [vm_compute; reflexivity|discriminate].
Qed.
