#!/bin/sh
# usage: goal.sh file.v LINE  -- show the proof state after LINE lines of file.v
cd "$(dirname "$0")"
head -n "$2" "$1" > tmp/_goal.v 2>/dev/null || { mkdir -p tmp; head -n "$2" "$1" > tmp/_goal.v; }
echo "Show." >> tmp/_goal.v
coqtop -Q model NM -Q gen NG -Q proofs NP -Q props NPR -batch -l tmp/_goal.v 2>&1 | tail -${3:-60}
