(* Extraction of the executable models to OCaml. ExtrOcamlBasic only: bool, option, unit, list, prod,
   sumbool, sumor map to the OCaml types; nat/positive/N/Z stay the extracted inductive datatypes.
   No Extract Constant. Run by ocaml/build.sh with coqc in the target directory. *)
From Coq Require Import Extraction ExtrOcamlBasic.
From NM Require Import Engine.
Extraction Language OCaml.
From NM Require Import EngineSpec Diag Scope Paths MiniGo Flow Guard Contract Keys Infer Nonce Nolint RichFlow.
Extraction "engine_model.ml" run_pkgs analyze_pkg spec_pkgs diagnostics_tf shown_places last_cpos in_scope_flags rel_to_cwd abs_from_cwd portion_after_sep
  site_of key_repr infer loop infer_checked final_stable plain semiplain wf_fn wf_cfg analyze_program wf_program ctr_arity run_program panic_of enc guarded infer_sem impls_plain nrun nolint_contains propagate wf_rcfg.
