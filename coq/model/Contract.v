(* M7c: when does a one-parameter function return non-nil for every non-nil argument?  The strongest answer an
   intraprocedural analysis can give: explore every execution of the body in which the parameter starts non-nil,
   the other locals nil, every opaque condition may go either way, and every value the function cannot see -- a
   call result, a package-level variable -- may be nil or not (collecting semantics over the finite set of local
   stores).  infer_sem = no such execution returns nil or falls off the end.  Any sound contract inference that
   only looks at the function body infers no more than this; NilAway's inference (functioncontracts/infer.go) is
   compared against it on every run (real => model). *)
From Coq Require Import List Bool Arith PeanoNat.
From NM Require Import MiniGo.
Import ListNotations.

(* abstract local stores hold nil or a plain pointer; concrete values are compared by nil-ness *)
Definition anil (v : value) : bool := match v with VNil => true | VPtr _ => false end.
Definition value_eqb (a b : value) : bool := Bool.eqb (anil a) (anil b).

(* local stores, compared on the variables that matter *)
Definition st_eqb (vars : list nat) (a b : store) : bool :=
  forallb (fun x => value_eqb (sget a (VL x)) (sget b (VL x))) vars.
Definition st_mem (vars : list nat) (a : store) (S : list store) : bool := existsb (st_eqb vars a) S.
Definition st_add (vars : list nat) (a : store) (S : list store) : list store := if st_mem vars a S then S else a :: S.
Definition st_union (vars : list nat) (S T : list store) : list store := fold_right (st_add vars) T S.
Definition st_subset (vars : list nat) (S T : list store) : bool := forallb (fun a => st_mem vars a T) S.

(* the values an expression may have: a package-level variable holds anything *)
Definition hvals (s : store) (a : atom_e) : list value :=
  match a with
  | ANil => [VNil]
  | ANew => [VPtr None]
  | AVar (VL x) => [sget s (VL x)]
  | AVar (VG _) => [VNil; VPtr None]
  end.

(* the outcomes of a condition; a dereference of a nil local ends the execution (no outcome) *)
Fixpoint hcond (s : store) (c : cond) : list bool :=
  match c with
  | COpaque => [true; false]
  | CNonNil (VL x) => [negb (anil (sget s (VL x)))]
  | CNonNil (VG _) => [true; false]
  | CDeref _ (VL x) => if anil (sget s (VL x)) then [] else [true; false]
  | CDeref _ (VG _) => [true; false]
  | CNot c1 => map negb (hcond s c1)
  | CAnd c1 c2 => flat_map (fun b : bool => if b then hcond s c2 else [false]) (hcond s c1)
  | COr c1 c2 => flat_map (fun b : bool => if b then [true] else hcond s c2) (hcond s c1)
  end.

Definition assign_all (vars : list nat) (s : store) (x : var) (vs : list value) : list store :=
  match x with
  | VL _ => map (fun v => sset s x v) vs
  | VG _ => [s]
  end.

Record hres := { h_norm : list store;     (* stores with which control may fall through *)
                 h_bad : bool }.           (* some execution returns nil *)

Section Havoc.
  Variable vars : list nat.

  (* least set containing S and closed under one iteration of the loop (None: not reached within n rounds) *)
  Fixpoint hloop (body : list store -> option hres) (c : cond) (n : nat) (S : list store) : option (list store * bool) :=
    match n with
    | O => None
    | S n' =>
        let enter := filter (fun s => existsb (fun b : bool => b) (hcond s c)) S in
        match body enter with
        | None => None
        | Some r =>
            if st_subset vars (h_norm r) S then Some (S, h_bad r)
            else match hloop body c n' (st_union vars (h_norm r) S) with
                 | Some (S', b) => Some (S', b || h_bad r)
                 | None => None
                 end
        end
    end.

  Fixpoint hreach (fuel : nat) (st : stmt) (S : list store) : option hres :=
    match st with
    | SSkip => Some {| h_norm := S; h_bad := false |}
    | SSeq s1 s2 =>
        match hreach fuel s1 S with
        | None => None
        | Some r1 =>
            match hreach fuel s2 (h_norm r1) with
            | None => None
            | Some r2 => Some {| h_norm := h_norm r2; h_bad := h_bad r1 || h_bad r2 |}
            end
        end
    | SAssign x a =>
        Some {| h_norm := fold_right (st_add vars) [] (flat_map (fun s => assign_all vars s x (hvals s a)) S); h_bad := false |}
    | SCall _ x _ _ =>
        Some {| h_norm := match x with
                          | Some y => fold_right (st_add vars) [] (flat_map (fun s => assign_all vars s y [VNil; VPtr None]) S)
                          | None => S
                          end; h_bad := false |}
    | SDeref _ x =>
        Some {| h_norm := match x with
                          | VL _ => filter (fun s => negb (anil (sget s x))) S
                          | VG _ => S
                          end; h_bad := false |}
    | SIf c s1 s2 =>
        let St := filter (fun s => existsb (fun b : bool => b) (hcond s c)) S in
        let Sf := filter (fun s => existsb negb (hcond s c)) S in
        match hreach fuel s1 St, hreach fuel s2 Sf with
        | Some r1, Some r2 => Some {| h_norm := st_union vars (h_norm r1) (h_norm r2); h_bad := h_bad r1 || h_bad r2 |}
        | _, _ => None
        end
    | SWhile c body =>
        match hloop (hreach fuel body) c fuel S with
        | None => None
        | Some (Sinv, b) =>
            Some {| h_norm := filter (fun s => existsb negb (hcond s c)) Sinv; h_bad := b |}
        end
    | SReturn a =>
        Some {| h_norm := []; h_bad := existsb (fun s => existsb anil (hvals s a)) S |}
    | SReturn2 a _ =>
        Some {| h_norm := []; h_bad := existsb (fun s => existsb anil (hvals s a)) S |}
    | SRetCall _ _ _ =>
        (* the callee's result is not known here: it may be nil *)
        Some {| h_norm := []; h_bad := match S with [] => false | _ => true end |}
    | SCall2 _ x xe _ _ =>
        let S1 := match x with
                  | Some y => fold_right (st_add vars) [] (flat_map (fun s => assign_all vars s y [VNil; VPtr None]) S)
                  | None => S
                  end in
        Some {| h_norm := match xe with
                          | Some y => fold_right (st_add vars) [] (flat_map (fun s => assign_all vars s y [VNil; VPtr None]) S1)
                          | None => S1
                          end; h_bad := false |}
    | SConv x _ _ =>
        Some {| h_norm := fold_right (st_add vars) [] (flat_map (fun s => assign_all vars s x [VPtr None]) S); h_bad := false |}
    | SConvI x y _ _ =>
        Some {| h_norm := fold_right (st_add vars) [] (flat_map (fun s => assign_all vars s x (hvals s (AVar y))) S); h_bad := false |}
    | SCallI _ _ x xi _ _ _ =>
        let S' := match xi with
                  | VL _ => filter (fun s => negb (anil (sget s xi))) S
                  | VG _ => S
                  end in
        Some {| h_norm := match x with
                          | Some y => fold_right (st_add vars) [] (flat_map (fun s => assign_all vars s y [VNil; VPtr None]) S')
                          | None => S'
                          end; h_bad := false |}
    end.
End Havoc.

(* the locals of a statement *)
Definition lvar (x : var) : list nat := match x with VL n => [n] | VG _ => [] end.
Definition latom (a : atom_e) : list nat := match a with AVar x => lvar x | _ => [] end.
Fixpoint lcond (c : cond) : list nat :=
  match c with
  | COpaque => []
  | CNonNil x | CDeref _ x => lvar x
  | CNot c1 => lcond c1
  | CAnd c1 c2 | COr c1 c2 => lcond c1 ++ lcond c2
  end.
Fixpoint lstmt (st : stmt) : list nat :=
  match st with
  | SSkip => []
  | SSeq a b => lstmt a ++ lstmt b
  | SAssign x a => lvar x ++ latom a
  | SCall _ x _ args => match x with Some y => lvar y | None => [] end ++ flat_map latom args
  | SDeref _ x => lvar x
  | SIf c a b => lcond c ++ lstmt a ++ lstmt b
  | SWhile c b => lcond c ++ lstmt b
  | SReturn a => latom a
  | SConv x _ _ => lvar x
  | SConvI x y _ _ => lvar x ++ lvar y
  | SReturn2 a e => latom a ++ latom e
  | SRetCall _ _ args => flat_map latom args
  | SCall2 _ x xe _ args => match x with Some y => lvar y | None => [] end ++ match xe with Some y => lvar y | None => [] end ++ flat_map latom args
  | SCallI _ _ x xi _ _ args => match x with Some y => lvar y | None => [] end ++ lvar xi ++ flat_map latom args
  end.

(* nonnil -> nonnil holds of the body, intraprocedurally: no execution from a non-nil parameter returns nil or
   falls off the end (which returns the zero value) *)
Definition infer_sem (fuel : nat) (fd : func) : bool :=
  Nat.eqb (f_nparams fd) 1 &&
  match hreach (0 :: lstmt (f_body fd)) fuel (f_body fd) [[(VL 0, VPtr None)]] with
  | Some r => negb (h_bad r) && match h_norm r with [] => true | _ => false end
  | None => false
  end.
