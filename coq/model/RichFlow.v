(* M13: forward propagation of rich check effects over the CFG (assertiontree/rich_check_effect.go:
   weakPropagateRichChecks, genPreds, propagateRichChecks -- the greatest-fixed-point version, repair of finding F26).
   Blocks are numbered 0..n-1; an effect is a number; gen b = the effects created in block b (richCheckBlocks[b]);
   kill b = the effects some node of block b invalidates.  Executable definitions only; sets are duplicate-free
   lists compared as sets by the harness. *)
From Coq Require Import List Bool Arith PeanoNat.
Import ListNotations.

Record rcfg := {
  rc_succs : list (list nat);
  rc_live : list bool;
  rc_gen : list (list nat);
  rc_kill : list (list nat) }.

Section G.
  Variable g : rcfg.
  Definition nblocks : nat := length (rc_succs g).
  Definition succs (b : nat) : list nat := nth b (rc_succs g) [].
  Definition live (b : nat) : bool := nth b (rc_live g) false.
  Definition gen (b : nat) : list nat := nth b (rc_gen g) [].
  Definition kill (b : nat) : list nat := nth b (rc_kill g) [].
  Definition blocks : list nat := seq 0 nblocks.
  Definition memb (x : nat) (l : list nat) : bool := existsb (Nat.eqb x) l.
  Fixpoint dedup (l : list nat) : list nat :=
    match l with [] => [] | x :: r => if memb x r then dedup r else x :: dedup r end.
  Definition effects : list nat := dedup (concat (rc_gen g)).

  (* genPreds: the live blocks that list b among their successors *)
  Definition preds (b : nat) : list nat := filter (fun p => live p && memb b (succs p)) blocks.

  (* weakPropagateRichChecks: the blocks reachable from the block that creates the effect (the last one in block
     order if several do: the Go map entry is overwritten) -- closure under successors of ALL blocks *)
  Definition origin (e : nat) : option nat :=
    fold_left (fun acc b => if memb e (gen b) then Some b else acc) blocks None.
  Definition rstep (r : list nat) : list nat :=
    dedup (r ++ flat_map (fun b => if memb b r then succs b else []) blocks).
  Definition subset (a b : list nat) : bool := forallb (fun x => memb x b) a.
  Fixpoint closure (fuel : nat) (r : list nat) : option (list nat) :=
    match fuel with
    | O => None
    | S f => let r' := rstep r in if subset r' r then Some r else closure f r'
    end.
  Definition reach_set (e : nat) : option (list nat) :=
    match origin e with Some o => closure (S nblocks) [o] | None => Some [] end.

  (* one table of reachability for all effects; None if some closure ran out of fuel *)
  Definition reach_table : option (list (nat * list nat)) :=
    fold_right (fun e acc => match acc, reach_set e with Some t, Some r => Some ((e, r) :: t) | _, _ => None end) (Some []) effects.

  Section Prp.
    Variable rt : list (nat * list nat).
    Definition reaches (e b : nat) : bool :=
      match find (fun er => Nat.eqb (fst er) e) rt with Some (_, r) => memb b r | None => false end.

    Definition state := list (list nat).          (* the effects at the end of each block *)
    Definition at_ (s : state) (b : nat) : list nat := nth b s [].

    (* optimistic start *)
    Definition init : state :=
      map (fun b => dedup (gen b ++ filter (fun e => existsb (reaches e) (preds b)) effects)) blocks.

    (* what flows into block b from its predecessors and survives b, plus what b creates *)
    Definition incoming (s : state) (b : nat) : list nat :=
      match preds b with
      | [] => gen b
      | ps =>
          gen b ++ filter (fun e => forallb (fun p => negb (reaches e p) || memb e (at_ s p)) ps && negb (memb e (kill b)))
                          (dedup (flat_map (at_ s) ps))
      end.
    Definition transfer (s : state) : state :=
      map (fun b => filter (fun e => memb e (incoming s b)) (at_ s b)) blocks.
    Definition same_size (s s' : state) : bool :=
      forallb (fun b => Nat.eqb (length (at_ s b)) (length (at_ s' b))) blocks.
    Fixpoint iterate (fuel : nat) (s : state) : option state :=
      match fuel with
      | O => None
      | S f => let s' := transfer s in if same_size s s' then Some s' else iterate f s'
      end.
  End Prp.

  (* the shape propagateRichChecks insists on (it panics otherwise) and the theorems assume: one list of created effects
     per block, every effect created in exactly one block *)
  Fixpoint nodupl (l : list nat) : bool :=
    match l with [] => true | x :: r => negb (memb x r) && nodupl r end.
  Definition wf_rcfg : bool := Nat.eqb (length (rc_gen g)) nblocks && nodupl (concat (rc_gen g)).

  (* propagateRichChecks *)
  Definition propagate (fuel : nat) : option state :=
    match reach_table with
    | Some rt => iterate rt fuel (init rt)
    | None => None
    end.
End G.
