(* M11: the guard-nonce sets of package guard (guard/guard.go): NonceSet = map[Nonce]bool used as a set.
   A set is a duplicate-free list of nonces kept in insertion order (Go's map has no order: the harness prints sorted).
   Executable definitions only.  Add / Remove update in place in Go; here they return the new set. *)
From Coq Require Import List Bool Arith PeanoNat.
Import ListNotations.

Definition nset := list nat.

Definition ns_contains (g : nset) (n : nat) : bool := existsb (Nat.eqb n) g.
Definition ns_is_empty (g : nset) : bool := match g with [] => true | _ => false end.
Definition ns_add1 (g : nset) (n : nat) : nset := if ns_contains g n then g else g ++ [n].
Definition ns_add (g : nset) (ns : list nat) : nset := fold_left ns_add1 ns g.
Definition ns_remove1 (g : nset) (n : nat) : nset := filter (fun x => negb (Nat.eqb n x)) g.
Definition ns_remove (g : nset) (ns : list nat) : nset := fold_left ns_remove1 ns g.
Definition ns_subset (g other : nset) : bool := forallb (ns_contains other) g.
Definition ns_union (g : nset) (others : list nset) : nset := fold_left ns_add others (ns_add [] g).
(* Intersection(others...): out := g.Union(others...); drop what is missing from g or from one of the others *)
Definition ns_inter (g : nset) (others : list nset) : nset :=
  filter (fun n => ns_contains g n && forallb (fun o => ns_contains o n) others) (ns_union g others).
Definition ns_eq (g other : nset) : bool := ns_subset g other && ns_subset other g.
Definition ns_copy (g : nset) : nset := ns_union g [[]].

(* a little machine over numbered registers, for the correspondence with the Go code *)
Inductive nop :=
  | OAdd (r : nat) (ns : list nat)
  | ORemove (r : nat) (ns : list nat)
  | OUnion (dst r : nat) (others : list nat)          (* regs[dst] = regs[r].Union(regs[others]...) *)
  | OInter (dst r : nat) (others : list nat)
  | OCopy (dst r : nat)
  | OContains (r n : nat)
  | OSubset (r s : nat)
  | OEq (r s : nat)
  | OEmpty (r : nat).

Definition reg (regs : list nset) (r : nat) : nset := nth r regs [].
Fixpoint set_reg (regs : list nset) (r : nat) (v : nset) : list nset :=
  match regs, r with
  | [], _ => []
  | _ :: t, O => v :: t
  | x :: t, S r' => x :: set_reg t r' v
  end.

(* output of one operation: Some b for a query, None for an update *)
Definition nstep (regs : list nset) (o : nop) : list nset * option bool :=
  match o with
  | OAdd r ns => (set_reg regs r (ns_add (reg regs r) ns), None)
  | ORemove r ns => (set_reg regs r (ns_remove (reg regs r) ns), None)
  | OUnion d r os => (set_reg regs d (ns_union (reg regs r) (map (reg regs) os)), None)
  | OInter d r os => (set_reg regs d (ns_inter (reg regs r) (map (reg regs) os)), None)
  | OCopy d r => (set_reg regs d (ns_copy (reg regs r)), None)
  | OContains r n => (regs, Some (ns_contains (reg regs r) n))
  | OSubset r s => (regs, Some (ns_subset (reg regs r) (reg regs s)))
  | OEq r s => (regs, Some (ns_eq (reg regs r) (reg regs s)))
  | OEmpty r => (regs, Some (ns_is_empty (reg regs r)))
  end.

Fixpoint nrun (regs : list nset) (ops : list nop) : list nset * list bool :=
  match ops with
  | [] => (regs, [])
  | o :: rest =>
      let '(regs1, out) := nstep regs o in
      let '(regs2, outs) := nrun regs1 rest in
      (regs2, match out with Some b => b :: outs | None => outs end)
  end.
