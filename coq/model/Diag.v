(* M2: diagnostics (diagnostic/engine.go, conflict.go, nilflow.go, nolint.go).  Executable definitions.
   Strings are abstracted: file names and repr strings are natural numbers (the harness numbers files in
   string order, so comparing ids is comparing names); a position is (file, line, col, offset, valid). *)
From Coq Require Import List Bool Arith PeanoNat.
Import ListNotations.

Record pos := { p_file : nat; p_line : nat; p_col : nat; p_off : nat; p_valid : bool }.

Record node := {
  n_ppos : pos;           (* producerPosition *)
  n_cpos : pos;           (* consumerPosition *)
  n_prepr : nat;          (* producerRepr *)
  n_crepr : nat;          (* consumerRepr *)
  n_site : pos }.         (* sitePosition: the complete position of the node's site, never printed (repair of F56) *)

Record conflict := {
  c_id : nat;             (* identity, for bookkeeping only: the Go code never looks at it *)
  c_pos : pos;            (* reported position *)
  c_nil : list node;      (* nilPath *)
  c_nonnil : list node;   (* nonnilPath *)
  c_func : option nat;    (* enclosing function found by groupConflicts for single-assertion conflicts *)
  c_test : bool;          (* involvesTestFile *)
  c_src : pos }.          (* sourcePosition: declaration of the object a single-assertion conflict reads nil from (repair of F57) *)

Record range := { r_file : nat; r_from : nat; r_to : nat }.

(* token.Position.String() prints file:line:col (not the offset); an invalid position prints "-" *)
Definition pos_key (p : pos) : option (nat * nat * nat) :=
  if p_valid p then Some (p_file p, p_line p, p_col p) else None.

(* node.String() plus the "@producer position" and "@site position" suffixes of pathString *)
Definition node_key (n : node) : option (nat * nat * nat) * nat * nat * option (nat * nat * nat) * option (nat * nat * nat) :=
  (pos_key (n_cpos n), n_prepr n, n_crepr n,
   (if negb (p_valid (n_cpos n)) && p_valid (n_ppos n) then pos_key (n_ppos n) else None),
   pos_key (n_site n)).

Inductive gkey :=
  | KPath (l : list (option (nat * nat * nat) * nat * nat * option (nat * nat * nat) * option (nat * nat * nat)))
  | KProd (p : nat * nat * nat) (prepr : nat)            (* producerPosition.String() + ": " + producerRepr *)
  | KFunc (f : option nat) (src : option (nat * nat * nat)) (prepr crepr : nat).   (* [funcName ":"] [source position ": "] producerRepr ";" consumerRepr *)

Definition group_key (c : conflict) : gkey :=
  match c_nil c, c_nonnil c with
  | [], [p] =>
      match pos_key (n_ppos p) with
      | Some k => KProd k (n_prepr p)
      | None => KFunc (c_func c) (pos_key (c_src c)) (n_prepr p) (n_crepr p)
      end
  | _, _ => KPath (map node_key (c_nil c))
  end.

Definition opt3_eqb (a b : option (nat * nat * nat)) : bool :=
  match a, b with
  | None, None => true
  | Some (x, y, z), Some (x', y', z') => Nat.eqb x x' && Nat.eqb y y' && Nat.eqb z z'
  | _, _ => false
  end.
Definition nk_eqb (a b : option (nat * nat * nat) * nat * nat * option (nat * nat * nat) * option (nat * nat * nat)) : bool :=
  let '(a1, a2, a3, a4, a5) := a in let '(b1, b2, b3, b4, b5) := b in
  opt3_eqb a1 b1 && Nat.eqb a2 b2 && Nat.eqb a3 b3 && opt3_eqb a4 b4 && opt3_eqb a5 b5.
Fixpoint list_eqb {A} (eqb : A -> A -> bool) (l l' : list A) : bool :=
  match l, l' with
  | [], [] => true
  | x :: r, y :: r' => eqb x y && list_eqb eqb r r'
  | _, _ => false
  end.
Definition optnat_eqb (a b : option nat) : bool :=
  match a, b with None, None => true | Some x, Some y => Nat.eqb x y | _, _ => false end.
Definition gkey_eqb (a b : gkey) : bool :=
  match a, b with
  | KPath l, KPath l' => list_eqb nk_eqb l l'
  | KProd p r, KProd p' r' => opt3_eqb (Some p) (Some p') && Nat.eqb r r'
  | KFunc f s p c, KFunc f' s' p' c' => optnat_eqb f f' && opt3_eqb s s' && Nat.eqb p p' && Nat.eqb c c'
  | _, _ => false
  end.

(* a reported diagnostic: the head conflict and the conflicts grouped under it *)
Record diag := { d_head : conflict; d_similar : list conflict }.

(* groupConflicts: the first conflict with a given key becomes the head, later ones are appended to it *)
Fixpoint add_to_group (gs : list diag) (c : conflict) : list diag :=
  match gs with
  | [] => [{| d_head := c; d_similar := [] |}]
  | g :: gs' =>
      if gkey_eqb (group_key (d_head g)) (group_key c)
      then {| d_head := d_head g; d_similar := d_similar g ++ [c] |} :: gs'
      else g :: add_to_group gs' c
  end.
Definition group_conflicts (cs : list conflict) : list diag := fold_left add_to_group cs [].
Definition no_grouping (cs : list conflict) : list diag := map (fun c => {| d_head := c; d_similar := [] |}) cs.

(* sort by (file name, offset): insertion sort, stable *)
Definition conflict_leb (a b : conflict) : bool :=
  if Nat.ltb (p_file (c_pos a)) (p_file (c_pos b)) then true
  else if Nat.ltb (p_file (c_pos b)) (p_file (c_pos a)) then false
  else Nat.leb (p_off (c_pos a)) (p_off (c_pos b)).
Fixpoint insert_c (x : conflict) (l : list conflict) : list conflict :=
  match l with
  | [] => [x]
  | y :: l' => if conflict_leb x y then x :: l else y :: insert_c x l'
  end.
Definition sort_conflicts (l : list conflict) : list conflict := fold_right insert_c [] l.

Definition in_range (r : range) (c : conflict) : bool :=
  Nat.eqb (p_file (c_pos c)) (r_file r) && Nat.leb (r_from r) (p_line (c_pos c)) && Nat.leb (p_line (c_pos c)) (r_to r).
Definition suppressed (rs : list range) (excl_test : bool) (c : conflict) : bool :=
  existsb (fun r => in_range r c) rs || (excl_test && c_test c).

(* Engine.Diagnostics: sort, filter by nolint ranges / test files, group, (render) *)
Definition diagnostics (grouping : bool) (rs : list range) (excl_test : bool) (cs : list conflict) : list diag :=
  let kept := filter (fun c => negb (suppressed rs excl_test c)) (sort_conflicts cs) in
  if grouping then group_conflicts kept else no_grouping kept.

(* what a diagnostic shows: its position is the head's reported position; the "other place(s)" list shows, for
   each grouped conflict, the consumer position of the last node of its non-nil path; the count is the length *)
Definition last_cpos (c : conflict) : option (nat * nat * nat) :=
  match rev (c_nonnil c) with n :: _ => pos_key (n_cpos n) | [] => None end.
Definition shown_count (d : diag) : nat := length (d_similar d).
Definition shown_places (d : diag) : list (option (nat * nat * nat)) := map last_cpos (d_similar d).
Definition members (d : diag) : list conflict := d_head d :: d_similar d.

(* involvesTestFile: some node of the flow lies in a file named *_test.go (tf = ids of such files) *)
Definition in_test (tf : list nat) (p : pos) : bool := p_valid p && existsb (Nat.eqb (p_file p)) tf.
Definition involves_test (tf : list nat) (c : conflict) : bool :=
  in_test tf (c_pos c) || existsb (fun n => in_test tf (n_ppos n) || in_test tf (n_cpos n)) (c_nil c ++ c_nonnil c).
Definition set_test (tf : list nat) (c : conflict) : conflict :=
  {| c_id := c_id c; c_pos := c_pos c; c_nil := c_nil c; c_nonnil := c_nonnil c; c_func := c_func c;
     c_test := involves_test tf c; c_src := c_src c |}.
Definition diagnostics_tf (grouping : bool) (rs : list range) (excl_test : bool) (tf : list nat) (cs : list conflict) : list diag :=
  diagnostics grouping rs excl_test (map (set_test tf) cs).
