(* M2b: how a conflict gets its reported position and flow (AddOverconstraintConflict,
   AddSingleAssertionConflict) and how a position becomes a token.Pos (Engine.toPos). Definitions only. *)
From Coq Require Import List Bool Arith ZArith.
From NM Require Import Diag.
Import ListNotations.

(* one ExplainedBool of a chain, as the diagnostic engine reads it: its Position(), and the node built from
   its TriggerReprs() (a trigger) or from the reason itself (an annotation) *)
Record reason := { rs_pos : pos; rs_node : node; rs_is_trigger : bool }.

Definition zero_pos : pos := {| p_file := 0; p_line := 0; p_col := 0; p_off := 0; p_valid := false |}.

(* AddOverconstraintConflict: nil path = the nil chain reversed (source first), non-nil path = the non-nil chain
   in order; the reported position is the Position() of the LAST reason of the non-nil chain *)
(* a nil-path node also records the complete position of its reason's site (never printed; part of the grouping key) *)
Definition with_site (n : node) (p : pos) : node :=
  {| n_ppos := n_ppos n; n_cpos := n_cpos n; n_prepr := n_prepr n; n_crepr := n_crepr n; n_site := p |}.
Definition over_conflict (id : nat) (nil_chain nonnil_chain : list reason) : conflict :=
  {| c_id := id;
     c_pos := match rev nonnil_chain with r :: _ => rs_pos r | [] => zero_pos end;
     c_nil := rev (map (fun r => with_site (rs_node r) (rs_pos r)) nil_chain);
     c_nonnil := map rs_node nonnil_chain;
     c_func := None; c_test := false; c_src := zero_pos |}.

(* AddSingleAssertionConflict: one non-nil node; reported at the consumer expression *)
Definition single_conflict (id : nat) (consumer_expr_pos : pos) (n : node) (src : pos) : conflict :=
  {| c_id := id; c_pos := consumer_expr_pos; c_nil := []; c_nonnil := [n]; c_func := None; c_test := false; c_src := src |}.

(* ---- Engine.toPos on a file that is not (really) in the file set: fake files ---- *)
Open Scope Z_scope.
Section ToPos.
  Variables (max_lines : Z) (regrows sized_by_line : bool).

  (* size of the fake file used for `line`, given the size of an already existing fake file *)
  Definition fake_size (existing : option Z) (line : Z) : Z :=
    let fresh := if sized_by_line then Z.max max_lines line else max_lines in
    match existing with
    | None => fresh
    | Some sz => if regrows && (sz <? line) then fresh else sz
    end.

  (* token.File.LineStart(line) panics unless 1 <= line <= number of lines, and a file of size sz holds at
     most sz lines (SetLines/AddLine refuse offsets >= size): None models the panic *)
  Definition to_pos_fake (existing : option Z) (line : Z) : option Z :=
    if (1 <=? line) && (line <=? fake_size existing line) then Some line else None.
End ToPos.
