(* M4b: path handling (util/tokenhelper: RelToCwd = filepath.Rel(cwd, name), PortionAfterSep).
   A clean absolute slash path is the list of its segments; segments are abstract (nat). *)
From Coq Require Import List Bool Arith PeanoNat.
Import ListNotations.

Definition seg := nat.
Inductive rseg := Up | Seg (s : seg).            (* a segment of a relative result: ".." or a name *)

(* filepath.Rel(base, targ) for clean absolute paths: strip the common prefix, climb out of what is left of
   base, descend into what is left of targ (the empty list stands for ".") *)
Fixpoint rel (base targ : list seg) : list rseg :=
  match base, targ with
  | b :: base', t :: targ' => if Nat.eqb b t then rel base' targ' else map (fun _ => Up) base ++ map Seg targ
  | _, _ => map (fun _ => Up) base ++ map Seg targ
  end.

Inductive path := Abs (l : list seg) | Relp (l : list rseg).

(* RelToCwd: filepath.Rel fails for a relative name against the absolute cwd, and the name is returned as is *)
Definition rel_to_cwd (cwd : list seg) (p : path) : path :=
  match p with Abs t => Relp (rel cwd t) | Relp _ => p end.

(* PortionAfterSep(input, "/", occ): the last occ+1 segments (the whole input when it has no more than that) *)
Definition portion_after_sep {A} (l : list A) (occ : nat) : list A := skipn (length l - (occ + 1)) l.

(* AbsFromCwd (the sort key of diagnostics since finding F107): filepath.Join(cwd, name) of a relative name -- climb for
   every "..", descend for every segment (filepath.Clean) --, an absolute name as it is *)
Fixpoint join_clean (acc : list seg) (r : list rseg) : list seg :=
  match r with
  | [] => acc
  | Up :: r' => join_clean (removelast acc) r'
  | Seg s :: r' => join_clean (acc ++ [s]) r'
  end.

Definition abs_from_cwd (cwd : list seg) (p : path) : list seg :=
  match p with Abs t => t | Relp r => join_clean cwd r end.

(* lexicographic comparison of segment lists (the order of the cleaned absolute names, segment-wise) *)
Fixpoint lex_leb (a b : list seg) : bool :=
  match a, b with
  | [], _ => true
  | _ :: _, [] => false
  | x :: a', y :: b' => if Nat.eqb x y then lex_leb a' b' else Nat.leb x y
  end.
