(* M14: the short-circuit case of RootAssertionNode.AddComputation (assertion/function/assertiontree/root_assertion_node.go)
   for a `&&` / `||` VALUE expression (a return value, a right-hand side, an argument), after the repair of finding F100:
   the outermost short-circuit expression is computed in a scope of its own; inside it, for `X op Y`, the consumers of Y are
   added first, then the conclusion of Y's and of X's nil check (true conclusion for &&, false conclusion for ||) is applied
   to everything the scope holds, then X is computed in the same scope.  Definitions only. *)
From Coq Require Import List Bool Arith PeanoNat.
Import ListNotations.

(* a condition about ONE pointer variable, as AddNilCheck sees it: its truth as a function of "the variable is nil", and the
   conclusions AddNilCheck attaches to its two outcomes ("the variable is non-nil" on the true / on the false outcome) *)
Record cond1 := { c_truth : bool -> bool; c_t : bool; c_f : bool }.

(* the conclusions are right: whenever one is attached to an outcome, the variable is non-nil on that outcome *)
Definition cond1_ok (k : cond1) : Prop :=
  (c_t k = true -> forall n, c_truth k n = true -> n = false) /\
  (c_f k = true -> forall n, c_truth k n = false -> n = false).

(* `v == nil` (eq = true) / `v != nil` (eq = false) *)
Definition atomic (eq : bool) : cond1 := {| c_truth := fun n => Bool.eqb n eq; c_t := negb eq; c_f := eq |}.

Inductive sexp :=
  | SCond (v : nat) (k : cond1)       (* a condition about v *)
  | SOpq (i : nat)                    (* an opaque boolean *)
  | SDer (v : nat) (l : nat)          (* `v.f == 0`: dereferences v; l identifies the leaf (its source line) *)
  | SAnd (x y : sexp)
  | SOr (x y : sexp).

(* ---- Go's evaluation: None = the dereference of a nil pointer panics; which leaf *)
Inductive outcome := Val (b : bool) | Panic (l : nat).

Section Eval.
  Variable nilv : nat -> bool.        (* v is nil *)
  Variable orc : nat -> bool.         (* the opaque booleans, and the value of `v.f == 0` at leaf l (index 1000 + l) *)

  Fixpoint eval (e : sexp) : outcome :=
    match e with
    | SCond v k => Val (c_truth k (nilv v))
    | SOpq i => Val (orc i)
    | SDer v l => if nilv v then Panic l else Val (orc (1000 + l))
    | SAnd x y => match eval x with Val true => eval y | o => o end
    | SOr x y => match eval x with Val false => eval y | o => o end
    end.
End Eval.

(* ---- the analysis: consumers = (variable, leaf) pairs still demanding "non-nil" *)
Definition consumer := (nat * nat)%type.

Definition discharge (v : nat) (acc : list consumer) : list consumer :=
  filter (fun c => negb (Nat.eqb (fst c) v)) acc.

(* the conclusion AddNilCheck attaches to the true / false outcome of an operand: only an atomic nil check has one
   (a compound operand `a && b` is no comparison: no-op) *)
Definition apply_true (e : sexp) (acc : list consumer) : list consumer :=
  match e with SCond v k => if c_t k then discharge v acc else acc | _ => acc end.
Definition apply_false (e : sexp) (acc : list consumer) : list consumer :=
  match e with SCond v k => if c_f k then discharge v acc else acc | _ => acc end.

Fixpoint proc (e : sexp) (acc : list consumer) : list consumer :=
  match e with
  | SCond _ _ | SOpq _ => acc
  | SDer v l => (v, l) :: acc
  | SAnd x y => proc x (apply_true x (apply_true y (proc y acc)))
  | SOr x y => proc x (apply_false x (apply_false y (proc y acc)))
  end.

(* the dereferences of the expression that are reported when every variable may be nil: what is left in the fresh scope *)
Definition reported (e : sexp) : list nat := map snd (proc e []).

(* the statement the expression belongs to: `after` are the consumers of the code that FOLLOWS it (the backward analysis has
   them already).  Since the repair of finding F100 the expression is computed in a fresh scope and merged; before, it was
   computed in the tree that holds `after`, and its checks discharged consumers of the code after the statement *)
Definition proc_stmt (e : sexp) (after : list consumer) : list consumer := proc e [] ++ after.
Definition proc_stmt_before_F100 (e : sexp) (after : list consumer) : list consumer := proc e after.

(* ---- the class on which the attribution is right: every LEFT operand is a pure tree of the operator it stands under *)
Fixpoint pure_and (e : sexp) : bool :=
  match e with SAnd x y => pure_and x && pure_and y | SOr _ _ => false | _ => true end.
Fixpoint pure_or (e : sexp) : bool :=
  match e with SOr x y => pure_or x && pure_or y | SAnd _ _ => false | _ => true end.
Fixpoint left_pure (e : sexp) : bool :=
  match e with
  | SAnd x y => pure_and x && left_pure y
  | SOr x y => pure_or x && left_pure y
  | _ => true
  end.

Notation SChk v eq := (SCond v (atomic eq)).

(* every condition of the expression draws right conclusions *)
Fixpoint conds_ok (e : sexp) : Prop :=
  match e with
  | SCond _ k => cond1_ok k
  | SAnd x y | SOr x y => conds_ok x /\ conds_ok y
  | _ => True
  end.

Fixpoint leaves (e : sexp) : list nat :=
  match e with
  | SDer _ l => [l]
  | SAnd x y | SOr x y => leaves x ++ leaves y
  | _ => []
  end.
