(* M12: the text of a nolint directive (diagnostic/nolint.go: nolintContainsNilAway).
   A comment text is a list of bytes (nat).  Executable definitions only.
   strings.TrimSpace / strings.EqualFold are modelled on ASCII (the generator of the correspondence is ASCII). *)
From Coq Require Import List Bool Arith PeanoNat.
Import ListNotations.

Definition byte := nat.
Definition bytes := list byte.

Definition c_slash := 47.
Definition c_space := 32.
Definition c_tab := 9.
Definition c_colon := 58.
Definition c_comma := 44.

Definition mem (c : byte) (set : bytes) : bool := existsb (Nat.eqb c) set.

Fixpoint bytes_eqb (a b : bytes) : bool :=
  match a, b with
  | [], [] => true
  | x :: a', y :: b' => Nat.eqb x y && bytes_eqb a' b'
  | _, _ => false
  end.

Fixpoint has_prefix (p l : bytes) : bool :=
  match p, l with
  | [], _ => true
  | x :: p', y :: l' => Nat.eqb x y && has_prefix p' l'
  | _ :: _, [] => false
  end.

(* strings.TrimLeft(s, cutset) *)
Fixpoint trim_left (set l : bytes) : bytes :=
  match l with
  | c :: l' => if mem c set then trim_left set l' else l
  | [] => []
  end.
(* strings.TrimRight(s, cutset): drop the trailing bytes that are in the set *)
Fixpoint trim_right (set l : bytes) : bytes :=
  match l with
  | [] => []
  | c :: l' => match trim_right set l' with
               | [] => if mem c set then [] else [c]
               | r => c :: r
               end
  end.

(* ASCII white space of strings.TrimSpace: \t \n \v \f \r and space *)
Definition ws : bytes := [9; 10; 11; 12; 13; 32].
Definition trim_space (l : bytes) : bytes := trim_right ws (trim_left ws l).

(* strings.Split(s, "//")[0]: everything before the first "//" *)
Fixpoint before_dslash (l : bytes) : bytes :=
  match l with
  | a :: ((b :: _) as l') => if Nat.eqb a c_slash && Nat.eqb b c_slash then [] else a :: before_dslash l'
  | _ => l
  end.

(* strings.Split(s, sep) for a one-byte separator: always at least one piece *)
Fixpoint split_on (sep : byte) (l : bytes) : list bytes :=
  match l with
  | [] => [[]]
  | c :: l' =>
      if Nat.eqb c sep then [] :: split_on sep l'
      else match split_on sep l' with
           | p :: ps => (c :: p) :: ps
           | [] => [[c]]
           end
  end.

(* strings.EqualFold on ASCII *)
Definition lower (c : byte) : byte := if Nat.leb 65 c && Nat.leb c 90 then c + 32 else c.
Definition fold_eqb (a b : bytes) : bool := bytes_eqb (map lower a) (map lower b).

Definition s_nolint : bytes := [110; 111; 108; 105; 110; 116].           (* "nolint" *)
Definition s_all : bytes := [97; 108; 108].                             (* "all" *)
Definition s_nilaway : bytes := [110; 105; 108; 97; 119; 97; 121].      (* "nilaway" *)

Definition names_nilaway (linter : bytes) : bool :=
  let l := trim_space linter in fold_eqb l s_all || fold_eqb l s_nilaway.

(* nolintContainsNilAway(text): text is the comment including its leading slashes *)
Definition nolint_contains (text : bytes) : bool :=
  let t := trim_left [c_slash; c_space] text in
  if negb (has_prefix s_nolint t) then false
  else
    match skipn 6 t with
    | c :: _ => if negb (mem c [c_colon; c_space; c_tab]) then false else
        let t2 := trim_space (before_dslash t) in
        match split_on c_colon t2 with
        | p0 :: p1 :: _ => if negb (bytes_eqb (trim_space p0) s_nolint) then true else existsb names_nilaway (split_on c_comma p1)
        | _ => true
        end
    | [] =>
        (* the text is exactly "nolint": one part *)
        true
    end.
