(* M1: the inference engine (inference/engine.go, inferred_map.go, inferred_value.go).
   Executable definitions only; a line-by-line transcription in work-list form: the recursion of
   observeSiteExplanation / activateControlledTriggers / buildFromSingleFullTrigger is a depth-first
   traversal, modelled by a stack of pending items (new items are pushed in FRONT of the rest). *)
From Coq Require Import List Bool Arith PeanoNat.
Import ListNotations.

Definition site := nat.
Definition tid := nat.

Inductive kind := KAlways | KNever | KCond (s : site).

Record trigger := { t_id : tid; t_prod : kind; t_cons : kind; t_ctrl : option site }.

(* ExplainedBool: {True,False}Because{Annotation,ShallowConstraint,DeepConstraint} *)
Inductive expl :=
  | EAnnot (b : bool) (s : site)
  | EShallow (b : bool) (t : tid)
  | EDeep (t : tid) (e : expl).

Fixpoint eval_expl (e : expl) : bool :=
  match e with EAnnot b _ => b | EShallow b _ => b | EDeep _ e' => eval_expl e' end.

(* InferredVal *)
Inductive ival :=
  | Det (e : expl)
  | Undet (ins outs : list (site * tid)).   (* Implicants, Implicates: ordered maps site -> assertion *)

(* util/orderedmap: association list in insertion order; Store overwrites in place or appends *)
Fixpoint lookup {A} (m : list (site * A)) (s : site) : option A :=
  match m with
  | [] => None
  | (k, v) :: m' => if Nat.eqb k s then Some v else lookup m' s
  end.

Fixpoint store {A} (m : list (site * A)) (s : site) (v : A) : list (site * A) :=
  match m with
  | [] => [(s, v)]
  | (k, v') :: m' => if Nat.eqb k s then (k, v) :: m' else (k, v') :: store m' s v
  end.

Inductive conflict :=
  | CSingle (t : tid)                       (* AddSingleAssertionConflict *)
  | COver (etrue efalse : expl).            (* AddOverconstraintConflict(nilExplanation, nonnilExplanation) *)

Record state := {
  mp : list (site * ival);                  (* inferredMap.mapping *)
  conflicts : list conflict;                (* in the order they are reported *)
  ctl : list trigger                        (* controlledTriggersBySite, flattened, original order *)
}.

Definition init_state : state := {| mp := []; conflicts := []; ctl := [] |}.

Definition set_mp (st : state) m := {| mp := m; conflicts := conflicts st; ctl := ctl st |}.
Definition add_conflict (st : state) c := {| mp := mp st; conflicts := conflicts st ++ [c]; ctl := ctl st |}.
Definition set_ctl (st : state) l := {| mp := mp st; conflicts := conflicts st; ctl := l |}.

Definition ctrl_is (s : site) (t : trigger) : bool :=
  match t_ctrl t with Some c => Nat.eqb c s | None => false end.
Definition controlled (t : trigger) : bool :=
  match t_ctrl t with Some _ => true | None => false end.
Definition controlled_by (l : list trigger) (s : site) : list trigger := filter (ctrl_is s) l.

Inductive item :=
  | ISite (s : site) (e : expl)             (* observeSiteExplanation(site, e) *)
  | ITrig (t : trigger)                     (* buildFromSingleFullTrigger(t) *)
  | IImpl (p c : site) (t : tid).           (* observeImplication(p, c, assertion t) *)

(* activateControlledTriggers *)
Definition activate (st : state) (s : site) (b : bool) : list item :=
  if b then map ITrig (controlled_by (ctl st) s) else [].

(* InferredMap.StoreImplication *)
Definition store_impl (m : list (site * ival)) (p c : site) (t : tid) : list (site * ival) :=
  let m1 := match lookup m p with None => store m p (Undet [] []) | Some _ => m end in
  let m2 := match lookup m1 c with None => store m1 c (Undet [] []) | Some _ => m1 end in
  let m3 := match lookup m2 p with
            | Some (Undet i o) => store m2 p (Undet i (store o c t))
            | _ => m2 end in
  match lookup m3 c with
  | Some (Undet i o) => store m3 c (Undet (store i p t) o)
  | _ => m3
  end.

(* one call, returning the calls it makes (in order) *)
Definition step (st : state) (it : item) : state * list item :=
  match it with
  | ISite s e =>
      let b := eval_expl e in
      match lookup (mp st) s with
      | None => (set_mp st (store (mp st) s (Det e)), activate st s b)
      | Some (Det e') =>
          if Bool.eqb (eval_expl e') b then (st, [])
          else
            let c := if eval_expl e' then COver e' e else COver e e' in
            (add_conflict st c, activate st s b)
      | Some (Undet ins outs) =>
          (set_mp st (store (mp st) s (Det e)),
           activate st s b ++
           (if b then map (fun ot => ISite (fst ot) (EDeep (snd ot) e)) outs
            else map (fun it => ISite (fst it) (EDeep (snd it) e)) ins))
      end
  | ITrig t =>
      match t_prod t, t_cons t with
      | KAlways, KAlways => (add_conflict st (CSingle (t_id t)), [])
      | KAlways, KCond c => (st, [ISite c (EShallow true (t_id t))])
      | KCond p, KAlways => (st, [ISite p (EShallow false (t_id t))])
      | KCond p, KCond c => (st, [IImpl p c (t_id t)])
      | _, _ => (st, [])
      end
  | IImpl p c t =>
      match lookup (mp st) p with
      | Some (Det ep) => if eval_expl ep then (st, [ISite c (EDeep t ep)]) else (st, [])
      | _ =>
        match lookup (mp st) c with
        | Some (Det ec) => if eval_expl ec then (st, []) else (st, [ISite p (EDeep t ec)])
        | _ => (set_mp st (store_impl (mp st) p c t), [])
        end
      end
  end.

Fixpoint run (fuel : nat) (st : state) (work : list item) : option state :=
  match work with
  | [] => Some st
  | it :: rest =>
    match fuel with
    | O => None
    | S fuel' => let '(st', new) := step st it in run fuel' st' (new ++ rest)
    end
  end.

(* ---- ObserveUpstream ---- *)
Definition fact := list (site * ival).

Definition fact_items (f : fact) : list item :=
  flat_map (fun sv =>
    match snd sv with
    | Det e => [ISite (fst sv) e]
    | Undet ins outs =>
        map (fun ot => IImpl (fst sv) (fst ot) (snd ot)) outs ++
        map (fun it => IImpl (fst it) (fst sv) (snd it)) ins
    end) f.

(* facts arrive in driver order, each tagged with its package rank (= order of package paths);
   the code sorts them by package path: insertion sort, stable *)
Fixpoint insert_by {A} (key : A -> nat) (x : A) (l : list A) : list A :=
  match l with
  | [] => [x]
  | y :: l' => if Nat.leb (key x) (key y) then x :: l else y :: insert_by key x l'
  end.
Definition sort_by {A} (key : A -> nat) (l : list A) : list A := fold_right (insert_by key) [] l.

Definition upstream_items (facts : list (nat * fact)) : list item :=
  flat_map (fun pf => fact_items (snd pf)) (sort_by fst facts).

(* ---- ObserveAnnotations: ObservedMap.Range visits in declaration order (site id here) ---- *)
Definition annot_items (annots : list (site * bool)) : list item :=
  map (fun sb => ISite (fst sb) (EAnnot (snd sb) (fst sb))) (sort_by fst annots).

(* ---- buildPkgInferenceMap ---- *)
Definition is_det_true (m : list (site * ival)) (s : site) : bool :=
  match lookup m s with Some (Det e) => eval_expl e | _ => false end.

Fixpoint dedup (l : list site) (seen : list site) : list site :=
  match l with
  | [] => []
  | s :: l' => if existsb (Nat.eqb s) seen then dedup l' seen else s :: dedup l' (s :: seen)
  end.

Definition ctrl_sites (ts : list trigger) : list site :=
  flat_map (fun t => match t_ctrl t with Some s => [s] | None => [] end) ts.

Definition build_pkg_work (st : state) (ts : list trigger) : state * list item :=
  let ctl' := filter controlled ts in
  let activated := filter (is_det_true (mp st)) (dedup (ctrl_sites ts) []) in
  (set_ctl st ctl',
   flat_map (fun s => map ITrig (controlled_by ctl' s)) activated ++
   map ITrig (filter (fun t => negb (controlled t)) ts)).

Definition build_pkg (fuel : nat) (st : state) (ts : list trigger) : option state :=
  let '(st', work) := build_pkg_work st ts in run fuel st' work.

(* ObservePackage on plain triggers: nothing is deleted in step 1, no error-return triggers, so steps
   2-4 are buildPkgInferenceMap(ts) followed by buildPkgInferenceMap([]) *)
Definition observe_package (fuel : nat) (st : state) (ts : list trigger) : option state :=
  match build_pkg fuel st ts with
  | Some st1 => build_pkg fuel st1 []
  | None => None
  end.

(* ObservePackage in general: buildPkgInferenceMap is called twice, first for all triggers but the error-return
   dependent ones, then for those (after FilterTriggersForErrorReturn).  The table of controlled triggers ACCUMULATES over
   the two calls (repair of finding F28): a controller determined while the second batch is observed still activates the
   controlled triggers of the first. *)
Definition build_pkg_more_work (st : state) (ts : list trigger) : state * list item :=
  let ctl' := ctl st ++ filter controlled ts in
  let activated := filter (is_det_true (mp st)) (dedup (ctrl_sites ts) []) in
  (set_ctl st ctl',
   flat_map (fun s => map ITrig (controlled_by ctl' s)) activated ++
   map ITrig (filter (fun t => negb (controlled t)) ts)).

Definition observe_package2 (fuel : nat) (st : state) (ts1 ts2 : list trigger) : option state :=
  match build_pkg fuel st ts1 with
  | Some st1 => let '(st', work) := build_pkg_more_work st1 ts2 in run fuel st' work
  | None => None
  end.

(* the behaviour before the repair: the second call REPLACES the table *)
Definition observe_package2_reset (fuel : nat) (st : state) (ts1 ts2 : list trigger) : option state :=
  match build_pkg fuel st ts1 with
  | Some st1 => build_pkg fuel st1 ts2
  | None => None
  end.

(* ---- chooseSitesToExport ---- *)
Section Export.
  Variable exported : site -> bool.

  Definition mem (s : site) (l : list site) : bool := existsb (Nat.eqb s) l.
  Definition outs_of (m : list (site * ival)) (s : site) : list site :=
    match lookup m s with Some (Undet _ o) => map fst o | _ => [] end.
  Definition ins_of (m : list (site * ival)) (s : site) : list site :=
    match lookup m s with Some (Undet i _) => map fst i | _ => [] end.
  Definition is_undet (m : list (site * ival)) (s : site) : bool :=
    match lookup m s with Some (Undet _ _) => true | _ => false end.

  Record marks := { toExp : list site; rfe : list site; re : list site }.

  (* markReachableFromExported / markReachesExported, fuelled depth-first *)
  Fixpoint mark_rfe (fuel : nat) (m : list (site * ival)) (mk : marks) (s : site) : marks :=
    match fuel with
    | O => mk
    | S f =>
      if is_undet m s && negb (exported s) && negb (mem s (toExp mk)) && negb (mem s (rfe mk)) then
        let mk1 := if mem s (re mk) then {| toExp := s :: toExp mk; rfe := rfe mk; re := re mk |}
                   else {| toExp := toExp mk; rfe := s :: rfe mk; re := re mk |} in
        fold_left (mark_rfe f m) (outs_of m s) mk1
      else mk
    end.
  Fixpoint mark_re (fuel : nat) (m : list (site * ival)) (mk : marks) (s : site) : marks :=
    match fuel with
    | O => mk
    | S f =>
      if is_undet m s && negb (exported s) && negb (mem s (toExp mk)) && negb (mem s (re mk)) then
        let mk1 := if mem s (rfe mk) then {| toExp := s :: toExp mk; rfe := rfe mk; re := re mk |}
                   else {| toExp := toExp mk; rfe := rfe mk; re := s :: re mk |} in
        fold_left (mark_re f m) (ins_of m s) mk1
      else mk
    end.

  Definition choose_marks (m : list (site * ival)) : marks :=
    let fuel := S (length m) in
    fold_left (fun mk kv =>
        let s := fst kv in
        if exported s then
          let mk0 := {| toExp := s :: toExp mk; rfe := rfe mk; re := re mk |} in
          let mk1 := fold_left (mark_re fuel m) (ins_of m s) mk0 in
          fold_left (mark_rfe fuel m) (outs_of m s) mk1
        else mk) m {| toExp := []; rfe := []; re := [] |}.

  Definition choose_sites_to_export (m : list (site * ival)) : list site := toExp (choose_marks m).

  (* inferredValDiff: None = panic (noSupersede); Some None = nothing new; Some (Some d) = export d *)
  Definition edges_diff (n o : list (site * tid)) : list (site * tid) :=
    filter (fun st => match lookup o (fst st) with None => true | Some _ => false end) n.

  Definition val_diff (newv oldv : ival) : option (option ival) :=
    match newv, oldv with
    | Det en, Det eo => if Bool.eqb (eval_expl en) (eval_expl eo) then Some None else None
    | Det en, Undet _ _ => Some (Some newv)
    | Undet _ _, Det _ => None
    | Undet ni no, Undet oi oo =>
        let di := edges_diff ni oi in
        let do := edges_diff no oo in
        match di, do with
        | [], [] => Some None
        | _, _ => Some (Some (Undet di do))
        end
    end.

  (* InferredMap.Export: None = panic; Some None = no fact exported; Some (Some f) = fact *)
  Fixpoint export_pairs (chosen : list site) (up : list (site * ival)) (m : list (site * ival)) : option fact :=
    match m with
    | [] => Some []
    | (s, v) :: m' =>
      match export_pairs chosen up m' with
      | None => None
      | Some rest =>
        if mem s chosen then
          match lookup up s with
          | Some uv => match val_diff v uv with
                       | None => None
                       | Some None => Some rest
                       | Some (Some d) => Some ((s, d) :: rest)
                       end
          | None => Some ((s, v) :: rest)
          end
        else Some rest
      end
    end.

  Definition export (up m : list (site * ival)) : option (option fact) :=
    match m with
    | [] => Some None
    | _ => match export_pairs (choose_sites_to_export m) up m with
           | None => None
           | Some [] => Some None
           | Some f => Some (Some f)
           end
    end.

  (* ---- one package, as accumulation.run drives the engine ---- *)
  Record pkg_result := {
    r_conflicts : list conflict;
    r_map : list (site * ival);
    r_chosen : list site;
    r_fact : option fact }.

  Inductive outcome := OutOfFuel | Panicked (partial : pkg_result) | Finished (r : pkg_result).

  Definition analyze_pkg (fuel : nat) (facts : list (nat * fact)) (annots : list (site * bool)) (ts : list trigger) : outcome :=
    match run fuel init_state (upstream_items facts) with
    | None => OutOfFuel
    | Some st0 =>
      let up := mp st0 in
      match run fuel st0 (annot_items annots) with
      | None => OutOfFuel
      | Some st1 =>
        match observe_package fuel st1 ts with
        | None => OutOfFuel
        | Some st2 =>
          let chosen := filter (fun s => mem s (choose_sites_to_export (mp st2))) (map fst (mp st2)) in
          match export up (mp st2) with
          | None => Panicked {| r_conflicts := conflicts st2; r_map := mp st2; r_chosen := chosen; r_fact := None |}
          | Some f => Finished {| r_conflicts := conflicts st2; r_map := mp st2; r_chosen := chosen; r_fact := f |}
          end
        end
      end
    end.
End Export.

(* ---- a scenario: several packages analysed in order, facts handed to importers ---- *)
Record pkg := {
  p_annots : list (site * bool);
  p_triggers : list trigger;
  p_imports : list nat }.            (* indices of earlier packages whose facts this one sees, in driver order *)

Fixpoint run_pkgs (exported : site -> bool) (fuel : nat) (pkgs : list pkg) (idx : nat)
                  (facts : list (nat * option fact)) : list outcome :=
  match pkgs with
  | [] => []
  | p :: rest =>
    let visible := flat_map (fun j => match lookup facts j with Some (Some f) => [(j, f)] | _ => [] end) (p_imports p) in
    let o := analyze_pkg exported fuel visible (p_annots p) (p_triggers p) in
    let f := match o with Finished r => r_fact r | _ => None end in
    o :: run_pkgs exported fuel rest (S idx) (facts ++ [(idx, f)])
  end.
