(* M8: the order-sensitive glue of the package pipeline, with every source of nondeterminism as an explicit
   argument (an "oracle"): the completion order of the concurrent per-function analyses, Go's map iteration
   order, the order in which the driver hands over dependency facts. Definitions only. *)
From Coq Require Import List Bool Arith PeanoNat.
From NM Require Import Engine.
Import ListNotations.

Section Collector.
  Variable T : Type.                       (* a trigger *)

  (* function.run: funcTriggers := make([][]T, n); for r := range funcChan { funcTriggers[r.index] = r.triggers };
     then flatten in index order.  `arrivals` is the sequence of (index, triggers) as received from the channel *)
  Fixpoint set_nth (l : list (list T)) (i : nat) (v : list T) : list (list T) :=
    match l, i with
    | [], _ => []
    | _ :: l', O => v :: l'
    | x :: l', S i' => x :: set_nth l' i' v
    end.

  Definition collect (n : nat) (arrivals : list (nat * list T)) : list T :=
    concat (fold_left (fun arr r => set_nth arr (fst r) (snd r)) arrivals (repeat [] n)).

  (* what a sequential analysis produces: the functions one after the other *)
  Definition sequential (n : nat) (analyse : nat -> list T) : list T :=
    concat (map analyse (seq 0 n)).
End Collector.

(* a Go map iterated in an arbitrary order: the oracle is the order in which its entries are visited *)
Definition map_iteration {K V} (entries visited : list (K * V)) : Prop :=
  forall kv, In kv visited <-> In kv entries.

(* the engine's view of its inputs: facts arrive in driver order and are sorted by package path, annotations come
   out of Go maps and are sorted by declaration position (both sorts are inside Engine.v); the trigger list is the
   collector's output *)
Definition engine_result (exported : site -> bool) (fuel : nat) (facts : list (nat * fact)) (annots : list (site * bool))
                         (ts : list trigger) : outcome :=
  analyze_pkg exported fuel facts annots ts.
