(* M4a: package / file scope (config/config.go).  Strings are lists of byte codes. Definitions only. *)
From Coq Require Import List Bool Arith PeanoNat.
Import ListNotations.

Definition str := list nat.

Fixpoint has_prefix (s p : str) {struct p} : bool :=          (* strings.HasPrefix(s, p) *)
  match p, s with
  | [], _ => true
  | _ :: _, [] => false
  | b :: p', a :: s' => Nat.eqb a b && has_prefix s' p'
  end.

(* strings.Split(s, ",") for a non-empty flag value *)
Definition comma : nat := 44.
Fixpoint split_comma (s : str) (cur : str) : list str :=
  match s with
  | [] => [rev cur]
  | c :: s' => if Nat.eqb c comma then rev cur :: split_comma s' [] else split_comma s' (c :: cur)
  end.

(* config.run: include list defaults to [""]; an empty flag leaves the default / leaves excludes empty *)
Definition includes_of_flag (flag : str) : list str := match flag with [] => [[]] | _ => split_comma flag [] end.
Definition excludes_of_flag (flag : str) : list str := match flag with [] => [] | _ => split_comma flag [] end.

(* Config.IsPkgInScope: the first include prefix that matches decides *)
Fixpoint is_pkg_in_scope (inc exc : list str) (path : str) : bool :=
  match inc with
  | [] => false
  | i :: inc' =>
      if has_prefix path i then negb (existsb (has_prefix path) exc)
      else is_pkg_in_scope inc' exc path
  end.

Definition in_scope_flags (inc_flag exc_flag path : str) : bool :=
  is_pkg_in_scope (includes_of_flag inc_flag) (excludes_of_flag exc_flag) path.

(* Config.IsFileInScope: templ-generated files are always in scope; otherwise no excluded docstring may occur in
   the file's leading comments (DocContains is abstracted as the list of docstrings that occur) *)
Definition is_file_in_scope (is_templ : bool) (excluded present : list nat) : bool :=
  is_templ || negb (existsb (fun e => existsb (Nat.eqb e) present) excluded).
