(* M10: automatic inference of contract(nonnil -> nonnil)  (assertion/function/functioncontracts/infer.go).
   A transcription of inferContracts / learnNilness / deriveContracts / nilnessOf / expandNilness over the abstract
   SSA form the hook functioncontracts.VerifInferAll renders (blocks with predecessors and successors, phis, the nil
   comparison a block ends with, the returned value; values classified the way nilnessOf classifies them).
   Executable definitions only. *)
From Coq Require Import List Bool Arith PeanoNat.
Import ListNotations.

(* how nilnessOf / expandNilness see an SSA value *)
Inductive ivkind :=
  | IVParam                       (* the contracted parameter: nothing intrinsic *)
  | IVNil                         (* the constant nil *)
  | IVConstUnk                    (* another constant: unknown, and never looked up in a table *)
  | IVNonNil                      (* Alloc, FieldAddr, FreeVar, Function, Global, IndexAddr, MakeChan/Closure/Map/Slice *)
  | IVChg (x : nat)               (* ChangeInterface x *)
  | IVMk (x : nat)                (* MakeInterface x *)
  | IVSlice (x : nat)             (* Slice x *)
  | IVS2AP (x : nat) (lenpos : bool)   (* SliceToArrayPointer x, array length > 0 *)
  | IVAppend1 (x : nat)           (* append(x) *)
  | IVAppendN (x : nat) (lit : bool)   (* append(x, ...): lit = the further arguments are the builder's varargs slice *)
  | IVPhi (edges : list nat)
  | IVOther.

Record iblk := {
  ib_preds : list nat;
  ib_succs : list nat;
  ib_phis : list nat;                       (* value ids of the phi instructions, in order *)
  ib_defs : list nat;                       (* value ids of the other instructions that are values *)
  ib_if : option (bool * nat * nat);        (* ends with `if x == y` (true) / `if x != y` (false) on operands that can be nil *)
  ib_ret : option nat }.                    (* an exit block ending with `return v` *)

Record ifn := { if_param : nat; if_vals : list ivkind; if_blocks : list iblk }.

Inductive nn := NNil | NNon | NUnk.
Definition nn_eqb (a b : nn) : bool :=
  match a, b with NNil, NNil | NNon, NNon | NUnk, NUnk => true | _, _ => false end.
Definition negate (a : nn) : nn := match a with NNil => NNon | NNon => NNil | NUnk => NUnk end.

(* nilnessTable: value id -> nilness (unknown can be stored), kept sorted by id so that equal maps are equal lists *)
Definition table := list (nat * nn).

Fixpoint tget (t : table) (k : nat) : option nn :=
  match t with
  | [] => None
  | (k', v) :: t' => if Nat.eqb k' k then Some v else if Nat.ltb k k' then None else tget t' k
  end.
Fixpoint tset (t : table) (k : nat) (v : nn) : table :=
  match t with
  | [] => [(k, v)]
  | (k', v') :: t' => if Nat.eqb k' k then (k, v) :: t' else if Nat.ltb k k' then (k, v) :: t else (k', v') :: tset t' k v
  end.
Fixpoint tdel (t : table) (k : nat) : table :=
  match t with
  | [] => []
  | (k', v') :: t' => if Nat.eqb k' k then t' else (k', v') :: tdel t' k
  end.
Fixpoint table_eqb (a b : table) : bool :=
  match a, b with
  | [], [] => true
  | (k, v) :: a', (k', v') :: b' => Nat.eqb k k' && nn_eqb v v' && table_eqb a' b'
  | _, _ => false
  end.

Section Fn.
  Variable F : ifn.
  Definition kind_of (v : nat) : ivkind := nth v (if_vals F) IVOther.
  Definition block (b : nat) : iblk := nth b (if_blocks F) {| ib_preds := []; ib_succs := []; ib_phis := []; ib_defs := []; ib_if := None; ib_ret := None |}.

  (* nilnessOf; the recursion follows operands, fuel = number of values *)
  Fixpoint nilness_of (fuel : nat) (t : table) (v : nat) : nn :=
    match fuel with
    | O => NUnk
    | S f =>
      let lookup := match tget t v with Some x => x | None => NUnk end in
      match kind_of v with
      | IVChg x | IVMk x | IVSlice x =>
          match nilness_of f t x with NUnk => lookup | u => u end
      | IVS2AP x lenpos =>
          let u := nilness_of f t x in
          if lenpos then (match u with NNil => NUnk | _ => NNon end)
          else (match u with NUnk => lookup | _ => u end)
      | IVAppend1 x => nilness_of f t x
      | IVAppendN x lit => if lit then NNon else (match nilness_of f t x with NNon => NNon | _ => lookup end)
      | IVNonNil => NNon
      | IVNil => NNil
      | IVConstUnk => NUnk
      | IVParam | IVPhi _ | IVOther => lookup
      end
    end.

  (* expandNilness *)
  Fixpoint expand (fuel : nat) (t : table) (v : nat) (n : nn) : table :=
    match fuel with
    | O => t
    | S f =>
      match tget t v with
      | Some _ => t
      | None =>
        let t1 := tset t v n in
        match kind_of v with
        | IVChg x | IVMk x | IVAppend1 x => expand f t1 x n
        | _ => t1
        end
      end
    end.

  Definition nvals := S (length (if_vals F)).
  Definition nof (t : table) (v : nat) := nilness_of nvals t v.
  Definition exp (t : table) (v : nat) (n : nn) := expand nvals t v n.

  (* addAll *)
  Definition add_all (t other : table) : table := fold_left (fun acc kv => tset acc (fst kv) (snd kv)) other t.

  (* add: append unless an equal table is present; returns (set, added) *)
  Definition tadd (s : list table) (t : table) : list table * bool :=
    if existsb (table_eqb t) s then (s, false) else (s ++ [t], true).

  (* learnNilness succ pred table: Some learned | None = conflict *)
  Definition learn (succ pred : nat) (t : table) : option table :=
    match ib_if (block pred) with
    | None => Some []
    | Some (iseq, x, y) =>
      let s0 := nth 0 (ib_succs (block pred)) 0 in
      let s1 := nth 1 (ib_succs (block pred)) 0 in
      let eqS := if iseq then s0 else s1 in
      let neS := if iseq then s1 else s0 in
      let xn := nof t x in
      let yn := nof t y in
      match xn, yn with
      | NUnk, _ | _, NUnk =>
        match yn with
        (* on the not-equal edge only a nil operand teaches something (repair of finding F42) *)
        | NUnk => Some (if Nat.eqb succ eqS then exp [] y xn else match xn with NNon => [] | _ => exp [] y (negate xn) end)
        | _ => Some (if Nat.eqb succ eqS then exp [] x yn else match yn with NNon => [] | _ => exp [] x (negate yn) end)
        end
      | _, _ =>
        (* the not-equal edge is unreachable only when both operands are nil (repair of finding F45) *)
        if (nn_eqb xn yn && Nat.eqb succ eqS) || (negb (nn_eqb xn NNil && nn_eqb yn NNil) && Nat.eqb succ neS) then Some [] else None
      end
    end.

  (* association list keyed by predecessor, a Go map: storing an existing key replaces in place *)
  Fixpoint astore {A} (m : list (nat * A)) (k : nat) (v : A) : list (nat * A) :=
    match m with
    | [] => [(k, v)]
    | (k', v') :: m' => if Nat.eqb k' k then (k, v) :: m' else (k', v') :: astore m' k v
    end.
  Fixpoint aget {A} (m : list (nat * A)) (k : nat) : option A :=
    match m with
    | [] => None
    | (k', v') :: m' => if Nat.eqb k' k then Some v' else aget m' k
    end.

  Record ist := { i_sets : list (nat * list table); i_seen : list nat }.
  Definition set_of (s : ist) (b : nat) : list table := match aget (i_sets s) b with Some l => l | None => [] end.
  Definition is_seen (s : ist) (b : nat) : bool := existsb (Nat.eqb b) (i_seen s).

  (* entering block b over its edge number idx (from predecessor pred) with table t (after learning from the branch):
     the nilness of every phi operand on that edge is read first (phis are assigned in parallel), then everything known
     about a value defined by an instruction of b is dropped (those instructions are executed again), then the phis
     are assigned (repair of findings F44) *)
  Definition phi_cands (b idx : nat) (t : table) : list (nat * nn) :=
    map (fun phi => (phi, match kind_of phi with IVPhi edges => nof t (nth idx edges 0) | _ => NUnk end)) (ib_phis (block b)).
  Definition kill (t : table) (vs : list nat) : table := fold_left tdel vs t.
  Definition enter (b idx : nat) (t : table) : table :=
    let cs := phi_cands b idx t in
    let t1 := kill (kill t (ib_phis (block b))) (ib_defs (block b)) in
    fold_left (fun acc pc => match snd pc with NUnk => acc | n => exp acc (fst pc) n end) cs t1.

  (* the tables propagated into block b over its edge number idx *)
  Definition from_pred (s : ist) (b idx pred : nat) : list table :=
    let ps := match set_of s pred with [] => [[]] | l => l end in
    fold_left (fun acc t =>
      match learn b pred t with
      | None => acc
      | Some l => fst (tadd acc (enter b idx (add_all t l)))
      end) ps [].

  Definition under_preds (s : ist) (b : nat) : list (nat * list table) :=
    fst (fold_left (fun (mi : list (nat * list table) * nat) pred =>
      let '(m, idx) := mi in
      ((if is_seen s pred then astore m pred (from_pred s b idx pred) else m), S idx)) (ib_preds (block b)) ([], 0)).

  Definition max_tables := 1024.

  Inductive outcome := IGaveUp | IOutOfFuel | IDone (s : ist).

  (* the work list loop *)
  Fixpoint loop (fuel : nat) (s : ist) (queue : list nat) : outcome :=
    match queue with
    | [] => IDone s
    | b :: rest =>
      match fuel with
      | O => IOutOfFuel
      | S f =>
        let s0 := match aget (i_sets s) b with Some _ => s | None => {| i_sets := astore (i_sets s) b []; i_seen := i_seen s |} end in
        let m := under_preds s0 b in
        let '(newset, upd) :=
          fold_left (fun (acc : list table * bool) (pt : nat * list table) =>
            fold_left (fun (acc2 : list table * bool) t => let '(l, a) := tadd (fst acc2) t in (l, snd acc2 || a)) (snd pt) acc)
            m (set_of s0 b, false) in
        let s1 := {| i_sets := astore (i_sets s0) b newset; i_seen := i_seen s0 |} in
        if is_seen s1 b && negb upd then loop f s1 rest
        else
          let s2 := {| i_sets := i_sets s1; i_seen := if is_seen s1 b then i_seen s1 else b :: i_seen s1 |} in
          if Nat.leb max_tables (length newset) then IGaveUp
          else loop f s2 (rest ++ ib_succs (block b))
      end
    end.

  (* deriveContracts over the given per-block sets: true = contract(nonnil -> nonnil) *)
  Definition ret_blocks : list (nat * nat) :=
    flat_map (fun ib => match ib_ret (snd ib) with Some v => [(fst ib, v)] | None => [] end)
             (combine (seq 0 (length (if_blocks F))) (if_blocks F)).

  (* the tables of a block, or the table that knows nothing when the block has none *)
  Definition tables_or_top (sets0 : list (nat * list table)) (b : nat) : list table :=
    match aget sets0 b with Some (x :: l) => x :: l | _ => [[]] end.

  (* one (return block, table) pair as deriveContracts looks at it: nilness of the parameter and of the returned value *)
  Definition ret_checks (sets0 : list (nat * list table)) : list (nn * nn * nat) :=
    flat_map (fun bv => map (fun t => (nof t (if_param F), nof t (snd bv), snd bv)) (tables_or_top sets0 (fst bv))) ret_blocks.

  (* a counterexample to nonnil -> nonnil: parameter not known nil, result not known non-nil, and not `return param` *)
  Definition counterex (c : nn * nn * nat) : bool :=
    let '(pn, rn, ret) := c in
    match pn with
    | NNil => false
    | _ => negb (nn_eqb rn NNon || (nn_eqb pn NUnk && nn_eqb rn NUnk && Nat.eqb (if_param F) ret))
    end.

  Definition derive (sets0 : list (nat * list table)) : bool :=
    let cs := ret_checks sets0 in
    if existsb counterex cs then false
    else
      let total := length cs in
      let nilp := length (filter (fun c => nn_eqb (fst (fst c)) NNil) cs) in
      let nonret := length (filter (fun c => nn_eqb (snd (fst c)) NNon) cs) in
      (* the useless cases: the parameter is nil on every path, or the result is non-nil on every path *)
      if Nat.eqb nilp total || Nat.eqb nonret total then false else true.

  Inductive verdict := IInferred | INotInferred | INoFuel.

  (* inferContracts *)
  Definition infer (fuel : nat) : verdict :=
    if derive [] then IInferred
    else match loop fuel {| i_sets := []; i_seen := [] |} [0] with
         | IGaveUp => INotInferred
         | IOutOfFuel => INoFuel
         | IDone s => if derive (i_sets s) then IInferred else INotInferred
         end.

  (* ---- the validated part: what the soundness theorem (proofs/InferSound.v) asks of a final state ---- *)

  (* values whose nilness nilnessOf reads off the value itself or off the table, without following operands *)
  Definition plain_kind (k : ivkind) : bool :=
    match k with
    | IVParam | IVNil | IVConstUnk | IVNonNil | IVPhi _ | IVOther => true
    | IVAppendN _ lit => lit
    | _ => false
    end.
  Definition plain : bool := forallb plain_kind (if_vals F).

  (* shape of the function the semantics relies on: the two successors of a nil comparison are different blocks, and
     the contracted parameter is not (re)defined by any instruction *)
  Definition wf_blk (b : iblk) : bool :=
    (match ib_if b with Some _ => negb (Nat.eqb (nth 0 (ib_succs b) 0) (nth 1 (ib_succs b) 0)) | None => true end)
    && negb (existsb (Nat.eqb (if_param F)) (ib_phis b ++ ib_defs b)).
  Definition wf_fn : bool := forallb wf_blk (if_blocks F).

  (* shape of the control-flow graph: the entry block has no predecessor and no block has the same predecessor twice
     (the SSA builder replaces an If with two equal successors by a Jump) *)
  Fixpoint nodupb (l : list nat) : bool :=
    match l with [] => true | x :: r => negb (existsb (Nat.eqb x) r) && nodupb r end.
  Definition wf_cfg : bool :=
    (match ib_preds (block 0) with [] => true | _ => false end) && forallb (fun b => nodupb (ib_preds b)) (if_blocks F).

  Definition covered (s : ist) (b : nat) (t : table) : bool :=
    match set_of s b with [] => true | l => existsb (table_eqb t) l end.
  Definition stable_edge (s : ist) (p b idx : nat) : bool :=
    forallb (fun t => match learn b p t with None => true | Some l => covered s b (enter b idx (add_all t l)) end)
            (tables_or_top (i_sets s) p).
  Fixpoint forallb_idx {A} (f : nat -> A -> bool) (i : nat) (l : list A) : bool :=
    match l with [] => true | x :: r => f i x && forallb_idx f (S i) r end.
  (* a post-fixpoint: the entry block is seen and has no tables; every table of a seen block, pushed over any edge
     it can take, lands on a table the successor (seen as well) already has *)
  Definition stable (s : ist) : bool :=
    is_seen s 0 && (match set_of s 0 with [] => true | _ => false end) &&
    forallb (fun p =>
      forallb (fun b => is_seen s b &&
        forallb_idx (fun idx q => if Nat.eqb q p then stable_edge s p b idx else true) 0 (ib_preds (block b)))
        (ib_succs (block p))) (i_seen s).

  (* wrapper values (ChangeInterface, MakeInterface, Slice, SliceToArrayPointer, append) whose operand is computed in the
     same block or is never computed by an instruction (the parameter, a constant): value and operand are then in step
     in every state of an execution *)
  Definition operand_of (k : ivkind) : option nat :=
    match k with
    | IVChg x | IVMk x | IVSlice x | IVS2AP x _ | IVAppend1 x | IVAppendN x false => Some x
    | _ => None
    end.
  Definition all_defs : list nat := flat_map (fun b => ib_phis b ++ ib_defs b) (if_blocks F).
  Definition semiplain : bool :=
    forallb (fun b => forallb (fun v => match operand_of (kind_of v) with
                                        | None => true
                                        | Some x => existsb (Nat.eqb x) (ib_phis b ++ ib_defs b) || negb (existsb (Nat.eqb x) all_defs)
                                        end) (ib_phis b ++ ib_defs b)) (if_blocks F).

  (* inferContracts with the validation: true only when the final state passed `stable` *)
  Definition infer_checked (fuel : nat) : bool :=
    wf_fn &&
    (if derive [] then true
     else match loop fuel {| i_sets := []; i_seen := [] |} [0] with
          | IDone s => stable s && derive (i_sets s)
          | _ => false
          end).
  (* the final state is stable (whatever the function) : reported by the correspondence suite *)
  Definition final_stable (fuel : nat) : bool :=
    match loop fuel {| i_sets := []; i_seen := [] |} [0] with IDone s => stable s | _ => true end.
End Fn.
