(* M7 (function and package level, ideal form): the flow analysis that NilAway's backward propagation computes
   on the MiniGo fragment, written as a forward may-analysis: every variable carries the set of producers its
   current value may come from; uses emit triggers (producer, consumer) in the vocabulary of the engine M1.
   A nil check replaces the producers of the checked variable by "never nil" on the branch where it succeeded;
   short-circuit conditions are analysed operand by operand, as the pre-processed CFG does.
   Loops are solved by iteration to a post-fixed point (None = not reached within the fuel).
   Package-level variables are tracked flow-sensitively inside a function exactly like locals (this is what
   the implementation does, and what makes it blind to a callee that re-assigns them: the analysis also
   computes whether a value tracked in this way across a call is ever used, a_gsafe).
   Functions with a nonnil->nonnil contract (ctr) get call-site-specific parameter and result sites, and the
   callee's triggers that start at its parameter or end at its result are duplicated per call site of the same
   package, those ending at the result being controlled by the call-site parameter site. *)
From Coq Require Import List Bool Arith PeanoNat.
From NM Require Import Engine MiniGo.
Import ListNotations.

(* annotation sites of the fragment *)
Inductive asite :=
  | SParam (f : fname) (i : nat) | SResult (f : fname) | SGlobal (k : nat)
  | SCallParam (f : fname) (cs : nat) | SCallResult (f : fname) (cs : nat)
  | SIParam (k m i : nat) | SIResult (k m : nat).      (* parameter i / result of method m of interface k *)

(* sites as the engine sees them (natural numbers) *)
Definition enc (s : asite) : site :=
  match s with
  | SParam f i => 7 * (f * 64 + i)
  | SResult f => 7 * f + 1
  | SGlobal k => 7 * k + 2
  | SCallParam f cs => 7 * (cs * 64 + f) + 3
  | SCallResult f cs => 7 * (cs * 64 + f) + 4
  | SIParam k m i => 7 * ((k * 8 + m) * 8 + i) + 5
  | SIResult k m => 7 * (k * 8 + m) + 6
  end.

Inductive prod :=
  | PNil                      (* the literal nil, or an unassigned variable: always nil-able *)
  | PNever                    (* an allocation, or a value that passed a nil check *)
  | PSite (s : asite)         (* a parameter, a call result or a package-level variable: nil-able iff the site is *)
  | PStale                    (* marker: a package-level variable tracked across a call that may have re-assigned it;
                                 also an error value, which the fragment only tests and hands on *)
  (* the (value, error) convention: result 0 of call cs of an error-returning f whose error is held by xe and has
     not been checked yet -- used unchecked it counts as nil ("lacking guarding"); the same after err == nil was
     established; the same once its error variable was overwritten (it can never be checked any more) *)
  | PGuard (f : fname) (cs : nat) (xe : var)
  | PChecked (f : fname) (cs : nat)
  | PUng (f : fname) (cs : nat).

Definition asite_eqb (s t : asite) : bool :=
  match s, t with
  | SParam f i, SParam g j => Nat.eqb f g && Nat.eqb i j
  | SResult f, SResult g => Nat.eqb f g
  | SGlobal k, SGlobal l => Nat.eqb k l
  | SCallParam f c, SCallParam g d => Nat.eqb f g && Nat.eqb c d
  | SCallResult f c, SCallResult g d => Nat.eqb f g && Nat.eqb c d
  | SIParam k m i, SIParam k' m' i' => Nat.eqb k k' && Nat.eqb m m' && Nat.eqb i i'
  | SIResult k m, SIResult k' m' => Nat.eqb k k' && Nat.eqb m m'
  | _, _ => false
  end.
Definition prod_eqb (p q : prod) : bool :=
  match p, q with
  | PNil, PNil | PNever, PNever => true
  | PSite s, PSite t => asite_eqb s t
  | PStale, PStale => true
  | PGuard f c x, PGuard g d y => Nat.eqb f g && Nat.eqb c d && var_eqb x y
  | PChecked f c, PChecked g d => Nat.eqb f g && Nat.eqb c d
  | PUng f c, PUng g d => Nat.eqb f g && Nat.eqb c d
  | _, _ => false
  end.

Definition kind_of (p : prod) : kind :=
  match p with
  | PNil | PGuard _ _ _ | PUng _ _ => KAlways
  | PNever | PStale => KNever
  | PSite s => KCond (enc s)
  | PChecked f _ => KCond (enc (SResult f))
  end.

(* a use of a value is covered by the soundness argument unless it may be such a stale package-level value *)
Definition use_ok (ps : list prod) : bool := negb (existsb (prod_eqb PStale) ps).

(* triggers, before sites are numbered for the engine *)
Inductive scons := CAlways | CSite (s : asite).
Record strig := { s_id : nat; s_prod : prod; s_cons : scons; s_ctrl : option asite }.
Definition mk_trigger (id : nat) (p : prod) (c : scons) : strig :=
  {| s_id := id; s_prod := p; s_cons := c; s_ctrl := None |}.
Definition etrig (t : strig) : trigger :=
  {| t_id := s_id t; t_prod := kind_of (s_prod t);
     t_cons := match s_cons t with CAlways => KAlways | CSite s => KCond (enc s) end;
     t_ctrl := match s_ctrl t with Some s => Some (enc s) | None => None end |}.

Definition aset := list prod.
Definition env := list (var * aset).

(* an unassigned local holds nil; a package-level variable not touched yet in this function holds whatever
   its site says *)
Definition dflt (x : var) : aset := match x with VL _ => [PNil] | VG k => [PSite (SGlobal k)] end.
Fixpoint aget (e : env) (x : var) : aset :=
  match e with [] => dflt x | (y, a) :: e' => if var_eqb y x then a else aget e' x end.
Definition aput (e : env) (x : var) (a : aset) : env := (x, a) :: e.

(* guards: establishing err == nil, overwriting err *)
Definition env_map (fn : prod -> prod) (e : env) : env := map (fun ya => (fst ya, map fn (snd ya))) e.
Definition check_guard (xe : var) (p : prod) : prod :=
  match p with PGuard f cs y => if var_eqb y xe && negb (is_glob y) then PChecked f cs else p | _ => p end.
Definition kill_guard (xe : var) (p : prod) : prod :=
  match p with PGuard f cs y => if var_eqb y xe then PUng f cs else p | _ => p end.
(* assignment to x: results whose error x held can no longer be checked *)
Definition aputk (e : env) (x : var) (a : aset) : env := aput (env_map (kill_guard x) e) x (map (kill_guard x) a).
(* triggers are merged per (producer site, consumer): a use reached by a checked and by an unchecked result of the
   same function counts as unchecked -- the checked forms are dropped when a use is turned into triggers *)
Definition norm (ps : aset) : aset :=
  filter (fun p => match p with
                   | PChecked f cs => negb (existsb (fun q => match q with PGuard g _ _ | PUng g _ => Nat.eqb f g | _ => false end) ps)
                   | _ => true
                   end) ps.

Definition prods_of_atom (e : env) (a : atom_e) : aset :=
  match a with ANil => [PNil] | ANew => [PNever] | AVar x => aget e x end.
(* the producers of a use *)
Definition uprods (e : env) (a : atom_e) : aset := norm (prods_of_atom e a).
Definition never_nil (ps : aset) : bool := forallb (fun p => match kind_of p with KNever => true | _ => false end) ps.

Definition keys (e : env) : list var := map fst e.
Definition subset_b (a b : aset) : bool := forallb (fun p => existsb (prod_eqb p) b) a.
(* e1 below e2 on every variable either mentions *)
Definition env_leb (e1 e2 : env) : bool :=
  forallb (fun x => subset_b (aget e1 x) (aget e2 x)) (keys e1 ++ keys e2).
(* duplicate-free union of producer sets, duplicate-free list of variables *)
Definition union (a b : aset) : aset := a ++ filter (fun p => negb (existsb (prod_eqb p) a)) b.
Fixpoint dedup_vars (l : list var) : list var :=
  match l with
  | [] => []
  | x :: l' => if existsb (var_eqb x) l' then dedup_vars l' else x :: dedup_vars l'
  end.
Definition join (e1 e2 : env) : env :=
  map (fun x => (x, union (aget e1 x) (aget e2 x))) (dedup_vars (keys e1 ++ keys e2)).
Definition join_opt (o1 o2 : option env) : option env :=
  match o1, o2 with
  | None, o | o, None => o
  | Some e1, Some e2 => Some (join e1 e2)
  end.

(* a condition: environment where it holds, environment where it fails, triggers of the dereferences in it,
   and whether every dereferenced value is covered *)
Fixpoint acond (c : cond) (e : env) : env * env * list strig * bool :=
  match c with
  | COpaque => (e, e, [], true)
  | CNonNil x => (aput e x [PNever], env_map (check_guard x) e, [], true)
  | CDeref d x => (e, e, map (fun p => mk_trigger d p CAlways) (norm (aget e x)), use_ok (aget e x))
  | CNot c1 => let '(et, ef, tr, b) := acond c1 e in (ef, et, tr, b)
  | CAnd c1 c2 =>
      let '(et1, ef1, tr1, b1) := acond c1 e in
      let '(et2, ef2, tr2, b2) := acond c2 et1 in
      (et2, join ef1 ef2, tr1 ++ tr2, b1 && b2)
  | COr c1 c2 =>
      let '(et1, ef1, tr1, b1) := acond c1 e in
      let '(et2, ef2, tr2, b2) := acond c2 ef1 in
      (join et1 et2, ef2, tr1 ++ tr2, b1 && b2)
  end.
Definition cond_true (c : cond) (e : env) : env := fst (fst (fst (acond c e))).

(* writing into a package-level variable is a use of the written value at the variable's site *)
Definition store_triggers (x : var) (a : aset) : list strig :=
  match x with
  | VG k => map (fun p => mk_trigger 0 p (CSite (SGlobal k))) a
  | VL _ => []
  end.

(* argument i is a use of its value at the site sf i *)
Fixpoint arg_triggers (e : env) (sf : nat -> asite) (i : nat) (args : list atom_e) : list strig :=
  match args with
  | [] => []
  | a :: args' => map (fun p => mk_trigger 0 p (CSite (sf i))) (uprods e a) ++ arg_triggers e sf (S i) args'
  end.

(* at a call, a package-level variable that is no longer (also) described by its site becomes stale *)
Definition fresh (e : env) (k : nat) : bool := existsb (prod_eqb (PSite (SGlobal k))) (aget e (VG k)).
Fixpoint mark_stale (ng : nat) (e : env) : env :=
  match ng with
  | O => e
  | S k => let e' := mark_stale k e in if fresh e k then e' else aput e' (VG k) (PStale :: aget e (VG k))
  end.

Definition is_nil_atom (a : atom_e) : bool := match a with ANil => true | _ => false end.

(* sites used by a call of g at call site cs: a contracted callee gets call-site-specific ones; a call with only
   literal arguments to a contracted callee of another package reads the callee's shared result site *)
Definition call_param_site (ctr : fname -> bool) (g : fname) (cs i : nat) : asite :=
  if ctr g then SCallParam g cs else SParam g i.
Definition call_result_site (ctr : fname -> bool) (sp : fname -> bool) (g : fname) (cs : nat) (args : list atom_e) : asite :=
  if ctr g && (sp g || negb (forallb is_nil_atom args)) then SCallResult g cs else SResult g.

Record ares := { a_env : option env;      (* None: control never falls through *)
                 a_trig : list strig;
                 a_gsafe : bool;           (* no stale package-level value is used *)
                 a_rsafe : bool }.         (* every return statement returns a value that is never nil *)

Section Analyze.
  Variable ng : nat.             (* number of package-level variables *)
  Variable ctr : fname -> bool.  (* functions with a nonnil->nonnil contract *)
  Variable sp : fname -> bool.   (* callee in the package of the function being analysed? *)
  Variable f : fname.            (* the function being analysed *)

  (* loop: iterate e := e join post(body under the test) until the body's result is below e *)
  Fixpoint loop_inv (an_body : env -> option ares) (c : cond) (n : nat) (e : env) : option (env * ares) :=
    match n with
    | O => None
    | S n' =>
      match an_body (cond_true c e) with
      | None => None
      | Some r =>
          match a_env r with
          | None => Some (e, r)
          | Some eb => if env_leb eb e then Some (e, r) else loop_inv an_body c n' (join e eb)
          end
      end
    end.

  Fixpoint analyze (fuel : nat) (st : stmt) (e : env) : option ares :=
    match st with
    | SSkip => Some {| a_env := Some e; a_trig := []; a_gsafe := true; a_rsafe := true |}
    | SSeq s1 s2 =>
        match analyze fuel s1 e with
        | None => None
        | Some r1 =>
            match a_env r1 with
            | None => Some r1
            | Some e1 =>
                match analyze fuel s2 e1 with
                | None => None
                | Some r2 => Some {| a_env := a_env r2; a_trig := a_trig r1 ++ a_trig r2; a_gsafe := a_gsafe r1 && a_gsafe r2; a_rsafe := a_rsafe r1 && a_rsafe r2 |}
                end
            end
        end
    | SAssign x a =>
        let ps := prods_of_atom e a in
        Some {| a_env := Some (aputk e x ps); a_trig := store_triggers x (norm ps); a_gsafe := use_ok ps || negb (is_glob x); a_rsafe := true |}
    | SCall cs x g args =>
        let res := [PSite (call_result_site ctr sp g cs args)] in
        let e' := mark_stale ng e in
        Some {| a_env := Some (match x with Some y => aputk e' y res | None => e' end);
                a_trig := arg_triggers e (call_param_site ctr g cs) 0 args ++
                          match x with Some y => store_triggers y res | None => [] end;
                a_gsafe := forallb (fun a => use_ok (prods_of_atom e a)) args; a_rsafe := true |}
    | SDeref d x => Some {| a_env := Some e; a_trig := map (fun p => mk_trigger d p CAlways) (norm (aget e x)); a_gsafe := use_ok (aget e x); a_rsafe := true |}
    | SIf c s1 s2 =>
        let '(et, ef, trc, bc) := acond c e in
        match analyze fuel s1 et, analyze fuel s2 ef with
        | Some r1, Some r2 =>
            Some {| a_env := join_opt (a_env r1) (a_env r2); a_trig := trc ++ a_trig r1 ++ a_trig r2;
                    a_gsafe := bc && a_gsafe r1 && a_gsafe r2; a_rsafe := a_rsafe r1 && a_rsafe r2 |}
        | _, _ => None
        end
    | SWhile c body =>
        match loop_inv (analyze fuel body) c fuel e with
        | None => None
        | Some (einv, r) =>
            let '(_, ef, trc, bc) := acond c einv in
            Some {| a_env := Some ef; a_trig := trc ++ a_trig r; a_gsafe := bc && a_gsafe r; a_rsafe := a_rsafe r |}
        end
    | SReturn a =>
        Some {| a_env := None;
                a_trig := map (fun p => mk_trigger 0 p (CSite (SResult f))) (uprods e a);
                a_gsafe := use_ok (prods_of_atom e a); a_rsafe := never_nil (uprods e a) |}
    | SReturn2 a er =>
        (* the value result only matters when the error result is nil; the fragment decides this per return:
           a literal nil / a fresh error / an error variable that is known nil or non-nil here *)
        let eps := prods_of_atom e er in
        let nonnil := forallb (fun p => match p with PNever => true | _ => false end) eps in
        let isnil := forallb (fun p => match p with PNil => true | _ => false end) eps in
        Some {| a_env := None;
                a_trig := if nonnil then [] else map (fun p => mk_trigger 0 p (CSite (SResult f))) (uprods e a);
                a_gsafe := use_ok (prods_of_atom e a) && (nonnil || isnil); a_rsafe := never_nil (uprods e a) |}
    | SCall2 cs x xe g args =>
        let e' := mark_stale ng e in
        let res := match xe with Some y => [PGuard g cs y] | None => [PUng g cs] end in
        (* both targets are assigned: guards that depend on either are gone *)
        let e1 := match x with Some y => env_map (kill_guard y) e' | None => e' end in
        let e2 := match xe with Some y => env_map (kill_guard y) e1 | None => e1 end in
        let e3 := match xe with Some y => aput e2 y [PStale] | None => e2 end in
        Some {| a_env := Some (match x with Some y => aput e3 y res | None => e3 end);
                a_trig := arg_triggers e (fun i => SParam g i) 0 args;
                a_gsafe := forallb (fun a => use_ok (prods_of_atom e a)) args; a_rsafe := true |}
    | SRetCall cs g args =>
        (* return g(args): the callee's result site flows into this function's, whatever the error (the callee's
           value result only matters when its error is nil, and then so does this one's) *)
        Some {| a_env := None;
                a_trig := arg_triggers e (fun i => SParam g i) 0 args ++ [mk_trigger 0 (PSite (SResult g)) (CSite (SResult f))];
                a_gsafe := forallb (fun a => use_ok (prods_of_atom e a)) args; a_rsafe := false |}
    | SConv x _ _ => Some {| a_env := Some (aputk e x [PNever]); a_trig := store_triggers x [PNever]; a_gsafe := true; a_rsafe := true |}
    | SConvI x y _ _ =>
        (* an interface value converted to another interface type: nil stays nil *)
        let ps := prods_of_atom e (AVar y) in
        Some {| a_env := Some (aputk e x ps); a_trig := store_triggers x (norm ps); a_gsafe := use_ok ps || negb (is_glob x); a_rsafe := true |}
    | SCallI _ d x xi k m args =>
        (* calling a method on an interface value dereferences it; arguments and result go through the sites of
           the interface method *)
        let res := [PSite (SIResult k m)] in
        let e' := mark_stale ng e in
        Some {| a_env := Some (match x with Some y => aputk e' y res | None => e' end);
                a_trig := map (fun p => mk_trigger d p CAlways) (norm (aget e xi)) ++
                          arg_triggers e (SIParam k m) 0 args ++
                          match x with Some y => store_triggers y res | None => [] end;
                a_gsafe := use_ok (aget e xi) && forallb (fun a => use_ok (prods_of_atom e a)) args; a_rsafe := true |}
    end.
End Analyze.

Fixpoint entry_env (f : fname) (i n : nat) : env :=
  match n with O => [] | S n' => (VL i, [PSite (SParam f i)]) :: entry_env f (S i) n' end.

Definition falloff (f : fname) : strig := mk_trigger 0 PNil (CSite (SResult f)).

(* one function: parameters come from their sites; falling off the end returns the zero value nil *)
Definition analyze_func (ng fuel : nat) (ctr : fname -> bool) (sp : fname -> bool) (f : fname) (fd : func)
  : option (list strig * bool) :=
  match analyze ng ctr sp f fuel (f_body fd) (entry_env f 0 (f_nparams fd)) with
  | None => None
  | Some r =>
      Some (match a_env r with
            | Some _ => a_trig r ++ [falloff f]
            | None => a_trig r
            end, a_gsafe r)
  end.

Fixpoint analyze_funcs (ng fuel : nat) (ctr : fname -> bool) (sp : fname -> fname -> bool) (f : fname) (fds : list func)
  : option (list (list strig) * bool) :=
  match fds with
  | [] => Some ([], true)
  | fd :: rest =>
      match analyze_func ng fuel ctr (sp f) f fd, analyze_funcs ng fuel ctr sp (S f) rest with
      | Some (t1, b1), Some (t2, b2) => Some (t1 :: t2, b1 && b2)
      | _, _ => None
      end
  end.

(* declarations `var g *T` (no initial value) put nil into the variable's site *)
Fixpoint decl_triggers (k : nat) (gi : list bool) : list strig :=
  match gi with
  | [] => []
  | b :: gi' => (if b then [] else [mk_trigger 0 PNil (CSite (SGlobal k))]) ++ decl_triggers (S k) gi'
  end.

(* ---- duplication of a contracted callee's triggers onto a call site ---- *)
Definition is_param_prod (g : fname) (t : strig) : bool := prod_eqb (s_prod t) (PSite (SParam g 0)).
Definition is_res_cons (g : fname) (t : strig) : bool :=
  match s_cons t with CSite s => asite_eqb s (SResult g) | CAlways => false end.
Definition touches (g : fname) (t : strig) : bool := is_param_prod g t || is_res_cons g t.
Definition dupt (g : fname) (cs : nat) (t : strig) : strig :=
  {| s_id := s_id t;
     s_prod := if is_param_prod g t then PSite (SCallParam g cs) else s_prod t;
     s_cons := if is_res_cons g t then CSite (SCallResult g cs) else s_cons t;
     s_ctrl := if is_res_cons g t then Some (SCallParam g cs) else None |}.
Definition dups (g : fname) (cs : nat) (tg : list strig) : list strig := map (dupt g cs) (filter (touches g) tg).

(* ---- interfaces: the (interface, implementation) pairs witnessed by conversions, and their triggers ---- *)
Fixpoint convs_of (st : stmt) : list (nat * nat) :=
  match st with
  | SSeq a b | SIf _ a b => convs_of a ++ convs_of b
  | SWhile _ b => convs_of b
  | SConv _ k j => [(k, j)]
  | _ => []
  end.

Fixpoint iconvs_of (st : stmt) : list (nat * nat) :=
  match st with
  | SSeq a b | SIf _ a b => iconvs_of a ++ iconvs_of b
  | SWhile _ b => iconvs_of b
  | SConvI _ _ k k2 => [(k, k2)]
  | _ => []
  end.

Fixpoint seq_from (i n : nat) : list nat := match n with O => [] | S n' => i :: seq_from (S i) n' end.

(* method m of the implementation, function f with np parameters (the receiver first): a nil-able result of f makes
   the interface method's result nil-able; a nil-able parameter of the interface method makes f's nil-able *)
Definition affil_method (k m : nat) (f : fname) (np : nat) : list strig :=
  mk_trigger 0 (PSite (SResult f)) (CSite (SIResult k m)) ::
  map (fun i => mk_trigger 0 (PSite (SIParam k m i)) (CSite (SParam f (S i)))) (seq_from 0 (pred np)).

Fixpoint affil_methods (funcs : list func) (k m : nat) (row : list fname) : list strig :=
  match row with
  | [] => []
  | f :: row' =>
      match nth_error funcs f with
      | Some fd => affil_method k m f (f_nparams fd)
      | None => []
      end ++ affil_methods funcs k (S m) row'
  end.

(* the methods of I_k implemented by S_j: the first ones of the row of S_j *)
Definition isig (p : program) (k : nat) : list nat := nth k (p_isig p) [].
Definition affil (p : program) (kj : nat * nat) : list strig :=
  affil_methods (p_funcs p) (fst kj) 0 (firstn (length (isig p (fst kj))) (nth (snd kj) (p_impls p) [])).

(* an interface value of type I_k2 used as an I_k: method m of I_k2 "implements" method m of I_k *)
Definition ilink_method (k k2 m np : nat) : list strig :=
  mk_trigger 0 (PSite (SIResult k2 m)) (CSite (SIResult k m)) ::
  map (fun i => mk_trigger 0 (PSite (SIParam k m i)) (CSite (SIParam k2 m i))) (seq_from 0 np).
Fixpoint ilink_methods (k k2 m : nat) (sig : list nat) : list strig :=
  match sig with
  | [] => []
  | np :: sig' => ilink_method k k2 m np ++ ilink_methods k k2 (S m) sig'
  end.
Definition iaffil (p : program) (kk : nat * nat) : list strig := ilink_methods (fst kk) (snd kk) 0 (isig p (fst kk)).

Fixpoint calls_of (st : stmt) : list (fname * nat) :=
  match st with
  | SSeq a b | SIf _ a b => calls_of a ++ calls_of b
  | SWhile _ b => calls_of b
  | SCall cs _ g _ => [(g, cs)]
  | _ => []
  end.

Definition dups_of_caller (ctr : fname -> bool) (sp : fname -> bool) (tss : list (list strig)) (fd : func) : list strig :=
  flat_map (fun gc => if ctr (fst gc) && sp (fst gc) then dups (fst gc) (snd gc) (nth (fst gc) tss []) else [])
           (calls_of (f_body fd)).

Fixpoint dups_all (ctr : fname -> bool) (sp : fname -> fname -> bool) (tss : list (list strig)) (f : fname) (fds : list func)
  : list (list strig) :=
  match fds with
  | [] => []
  | fd :: rest => dups_of_caller ctr (sp f) tss fd :: dups_all ctr sp tss (S f) rest
  end.

(* every call of a contracted function comes from the callee's own package *)
Fixpoint ctr_local (ctr : fname -> bool) (sp : fname -> fname -> bool) (f : fname) (fds : list func) : bool :=
  match fds with
  | [] => true
  | fd :: rest => forallb (fun gc => negb (ctr (fst gc)) || sp f (fst gc)) (calls_of (f_body fd)) && ctr_local ctr sp (S f) rest
  end.

(* "always safe": when every return statement of an error-returning function of the package returns a value that is
   never nil, the unchecked uses of its results in that package are not reported (the triggers are deleted) *)
Definition func_rsafe (ng fuel : nat) (ctr : fname -> bool) (sp : fname -> bool) (f : fname) (fd : func) : bool :=
  match analyze ng ctr sp f fuel (f_body fd) (entry_env f 0 (f_nparams fd)) with
  | Some r => a_rsafe r && match a_env r with None => true | Some _ => false end
  | None => false
  end.
Fixpoint rsafe_all (ng fuel : nat) (ctr : fname -> bool) (sp : fname -> fname -> bool) (f : fname) (fds : list func) : list bool :=
  match fds with
  | [] => []
  | fd :: rest => func_rsafe ng fuel ctr (sp f) f fd :: rsafe_all ng fuel ctr sp (S f) rest
  end.
Definition exempt (rs : list bool) (sp : fname -> bool) (t : strig) : bool :=
  match s_prod t with
  | PGuard g _ _ | PUng g _ => nth g rs false && sp g
  | _ => false
  end.
Fixpoint drop_safe (rs : list bool) (sp : fname -> fname -> bool) (f : fname) (tss : list (list strig)) : list (list strig) :=
  match tss with
  | [] => []
  | ts :: rest => filter (fun t => negb (exempt rs (sp f) t)) ts :: drop_safe rs sp (S f) rest
  end.
Fixpoint none_exempt (rs : list bool) (sp : fname -> fname -> bool) (f : fname) (tss : list (list strig)) : bool :=
  match tss with
  | [] => true
  | ts :: rest => forallb (fun t => negb (exempt rs (sp f) t)) ts && none_exempt rs sp (S f) rest
  end.

Record pres := { r_decl : list strig;            (* declarations of package-level variables *)
                 r_funcs : list (list strig);     (* per function *)
                 r_dups : list (list strig);      (* per caller: duplicated triggers of contracted callees *)
                 r_affil : list (list strig);     (* per function: triggers of the (interface, implementation) pairs its conversions witness *)
                 r_gsafe : bool;                  (* no stale package-level value is used *)
                 r_nodel : bool;                  (* the always-safe deletion removed nothing *)
                 r_clocal : bool }.               (* contracted functions are only called from their own package *)

(* whole program; pk f is the package of function f *)
Definition analyze_program (fuel : nat) (ctr : fname -> bool) (pk : fname -> nat) (p : program) : option pres :=
  let sp f g := Nat.eqb (pk f) (pk g) in
  match analyze_funcs (length (p_ginit p)) fuel ctr sp 0 (p_funcs p) with
  | None => None
  | Some (tss, b) =>
      let rs := rsafe_all (length (p_ginit p)) fuel ctr sp 0 (p_funcs p) in
      Some {| r_decl := decl_triggers 0 (p_ginit p); r_funcs := drop_safe rs sp 0 tss;
              r_nodel := none_exempt rs sp 0 tss; r_dups := dups_all ctr sp tss 0 (p_funcs p);
              r_affil := map (fun fd => flat_map (affil p) (convs_of (f_body fd)) ++ flat_map (iaffil p) (iconvs_of (f_body fd))) (p_funcs p);
              r_gsafe := b; r_clocal := ctr_local ctr sp 0 (p_funcs p) |}
  end.

Definition all_strigs (r : pres) : list strig := r_decl r ++ concat (r_funcs r) ++ concat (r_dups r) ++ concat (r_affil r).
Definition all_triggers (r : pres) : list trigger := map etrig (all_strigs r).

(* syntactic well-formedness: calls name existing functions with the right number of arguments, every
   package-level variable mentioned is declared *)
Section WF.
  Variable p : program.
  Definition var_ok (x : var) : bool := match x with VL _ => true | VG k => Nat.ltb k (length (p_ginit p)) end.
  Definition atom_ok (a : atom_e) : bool := match a with AVar x => var_ok x | _ => true end.
  Fixpoint cond_ok (c : cond) : bool :=
    match c with
    | COpaque => true
    | CNonNil x | CDeref _ x => var_ok x
    | CNot c1 => cond_ok c1
    | CAnd c1 c2 | COr c1 c2 => cond_ok c1 && cond_ok c2
    end.
  Fixpoint conform_from (row : list fname) (sig : list nat) : bool :=
    match sig, row with
    | [], _ => true
    | np :: sig', f :: row' =>
        match nth_error (p_funcs p) f with Some fd => Nat.eqb (f_nparams fd) (S np) | None => false end && conform_from row' sig'
    | _ :: _, [] => false
    end.
  Definition conform (k j : nat) : bool := conform_from (nth j (p_impls p) []) (isig p k).
  Fixpoint prefix_b (a b : list nat) : bool :=
    match a, b with
    | [], _ => true
    | x :: a', y :: b' => Nat.eqb x y && prefix_b a' b'
    | _ :: _, [] => false
    end.
  Fixpoint stmt_ok (st : stmt) : bool :=
    match st with
    | SSkip => true
    | SSeq a b => stmt_ok a && stmt_ok b
    | SAssign x a => var_ok x && atom_ok a
    | SCall _ x g args =>
        match nth_error (p_funcs p) g with
        | Some fd => Nat.eqb (length args) (f_nparams fd)
        | None => false
        end && forallb atom_ok args && match x with Some y => var_ok y | None => true end
    | SDeref _ x => var_ok x
    | SReturn2 a er => atom_ok a && atom_ok er
    | SCall2 _ x xe g args =>
        match nth_error (p_funcs p) g with
        | Some fd => Nat.eqb (length args) (f_nparams fd)
        | None => false
        end && forallb atom_ok args &&
        (* value and error go into two distinct locals *)
        match x with Some (VG _) => false | _ => true end &&
        match xe with Some (VL _ as y) => match x with Some y' => negb (var_eqb y y') | None => true end | Some (VG _) => false | None => true end
    | SRetCall _ g args =>
        match nth_error (p_funcs p) g with
        | Some fd => Nat.eqb (length args) (f_nparams fd)
        | None => false
        end && forallb atom_ok args
    | SIf c a b => cond_ok c && stmt_ok a && stmt_ok b
    | SWhile c b => cond_ok c && stmt_ok b
    | SReturn a => atom_ok a
    | SConv x k j =>
        (* S_j implements I_k: its row has, method by method, a function with the receiver and the parameters of the
           interface method *)
        var_ok x && conform k j
    | SConvI x y k k2 =>
        (* the methods of I_k are the first methods of I_k2 *)
        var_ok x && var_ok y && prefix_b (isig p k) (isig p k2)
    | SCallI _ _ x xi k m args =>
        var_ok xi && forallb atom_ok args && match x with Some y => var_ok y | None => true end &&
        (* I_k has a method m with these parameters *)
        match nth_error (isig p k) m with Some np => Nat.eqb np (length args) | None => false end
    end.
  (* ... and the entry point takes no parameters *)
  Definition wf_program : bool :=
    forallb (fun fd => stmt_ok (f_body fd)) (p_funcs p) &&
    match p_funcs p with fd :: _ => Nat.eqb (f_nparams fd) 0 | [] => true end.
  (* methods that implement an interface have no contract (a contract is about a function's only parameter) *)
  Definition impls_plain (ctr : fname -> bool) : bool :=
    forallb (fun row => forallb (fun f => negb (ctr f)) row) (p_impls p).
  (* contracts are about functions with exactly one parameter *)
  Fixpoint ctr_arity (ctr : fname -> bool) (f : fname) (fds : list func) : bool :=
    match fds with
    | [] => true
    | fd :: rest => (negb (ctr f) || Nat.eqb (f_nparams fd) 1) && ctr_arity ctr (S f) rest
    end.
End WF.
