(* M7 (function and package level, ideal form): the flow analysis that NilAway's backward propagation computes
   on the MiniGo fragment, written as a forward may-analysis: every variable carries the set of producers its
   current value may come from; uses emit triggers (producer, consumer) in the vocabulary of the engine M1.
   A nil check replaces the producers of the checked variable by "never nil" on the branch where it succeeded;
   short-circuit conditions are analysed operand by operand, as the pre-processed CFG does.
   Loops are solved by iteration to a post-fixed point (None = not reached within the fuel).
   Package-level variables are tracked flow-sensitively inside a function exactly like locals (this is what
   the implementation does, and what makes it blind to a callee that re-assigns them: the analysis also
   computes whether a value tracked in this way across a call is ever used, a_gsafe). *)
From Coq Require Import List Bool Arith PeanoNat.
From NM Require Import Engine MiniGo.
Import ListNotations.

(* annotation sites of the fragment *)
Inductive asite := SParam (f : fname) (i : nat) | SResult (f : fname) | SGlobal (k : nat).

(* sites as the engine sees them (natural numbers) *)
Definition enc (s : asite) : site :=
  match s with
  | SParam f i => 3 * (f * 64 + i)
  | SResult f => 3 * f + 1
  | SGlobal k => 3 * k + 2
  end.

Inductive prod :=
  | PNil                      (* the literal nil, or an unassigned variable: always nil-able *)
  | PNever                    (* an allocation, or a value that passed a nil check *)
  | PSite (s : asite)         (* a parameter, a call result or a package-level variable: nil-able iff the site is *)
  | PStale.                   (* marker: a package-level variable tracked across a call that may have re-assigned it *)

Definition asite_eqb (s t : asite) : bool :=
  match s, t with
  | SParam f i, SParam g j => Nat.eqb f g && Nat.eqb i j
  | SResult f, SResult g => Nat.eqb f g
  | SGlobal k, SGlobal l => Nat.eqb k l
  | _, _ => false
  end.
Definition prod_eqb (p q : prod) : bool :=
  match p, q with
  | PNil, PNil | PNever, PNever => true
  | PSite s, PSite t => asite_eqb s t
  | PStale, PStale => true
  | _, _ => false
  end.

Definition kind_of (p : prod) : kind :=
  match p with PNil => KAlways | PNever | PStale => KNever | PSite s => KCond (enc s) end.

(* a use of a value is covered by the soundness argument unless it may be such a stale package-level value *)
Definition use_ok (ps : list prod) : bool := negb (existsb (prod_eqb PStale) ps).

Definition aset := list prod.
Definition env := list (var * aset).

(* an unassigned local holds nil; a package-level variable not touched yet in this function holds whatever
   its site says *)
Definition dflt (x : var) : aset := match x with VL _ => [PNil] | VG k => [PSite (SGlobal k)] end.
Fixpoint aget (e : env) (x : var) : aset :=
  match e with [] => dflt x | (y, a) :: e' => if var_eqb y x then a else aget e' x end.
Definition aput (e : env) (x : var) (a : aset) : env := (x, a) :: e.

Definition prods_of_atom (e : env) (a : atom_e) : aset :=
  match a with ANil => [PNil] | ANew => [PNever] | AVar x => aget e x end.

Definition mk_trigger (id : nat) (p : prod) (c : kind) : trigger :=
  {| t_id := id; t_prod := kind_of p; t_cons := c; t_ctrl := None |}.

Definition keys (e : env) : list var := map fst e.
Definition subset_b (a b : aset) : bool := forallb (fun p => existsb (prod_eqb p) b) a.
(* e1 below e2 on every variable either mentions *)
Definition env_leb (e1 e2 : env) : bool :=
  forallb (fun x => subset_b (aget e1 x) (aget e2 x)) (keys e1 ++ keys e2).
(* duplicate-free union of producer sets, duplicate-free list of variables *)
Definition union (a b : aset) : aset := a ++ filter (fun p => negb (existsb (prod_eqb p) a)) b.
Fixpoint dedup_vars (l : list var) : list var :=
  match l with
  | [] => []
  | x :: l' => if existsb (var_eqb x) l' then dedup_vars l' else x :: dedup_vars l'
  end.
Definition join (e1 e2 : env) : env :=
  map (fun x => (x, union (aget e1 x) (aget e2 x))) (dedup_vars (keys e1 ++ keys e2)).
Definition join_opt (o1 o2 : option env) : option env :=
  match o1, o2 with
  | None, o | o, None => o
  | Some e1, Some e2 => Some (join e1 e2)
  end.

(* a condition: environment where it holds, environment where it fails, triggers of the dereferences in it,
   and whether every dereferenced value is covered *)
Fixpoint acond (c : cond) (e : env) : env * env * list trigger * bool :=
  match c with
  | COpaque => (e, e, [], true)
  | CNonNil x => (aput e x [PNever], e, [], true)
  | CDeref d x => (e, e, map (fun p => mk_trigger d p KAlways) (aget e x), use_ok (aget e x))
  | CNot c1 => let '(et, ef, tr, b) := acond c1 e in (ef, et, tr, b)
  | CAnd c1 c2 =>
      let '(et1, ef1, tr1, b1) := acond c1 e in
      let '(et2, ef2, tr2, b2) := acond c2 et1 in
      (et2, join ef1 ef2, tr1 ++ tr2, b1 && b2)
  | COr c1 c2 =>
      let '(et1, ef1, tr1, b1) := acond c1 e in
      let '(et2, ef2, tr2, b2) := acond c2 ef1 in
      (join et1 et2, ef2, tr1 ++ tr2, b1 && b2)
  end.
Definition cond_true (c : cond) (e : env) : env := fst (fst (fst (acond c e))).

(* writing into a package-level variable is a use of the written value at the variable's site *)
Definition store_triggers (x : var) (a : aset) : list trigger :=
  match x with
  | VG k => map (fun p => mk_trigger 0 p (KCond (enc (SGlobal k)))) a
  | VL _ => []
  end.

Fixpoint arg_triggers (e : env) (g : fname) (i : nat) (args : list atom_e) : list trigger :=
  match args with
  | [] => []
  | a :: args' => map (fun p => mk_trigger 0 p (KCond (enc (SParam g i)))) (prods_of_atom e a) ++ arg_triggers e g (S i) args'
  end.

(* at a call, a package-level variable that is no longer (also) described by its site becomes stale *)
Definition fresh (e : env) (k : nat) : bool := existsb (prod_eqb (PSite (SGlobal k))) (aget e (VG k)).
Fixpoint mark_stale (ng : nat) (e : env) : env :=
  match ng with
  | O => e
  | S k => let e' := mark_stale k e in if fresh e k then e' else aput e' (VG k) (PStale :: aget e (VG k))
  end.

Record ares := { a_env : option env;      (* None: control never falls through *)
                 a_trig : list trigger;
                 a_gsafe : bool }.         (* no stale package-level value is used *)

Section Analyze.
  Variable ng : nat.             (* number of package-level variables *)
  Variable f : fname.            (* the function being analysed *)

  (* loop: iterate e := e join post(body under the test) until the body's result is below e *)
  Fixpoint loop_inv (an_body : env -> option ares) (c : cond) (n : nat) (e : env) : option (env * ares) :=
    match n with
    | O => None
    | S n' =>
      match an_body (cond_true c e) with
      | None => None
      | Some r =>
          match a_env r with
          | None => Some (e, r)
          | Some eb => if env_leb eb e then Some (e, r) else loop_inv an_body c n' (join e eb)
          end
      end
    end.

  Fixpoint analyze (fuel : nat) (st : stmt) (e : env) : option ares :=
    match st with
    | SSkip => Some {| a_env := Some e; a_trig := []; a_gsafe := true |}
    | SSeq s1 s2 =>
        match analyze fuel s1 e with
        | None => None
        | Some r1 =>
            match a_env r1 with
            | None => Some r1
            | Some e1 =>
                match analyze fuel s2 e1 with
                | None => None
                | Some r2 => Some {| a_env := a_env r2; a_trig := a_trig r1 ++ a_trig r2; a_gsafe := a_gsafe r1 && a_gsafe r2 |}
                end
            end
        end
    | SAssign x a =>
        let ps := prods_of_atom e a in
        Some {| a_env := Some (aput e x ps); a_trig := store_triggers x ps; a_gsafe := use_ok ps || negb (is_glob x) |}
    | SCall x g args =>
        let res := [PSite (SResult g)] in
        let e' := mark_stale ng e in
        Some {| a_env := Some (match x with Some y => aput e' y res | None => e' end);
                a_trig := arg_triggers e g 0 args ++ match x with Some y => store_triggers y res | None => [] end;
                a_gsafe := forallb (fun a => use_ok (prods_of_atom e a)) args |}
    | SDeref d x => Some {| a_env := Some e; a_trig := map (fun p => mk_trigger d p KAlways) (aget e x); a_gsafe := use_ok (aget e x) |}
    | SIf c s1 s2 =>
        let '(et, ef, trc, bc) := acond c e in
        match analyze fuel s1 et, analyze fuel s2 ef with
        | Some r1, Some r2 =>
            Some {| a_env := join_opt (a_env r1) (a_env r2); a_trig := trc ++ a_trig r1 ++ a_trig r2;
                    a_gsafe := bc && a_gsafe r1 && a_gsafe r2 |}
        | _, _ => None
        end
    | SWhile c body =>
        match loop_inv (analyze fuel body) c fuel e with
        | None => None
        | Some (einv, r) =>
            let '(_, ef, trc, bc) := acond c einv in
            Some {| a_env := Some ef; a_trig := trc ++ a_trig r; a_gsafe := bc && a_gsafe r |}
        end
    | SReturn a =>
        Some {| a_env := None;
                a_trig := map (fun p => mk_trigger 0 p (KCond (enc (SResult f)))) (prods_of_atom e a);
                a_gsafe := use_ok (prods_of_atom e a) |}
    end.
End Analyze.

Fixpoint entry_env (f : fname) (i n : nat) : env :=
  match n with O => [] | S n' => (VL i, [PSite (SParam f i)]) :: entry_env f (S i) n' end.

(* one function: parameters come from their sites; falling off the end returns the zero value nil *)
Definition analyze_func (ng fuel : nat) (f : fname) (fd : func) : option (list trigger * bool) :=
  match analyze ng f fuel (f_body fd) (entry_env f 0 (f_nparams fd)) with
  | None => None
  | Some r =>
      Some (match a_env r with
            | Some _ => a_trig r ++ [mk_trigger 0 PNil (KCond (enc (SResult f)))]
            | None => a_trig r
            end, a_gsafe r)
  end.

Fixpoint analyze_funcs (ng fuel : nat) (f : fname) (fds : list func) : option (list (list trigger) * bool) :=
  match fds with
  | [] => Some ([], true)
  | fd :: rest =>
      match analyze_func ng fuel f fd, analyze_funcs ng fuel (S f) rest with
      | Some (t1, b1), Some (t2, b2) => Some (t1 :: t2, b1 && b2)
      | _, _ => None
      end
  end.

(* declarations `var g *T` (no initial value) put nil into the variable's site *)
Fixpoint decl_triggers (k : nat) (gi : list bool) : list trigger :=
  match gi with
  | [] => []
  | b :: gi' => (if b then [] else [mk_trigger 0 PNil (KCond (enc (SGlobal k)))]) ++ decl_triggers (S k) gi'
  end.

(* whole program: the triggers of the declarations, the triggers per function, and the call-safety flag *)
Definition analyze_program (fuel : nat) (p : program) : option (list trigger * list (list trigger) * bool) :=
  match analyze_funcs (length (p_ginit p)) fuel 0 (p_funcs p) with
  | None => None
  | Some (tss, b) => Some (decl_triggers 0 (p_ginit p), tss, b)
  end.

Definition all_triggers (r : list trigger * list (list trigger) * bool) : list trigger :=
  fst (fst r) ++ concat (snd (fst r)).

(* syntactic well-formedness: calls name existing functions with the right number of arguments, every
   package-level variable mentioned is declared *)
Section WF.
  Variable p : program.
  Definition var_ok (x : var) : bool := match x with VL _ => true | VG k => Nat.ltb k (length (p_ginit p)) end.
  Definition atom_ok (a : atom_e) : bool := match a with AVar x => var_ok x | _ => true end.
  Fixpoint cond_ok (c : cond) : bool :=
    match c with
    | COpaque => true
    | CNonNil x | CDeref _ x => var_ok x
    | CNot c1 => cond_ok c1
    | CAnd c1 c2 | COr c1 c2 => cond_ok c1 && cond_ok c2
    end.
  Fixpoint stmt_ok (st : stmt) : bool :=
    match st with
    | SSkip => true
    | SSeq a b => stmt_ok a && stmt_ok b
    | SAssign x a => var_ok x && atom_ok a
    | SCall x g args =>
        match nth_error (p_funcs p) g with
        | Some fd => Nat.eqb (length args) (f_nparams fd)
        | None => false
        end && forallb atom_ok args && match x with Some y => var_ok y | None => true end
    | SDeref _ x => var_ok x
    | SIf c a b => cond_ok c && stmt_ok a && stmt_ok b
    | SWhile c b => cond_ok c && stmt_ok b
    | SReturn a => atom_ok a
    end.
  (* ... and the entry point takes no parameters *)
  Definition wf_program : bool :=
    forallb (fun fd => stmt_ok (f_body fd)) (p_funcs p) &&
    match p_funcs p with fd :: _ => Nat.eqb (f_nparams fd) 0 | [] => true end.
End WF.
