(* M5: comparison operators, their evaluation, and the interpreter of AddNilCheck's checker loop.
   Definitions only. The operator tables, the checker list and the loop shape are NOT here: they are
   regenerated from the Go source into gen/Tables.v on every run. *)
From Coq Require Import ZArith Bool List.
Import ListNotations.
Open Scope Z_scope.

Inductive tok := EQL | NEQ | LSS | GTR | LEQ | GEQ.

Definition all_toks : list tok := [EQL; NEQ; LSS; GTR; LEQ; GEQ].

Definition tok_eqb (a b : tok) : bool :=
  match a, b with
  | EQL, EQL | NEQ, NEQ | LSS, LSS | GTR, GTR | LEQ, LEQ | GEQ, GEQ => true
  | _, _ => false
  end.

(* Go semantics of `a op b` on integers (pointers: address, nil = 0) *)
Definition eval (o : tok) (a b : Z) : bool :=
  match o with
  | EQL => a =? b
  | NEQ => negb (a =? b)
  | LSS => a <? b
  | GTR => b <? a
  | LEQ => a <=? b
  | GEQ => b <=? a
  end.

(* total versions of the generated partial tables; C19_total shows the default is never used *)
Definition totalise (f : tok -> option tok) (t : tok) : tok :=
  match f t with Some u => u | None => t end.

(* ---- AddNilCheck ---- *)

(* semantic class of a checker's matcher, recognised by the translator from the matcher's condition *)
Inductive cls := ClsNil | ClsLenZero | ClsLenLen | ClsLenPos | ClsLenNonneg | ClsLenMinus | ClsBoolConst | ClsUnknown.
Inductive subj := SubjFirst | SubjFirstLenArg | SubjBothLenArgs | SubjNone.

Record checker := { ck_op : tok; ck_true : bool; ck_false : bool; ck_cls : cls; ck_subj : subj }.

Record loop_if := {
  li_c1 : (tok -> tok) -> (tok -> tok) -> tok -> tok;
  li_c2 : (tok -> tok) -> (tok -> tok) -> tok -> tok;
  li_swapargs : bool;
  li_swapwhen : (tok -> tok) -> (tok -> tok) -> tok -> tok }.

(* operands of the comparison as the matchers see them *)
Inductive okind :=
  | ONilLit                (* the literal nil, or nil converted to the very type of the other operand (isNilComparand) *)
  | OZeroLit               (* a constant 0 *)
  | OPosInt                (* an integer that is >= 1 ("likely positive int": assumed) *)
  | OPtr                   (* a pointer-like expression; value 0 means nil *)
  | OLen                   (* len(a) for a trackable a, un-nested *)
  | OLenMinus (k : Z)      (* len(a) - k with constant k >= 1 *)
  | OOther.
Record operand := { o_kind : okind; o_val : Z }.

Definition operand_ok (x : operand) : Prop :=
  match o_kind x with
  | ONilLit | OZeroLit => o_val x = 0
  | OPosInt => 1 <= o_val x
  | OPtr => True
  | OLen => 0 <= o_val x
  | OLenMinus k => 1 <= k /\ 0 <= o_val x + k     (* o_val = len(a) - k *)
  | OOther => True
  end.

(* "the subject of this operand is non-nil": a non-nil pointer, or a slice/map of length >= 1 *)
Definition subject_nonnil (x : operand) : Prop :=
  match o_kind x with
  | OPtr => o_val x <> 0
  | OLen => 1 <= o_val x
  | OLenMinus k => 1 <= o_val x + k
  | _ => False
  end.

Definition is_kind (k : okind) (x : operand) : bool :=
  match k, o_kind x with
  | ONilLit, ONilLit | OZeroLit, OZeroLit | OPosInt, OPosInt | OPtr, OPtr | OLen, OLen | OOther, OOther => true
  | OLenMinus _, OLenMinus _ => true
  | _, _ => false
  end.

(* when does a matcher of the given class fire on (x, y)?  ClsLenLen and the nested-len readings of
   ClsLenPos/ClsLenNonneg are the forms the source itself documents as unsound: they are outside this
   operand language (OLen is un-nested), so the interpreter never fires them. *)
Definition matches (c : cls) (x y : operand) : bool :=
  match c with
  | ClsNil => is_kind OPtr x && is_kind ONilLit y
  | ClsLenZero => is_kind OLen x && is_kind OZeroLit y
  | ClsLenLen => false
  | ClsLenPos => is_kind OLen x && is_kind OPosInt y
  | ClsLenNonneg => is_kind OLen x && (is_kind OZeroLit y || is_kind OPosInt y)
  | ClsLenMinus => is_kind (OLenMinus 1) x && is_kind OZeroLit y
  | ClsBoolConst => false      (* its operands are not atoms: see the expression layer below *)
  | ClsUnknown => false
  end.

Section Apply.
  Variables conv inv : tok -> tok.

  (* one `if` of the loop body applied to one checker; result: (effect on true branch, effect on false
     branch, the operand whose subject becomes non-nil) *)
  Definition run_if (li : loop_if) (ck : checker) (binop : tok) (x y : operand) : option (bool * bool * operand) :=
    let o := ck_op ck in
    if tok_eqb binop (li_c1 li conv inv o) || tok_eqb binop (li_c2 li conv inv o) then
      let '(a, b) := if li_swapargs li then (y, x) else (x, y) in
      if matches (ck_cls ck) a b then
        let '(t, f) := if tok_eqb binop (li_swapwhen li conv inv o) then (ck_false ck, ck_true ck)
                       else (ck_true ck, ck_false ck) in
        Some (t, f, a)
      else None
    else None.

  Fixpoint first_some {A B} (f : A -> option B) (l : list A) : option B :=
    match l with
    | [] => None
    | a :: l' => match f a with Some b => Some b | None => first_some f l' end
    end.

  Definition apply_checkers (loop : list loop_if) (cks : list checker) (binop : tok) (x y : operand)
    : option (bool * bool * operand) :=
    first_some (fun ck => first_some (fun li => run_if li ck binop x y) loop) cks.
End Apply.

(* ---- the expression layer: AddNilCheck applied to nested conditions ----
   A check may itself be compared with a boolean constant (`(p != nil) == true`) or negated; the matcher of class
   ClsBoolConst and the prologue of AddNilCheck call AddNilCheck again on the operand.  `check` transcribes that
   recursion; on a comparison of two atoms it is `apply_checkers`. *)
Inductive expr :=
  | EOp (x : operand)
  | EBool (b : bool)                 (* a boolean constant (boolConstant: by the type checker, hence also a named constant) *)
  | ENot (e : expr)
  | ECmp (o : tok) (a b : expr).

Definition b2z (b : bool) : Z := if b then 1 else 0.

Fixpoint ev (e : expr) : Z :=
  match e with
  | EOp x => o_val x
  | EBool b => b2z b
  | ENot e' => b2z (negb (ev e' =? 1))
  | ECmp o a b => b2z (eval o (ev a) (ev b))
  end.

Definition res := option (bool * bool * operand).
Definition swap_res (r : res) : res :=
  match r with Some (t, f, s) => Some (f, t, s) | None => None end.

(* all that the matchers can tell about an operand: an atom of some kind, a boolean constant, or anything else --
   for which the only thing that matters is what AddNilCheck says about it *)
Inductive shape := ShAtom (k : okind) | ShBool (v : bool) | ShCond (r : res).

Definition shape_of (e : expr) (r : res) : shape :=
  match e with EOp x => ShAtom (o_kind x) | EBool v => ShBool v | _ => ShCond r end.

(* what the matchers of the atomic classes see of an operand that is not an atom: nothing they recognise *)
Definition oper (sh : shape) (v : Z) : operand :=
  match sh with ShAtom k => {| o_kind := k; o_val := v |} | _ => {| o_kind := OOther; o_val := v |} end.

Section Check.
  Variables conv inv : tok -> tok.
  Variable not_swaps : bool.
  Variable loop : list loop_if.
  Variable cks : list checker.

  (* one matcher on (a, b) *)
  Definition matcher (ck : checker) (a : shape) (va : Z) (b : shape) (vb : Z) : res :=
    match ck_cls ck with
    | ClsBoolConst =>
        match b with
        | ShBool v => let ra := match a with ShCond r => r | _ => None end in if v then ra else swap_res ra
        | _ => None
        end
    | c => if matches c (oper a va) (oper b vb) then Some (ck_true ck, ck_false ck, oper a va) else None
    end.

  Definition run_if_e (li : loop_if) (ck : checker) (binop : tok) (x : shape) (vx : Z) (y : shape) (vy : Z) : res :=
    let o := ck_op ck in
    if tok_eqb binop (li_c1 li conv inv o) || tok_eqb binop (li_c2 li conv inv o) then
      let '(a, va, b, vb) := if li_swapargs li then (y, vy, x, vx) else (x, vx, y, vy) in
      match matcher ck a va b vb with
      | Some (t, f, s) => if tok_eqb binop (li_swapwhen li conv inv o) then Some (f, t, s) else Some (t, f, s)
      | None => None
      end
    else None.

  Definition run_flat (binop : tok) (x : shape) (vx : Z) (y : shape) (vy : Z) : res :=
    first_some (fun ck => first_some (fun li => run_if_e li ck binop x vx y vy) loop) cks.

  Fixpoint check (e : expr) : res :=
    match e with
    | ENot e' => if not_swaps then swap_res (check e') else None
    | ECmp binop a b => run_flat binop (shape_of a (check a)) (ev a) (shape_of b (check b)) (ev b)
    | _ => None
    end.
End Check.

(* well-formed: every atom satisfies what its kind promises; operands of a negation are conditions (0/1) *)
Definition is_cond (e : expr) : bool :=
  match e with EBool _ | ENot _ | ECmp _ _ _ => true | EOp _ => false end.
Fixpoint wf_expr (e : expr) : Prop :=
  match e with
  | EOp x => operand_ok x
  | EBool _ => True
  | ENot e' => wf_expr e'
  | ECmp _ a b => wf_expr a /\ wf_expr b
  end.
