(* Specification side of M1: what "a nil source reaches a non-nil sink" means for a set of constraints,
   independent of the engine's algorithm.  Declarative (Prop) definitions for the theorems, and an
   executable fixed-point computation used as the property oracle on implementation outputs. *)
From Coq Require Import List Bool Arith PeanoNat.
From NM Require Import Engine.
Import ListNotations.

Inductive atom :=
  | ASrc (s : site)                 (* a definite nil source flows into s *)
  | ASnk (s : site)                 (* s flows into a definite non-nil requirement *)
  | AEdge (p c : site) (t : tid)    (* nilable p -> nilable c *)
  | ADirect (t : tid).              (* definite nil source directly into a definite non-nil requirement *)

Definition atom_of_kinds (t : tid) (p c : kind) : list atom :=
  match p, c with
  | KAlways, KAlways => [ADirect t]
  | KAlways, KCond c => [ASrc c]
  | KCond p, KAlways => [ASnk p]
  | KCond p, KCond c => [AEdge p c t]
  | _, _ => []
  end.
Definition atoms_of_trigger (t : trigger) : list atom := atom_of_kinds (t_id t) (t_prod t) (t_cons t).

Definition atoms_of_fact (f : fact) : list atom :=
  flat_map (fun sv =>
    match snd sv with
    | Det e => if eval_expl e then [ASrc (fst sv)] else [ASnk (fst sv)]
    | Undet ins outs =>
        map (fun ot => AEdge (fst sv) (fst ot) (snd ot)) outs ++
        map (fun it => AEdge (fst it) (fst sv) (snd it)) ins
    end) f.

Definition atoms_of_annots (a : list (site * bool)) : list atom :=
  map (fun sb : site * bool => if snd sb then ASrc (fst sb) else ASnk (fst sb)) a.

(* a constraint system: unconditional atoms, and atoms guarded by a controlling site *)
Record csys := { base : list atom; ctld : list (site * atom) }.

Definition csys_of (facts : list fact) (annots : list (site * bool)) (ts : list trigger) : csys :=
  {| base := flat_map atoms_of_fact facts ++ atoms_of_annots annots ++
             flat_map atoms_of_trigger (filter (fun t => negb (controlled t)) ts);
     ctld := flat_map (fun t => match t_ctrl t with
                                | Some k => map (fun a => (k, a)) (atoms_of_trigger t)
                                | None => [] end) ts |}.

Section Spec.
  Variable C : csys.

  (* sites that a definite nil source reaches; a guarded atom counts once its controller is reached *)
  Inductive nilr : site -> Prop :=
    | nr_src s : In (ASrc s) (base C) -> nilr s
    | nr_csrc k s : In (k, ASrc s) (ctld C) -> nilr k -> nilr s
    | nr_edge p c t : In (AEdge p c t) (base C) -> nilr p -> nilr c
    | nr_cedge k p c t : In (k, AEdge p c t) (ctld C) -> nilr k -> nilr p -> nilr c.

  Definition act (a : atom) : Prop := In a (base C) \/ exists k, In (k, a) (ctld C) /\ nilr k.

  (* sites that reach a definite non-nil requirement *)
  Inductive nonr : site -> Prop :=
    | nn_snk s : act (ASnk s) -> nonr s
    | nn_edge p c t : act (AEdge p c t) -> nonr c -> nonr p.

  Definition has_flow : Prop := (exists t, act (ADirect t)) \/ (exists s, nilr s /\ nonr s).
End Spec.

(* ---- executable version (oracle) ---- *)
Definition add (s : site) (l : list site) : list site := if mem s l then l else s :: l.

Definition step_nil (C : csys) (cur : list site) : list site :=
  let f (acc : list site) (a : atom) :=
    match a with
    | ASrc s => add s acc
    | AEdge p c _ => if mem p acc then add c acc else acc
    | _ => acc
    end in
  let acc1 := fold_left f (base C) cur in
  fold_left (fun acc ka => if mem (fst ka) acc then f acc (snd ka) else acc) (ctld C) acc1.

Fixpoint iter {A} (n : nat) (f : A -> A) (x : A) : A :=
  match n with O => x | S n' => iter n' f (f x) end.

Definition nil_set (C : csys) : list site :=
  iter (S (length (base C) + length (ctld C))) (step_nil C) [].

Definition active_atoms (C : csys) : list atom :=
  let n := nil_set C in
  base C ++ map snd (filter (fun ka => mem (fst ka) n) (ctld C)).

Definition step_non (acts : list atom) (cur : list site) : list site :=
  fold_left (fun acc a =>
    match a with
    | ASnk s => add s acc
    | AEdge p c _ => if mem c acc then add p acc else acc
    | _ => acc
    end) acts cur.

Definition non_set (C : csys) : list site :=
  let acts := active_atoms C in iter (S (length acts)) (step_non acts) [].

Definition has_flow_b (C : csys) : bool :=
  existsb (fun a => match a with ADirect _ => true | _ => false end) (active_atoms C) ||
  existsb (fun s => mem s (non_set C)) (nil_set C).

(* per package of a scenario: (flow?, nil set, nonnil set), facts taken from the model's own run *)
Fixpoint spec_pkgs (exported : site -> bool) (fuel : nat) (pkgs : list pkg) (idx : nat)
                   (facts : list (nat * option fact)) : list (bool * list site * list site) :=
  match pkgs with
  | [] => []
  | p :: rest =>
    let visible := flat_map (fun j => match lookup facts j with Some (Some f) => [(j, f)] | _ => [] end) (p_imports p) in
    let o := analyze_pkg exported fuel visible (p_annots p) (p_triggers p) in
    let f := match o with Finished r => r_fact r | _ => None end in
    let C := csys_of (map snd visible) (p_annots p) (p_triggers p) in
    (has_flow_b C, nil_set C, non_set C) :: spec_pkgs exported fuel rest (S idx) (facts ++ [(idx, f)])
  end.
