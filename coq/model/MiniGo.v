(* M6: MiniGo -- the core pointer fragment of C01/C02/C09/C20: pointer locals, parameters, one pointer result,
   package-level pointer variables, nil, allocation, if / for with conditions built from opaque tests, nil
   comparisons, dereferencing tests, negation and short-circuit && / ||, direct calls (methods with pointer
   receivers and switch statements are spellings of these forms, chosen by the printer of the correspondence).
   Executable small model of the run-time behaviour: values are nil or a valid pointer (the fragment never
   writes through a pointer, so no heap is needed); the run-time choices of the opaque conditions are an
   explicit list of booleans. *)
From Coq Require Import List Bool Arith PeanoNat.
Import ListNotations.

Inductive var := VL (n : nat) | VG (n : nat).   (* local n (parameter i is local i) / package-level variable n *)
Definition fname := nat.
Definition dsite := nat.      (* identity (source position) of a dereference *)

Definition var_eqb (x y : var) : bool :=
  match x, y with
  | VL a, VL b | VG a, VG b => Nat.eqb a b
  | _, _ => false
  end.
Definition is_glob (x : var) : bool := match x with VG _ => true | VL _ => false end.

Inductive atom_e :=           (* simple expressions *)
  | ANil                      (* nil *)
  | ANew                      (* &T{} / new(T) *)
  | AVar (x : var).

Inductive cond :=
  | COpaque                   (* opaque(): decided by the run-time oracle *)
  | CNonNil (x : var)         (* x != nil  (x == nil is CNot (CNonNil x); the printer picks the spelling) *)
  | CDeref (d : dsite) (x : var)   (* x.V > 0 : dereferences x at source position d, then an opaque answer *)
  | CNot (c : cond)
  | CAnd (c1 c2 : cond)       (* short-circuit *)
  | COr (c1 c2 : cond).

Inductive stmt :=
  | SSkip
  | SSeq (s1 s2 : stmt)
  | SAssign (x : var) (a : atom_e)                      (* x = a *)
  | SCall (cs : nat) (x : option var) (f : fname) (args : list atom_e)   (* [x =] f(args), call site cs *)
  | SDeref (d : dsite) (x : var)                         (* _ = x.V   at source position d *)
  | SIf (c : cond) (s1 s2 : stmt)
  | SWhile (c : cond) (body : stmt)                      (* for c { body } *)
  | SReturn (a : atom_e)
  (* interfaces (C09): x = &S_j{} converted to interface I_k;  [x =] xi.M_m(args) on an interface value, which
     dereferences xi at source position d *)
  | SConv (x : var) (k j : nat)
  (* x = y where y has interface type I_k2 and x interface type I_k (the methods of I_k are the first methods of
     I_k2, with the same signatures): an interface-to-interface conversion *)
  | SConvI (x y : var) (k k2 : nat)
  | SCallI (cs : nat) (d : dsite) (x : option var) (xi : var) (k m : nat) (args : list atom_e)
  (* the (value, error) convention (C08): return a, e  and  x, xe = f(args); errors are nil or not, like pointers
     (e: nil, a freshly made error, or an error variable) *)
  | SReturn2 (a e : atom_e)
  | SCall2 (cs : nat) (x xe : option var) (f : fname) (args : list atom_e)
  (* return f(args): both results of an error-returning callee are handed on as they are *)
  | SRetCall (cs : nat) (f : fname) (args : list atom_e).

Record func := { f_nparams : nat; f_body : stmt }.
(* function f is nth f of p_funcs, function 0 is the entry point; p_ginit k tells whether package-level
   variable k is declared with an allocation (true) or left nil (false);
   p_impls j lists, per method index, the function implementing it for the concrete type S_j (its parameter 0 is
   the receiver) *)
(* p_isig k lists, per method index, the number of parameters of the methods of interface I_k *)
Record program := { p_funcs : list func; p_ginit : list bool; p_impls : list (list fname); p_isig : list (list nat) }.

(* nil, or a valid pointer; a pointer stored in an interface value remembers the interface and the concrete type *)
Inductive value := VNil | VPtr (dyn : option (nat * nat)).
Definition store := list (var * value).

Fixpoint sget (s : store) (x : var) : value :=            (* an unassigned pointer variable is nil *)
  match s with [] => VNil | (y, v) :: s' => if var_eqb y x then v else sget s' x end.
Definition sset (s : store) (x : var) (v : value) : store := (x, v) :: s.

Definition globals_of (s : store) : store := filter (fun yv => is_glob (fst yv)) s.
Definition locals_of (s : store) : store := filter (fun yv => negb (is_glob (fst yv))) s.

(* the slot through which a callee hands its error result to the caller (a plain `return a` leaves it nil) *)
Definition VERR : var := VL 63.

Definition eval_atom (s : store) (a : atom_e) : value :=
  match a with ANil => VNil | ANew => VPtr None | AVar x => sget s x end.

Inductive outcome :=
  | ONormal (s : store) (oracle : list bool)
  | OReturn (v : value) (s : store) (oracle : list bool)
  | OPanic (d : dsite)
  | OOutOfFuel.

Inductive cres := CVal (b : bool) (oracle : list bool) | CPanic (d : dsite).

Definition ask (oracle : list bool) : bool * list bool :=
  match oracle with b :: o => (b, o) | [] => (false, []) end.

Fixpoint eval_cond (s : store) (c : cond) (oracle : list bool) : cres :=
  match c with
  | COpaque => let '(b, o) := ask oracle in CVal b o
  | CNonNil x => CVal (match sget s x with VPtr _ => true | VNil => false end) oracle
  | CDeref d x => match sget s x with VPtr _ => let '(b, o) := ask oracle in CVal b o | VNil => CPanic d end
  | CNot c1 => match eval_cond s c1 oracle with CVal b o => CVal (negb b) o | r => r end
  | CAnd c1 c2 => match eval_cond s c1 oracle with CVal true o => eval_cond s c2 o | r => r end
  | COr c1 c2 => match eval_cond s c1 oracle with CVal false o => eval_cond s c2 o | r => r end
  end.

Fixpoint bind_params (i : nat) (vs : list value) : store :=
  match vs with [] => [] | v :: vs' => (VL i, v) :: bind_params (S i) vs' end.

Fixpoint init_globals (k : nat) (gi : list bool) : store :=
  match gi with
  | [] => []
  | b :: gi' => (if b then [(VG k, VPtr None)] else []) ++ init_globals (S k) gi'
  end.

Section Exec.
  Variable prog : program.

  Fixpoint exec (fuel : nat) (st : stmt) (s : store) (oracle : list bool) : outcome :=
    match fuel with
    | O => OOutOfFuel
    | S fuel' =>
      match st with
      | SSkip => ONormal s oracle
      | SSeq s1 s2 =>
          match exec fuel' s1 s oracle with
          | ONormal s' o' => exec fuel' s2 s' o'
          | r => r
          end
      | SAssign x a => ONormal (sset s x (eval_atom s a)) oracle
      | SCall _ x f args =>
          match nth_error (p_funcs prog) f with
          | None => ONormal s oracle
          | Some fd =>
              let after (s' : store) (v : value) :=
                let s1 := globals_of s' ++ locals_of s in
                match x with Some y => sset s1 y v | None => s1 end in
              match exec fuel' (f_body fd) (bind_params 0 (map (eval_atom s) args) ++ globals_of s) oracle with
              | ONormal s' o' => ONormal (after s' VNil) o'       (* fell off the end: zero result *)
              | OReturn v s' o' =>
                  (* a single-value call of a function that handed back a non-nil error is ill-typed *)
                  match sget s' VERR with VNil => ONormal (after s' v) o' | VPtr _ => OOutOfFuel end
              | r => r
              end
          end
      | SDeref d x => match sget s x with VPtr _ => ONormal s oracle | VNil => OPanic d end
      | SIf c s1 s2 =>
          match eval_cond s c oracle with
          | CPanic d => OPanic d
          | CVal b o' => if b then exec fuel' s1 s o' else exec fuel' s2 s o'
          end
      | SWhile c body =>
          match eval_cond s c oracle with
          | CPanic d => OPanic d
          | CVal b o' =>
            if b then
              match exec fuel' body s o' with
              | ONormal s' o'' => exec fuel' (SWhile c body) s' o''
              | r => r
              end
            else ONormal s o'
          end
      | SReturn a => OReturn (eval_atom s a) (sset s VERR VNil) oracle
      | SReturn2 a e => OReturn (eval_atom s a) (sset s VERR (eval_atom s e)) oracle
      | SCall2 _ x xe f args =>
          match nth_error (p_funcs prog) f with
          | None => ONormal s oracle
          | Some fd =>
              let after (s' : store) (v ev : value) :=
                let s1 := globals_of s' ++ locals_of s in
                let s2 := match x with Some y => sset s1 y v | None => s1 end in
                match xe with Some y => sset s2 y ev | None => s2 end in
              match exec fuel' (f_body fd) (bind_params 0 (map (eval_atom s) args) ++ globals_of s) oracle with
              | ONormal s' o' => ONormal (after s' VNil VNil) o'
              | OReturn v s' o' => ONormal (after s' v (sget s' VERR)) o'
              | r => r
              end
          end
      | SRetCall _ f args =>
          match nth_error (p_funcs prog) f with
          | None => OOutOfFuel
          | Some fd =>
              match exec fuel' (f_body fd) (bind_params 0 (map (eval_atom s) args) ++ globals_of s) oracle with
              | ONormal s' o' => OReturn VNil (sset (globals_of s' ++ locals_of s) VERR VNil) o'
              | OReturn v s' o' => OReturn v (sset (globals_of s' ++ locals_of s) VERR (sget s' VERR)) o'
              | r => r
              end
          end
      | SConv x k j => ONormal (sset s x (VPtr (Some (k, j)))) oracle
      | SConvI x y k k2 =>
          match sget s y with
          | VNil => ONormal (sset s x VNil) oracle
          | VPtr None => OOutOfFuel          (* ill-typed: not an interface value *)
          | VPtr (Some (k', j)) => if Nat.eqb k2 k' then ONormal (sset s x (VPtr (Some (k, j)))) oracle else OOutOfFuel
          end
      | SCallI _ d x xi k m args =>
          match sget s xi with
          | VNil => OPanic d
          | VPtr None => OOutOfFuel          (* ill-typed: not an interface value *)
          | VPtr (Some (k', j)) =>
              match (if Nat.eqb k k' then nth_error (nth j (p_impls prog) []) m else None) with
              | None => OOutOfFuel           (* ill-typed *)
              | Some f =>
                  match nth_error (p_funcs prog) f with
                  | None => OOutOfFuel
                  | Some fd =>
                      let after (s' : store) (v : value) :=
                        let s1 := globals_of s' ++ locals_of s in
                        match x with Some y => sset s1 y v | None => s1 end in
                      match exec fuel' (f_body fd)
                                 (bind_params 0 (VPtr None :: map (eval_atom s) args) ++ globals_of s) oracle with
                      | ONormal s' o' => ONormal (after s' VNil) o'
                      | OReturn v s' o' =>
                          match sget s' VERR with VNil => ONormal (after s' v) o' | VPtr _ => OOutOfFuel end
                      | r => r
                      end
                  end
              end
          end
      end
    end.

  (* a closed program: run the entry point (function 0, no parameters) from the declared globals *)
  Definition run_program (fuel : nat) (oracle : list bool) : outcome :=
    match nth_error (p_funcs prog) 0 with
    | Some fd => exec fuel (f_body fd) (init_globals 0 (p_ginit prog)) oracle
    | None => ONormal [] oracle
    end.
End Exec.

(* the dereference at which a run panics, if it does *)
Definition panic_of (o : outcome) : option dsite := match o with OPanic d => Some d | _ => None end.
