(* M9: a tiny heap of CFG blocks, the copy made by preprocess.copyGraph and the primitive writes that the
   CFG rewriting passes perform (all of them through blocks of the graph they were handed). Definitions only. *)
From Coq Require Import List Bool Arith PeanoNat.
Import ListNotations.

Definition addr := nat.
Record block := {
  b_nodes : list nat;        (* the Nodes slice: pointers to AST nodes (shared, never written through) *)
  b_succs : list addr;       (* the Succs slice: pointers to blocks *)
  b_live : bool;
  b_index : nat }.

(* cells are allocated at increasing addresses; h_next is the first free address *)
Record heap := { cells : list (addr * block); h_next : addr }.

Fixpoint hlookup (l : list (addr * block)) (a : addr) : option block :=
  match l with
  | [] => None
  | (k, b) :: l' => if Nat.eqb k a then Some b else hlookup l' a
  end.
Fixpoint hupdate (l : list (addr * block)) (a : addr) (b : block) : list (addr * block) :=
  match l with
  | [] => []
  | (k, b0) :: l' => if Nat.eqb k a then (k, b) :: l' else (k, b0) :: hupdate l' a b
  end.

Definition alloc (h : heap) (b : block) : heap * addr :=
  ({| cells := cells h ++ [(h_next h, b)]; h_next := S (h_next h) |}, h_next h).

Definition write (h : heap) (a : addr) (f : block -> block) : heap :=
  match hlookup (cells h) a with
  | Some b => {| cells := hupdate (cells h) a (f b); h_next := h_next h |}
  | None => h
  end.

(* a CFG: the Blocks slice *)
Definition graph := list addr.

(* copyGraph: a new block per block with a copied Nodes slice, then the edges re-targeted to the copies *)
Fixpoint copy_blocks (h : heap) (g : graph) : heap * list (addr * addr) :=
  match g with
  | [] => (h, [])
  | a :: g' =>
      match hlookup (cells h) a with
      | Some b =>
          let '(h1, a') := alloc h {| b_nodes := b_nodes b; b_succs := []; b_live := b_live b; b_index := b_index b |} in
          let '(h2, m) := copy_blocks h1 g' in (h2, (a, a') :: m)
      | None => copy_blocks h g'
      end
  end.

Fixpoint amap (m : list (addr * addr)) (a : addr) : addr :=
  match m with [] => a | (k, v) :: m' => if Nat.eqb k a then v else amap m' a end.

Definition copy_graph (h : heap) (g : graph) : heap * graph :=
  let '(h1, m) := copy_blocks h g in
  let h2 := fold_left (fun hh kv =>
              match hlookup (cells h) (fst kv) with
              | Some b => write hh (snd kv) (fun nb => {| b_nodes := b_nodes nb; b_succs := map (amap m) (b_succs b); b_live := b_live nb; b_index := b_index nb |})
              | None => hh
              end) m h1 in
  (h2, map snd m).

(* the primitive writes of the rewriting passes, each addressed through the i-th block OF THE GRAPH AT HAND *)
Inductive op :=
  | OSetNodes (i : nat) (ns : list nat)          (* block.Nodes = ... / block.Nodes[k] = ... *)
  | OSetSuccs (i : nat) (js : list nat)          (* block.Succs = ... / block.Succs[k] = graph.Blocks[j] *)
  | OSetLive (i : nat) (v : bool)
  | OAppendBlock (ns : list nat) (js : list nat) (live : bool).   (* graph.Blocks = append(graph.Blocks, &cfg.Block{...}) *)

Definition exec (hg : heap * graph) (o : op) : heap * graph :=
  let '(h, g) := hg in
  match o with
  | OSetNodes i ns =>
      match nth_error g i with
      | Some a => (write h a (fun b => {| b_nodes := ns; b_succs := b_succs b; b_live := b_live b; b_index := b_index b |}), g)
      | None => hg end
  | OSetSuccs i js =>
      match nth_error g i with
      | Some a => (write h a (fun b => {| b_nodes := b_nodes b; b_succs := flat_map (fun j => match nth_error g j with Some x => [x] | None => [] end) js; b_live := b_live b; b_index := b_index b |}), g)
      | None => hg end
  | OSetLive i v =>
      match nth_error g i with
      | Some a => (write h a (fun b => {| b_nodes := b_nodes b; b_succs := b_succs b; b_live := v; b_index := b_index b |}), g)
      | None => hg end
  | OAppendBlock ns js live =>
      let '(h1, a) := alloc h {| b_nodes := ns; b_succs := flat_map (fun j => match nth_error g j with Some x => [x] | None => [] end) js; b_live := live; b_index := length g |} in
      (h1, g ++ [a])
  end.

Definition run_ops (hg : heap * graph) (ops : list op) : heap * graph := fold_left exec ops hg.

(* Preprocessor.CFG: copy first, then rewrite the copy *)
Definition preprocess (h : heap) (g : graph) (ops : list op) : heap * graph := run_ops (copy_graph h g) ops.
