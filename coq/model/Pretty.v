(* M15 -- PrettyPrintErrorMessage (nilaway.go): the three regexp.ReplaceAllString passes (nilabilityPattern, then
   codeReferencePattern, then pathPattern) and the `error: ` prefix, over byte lists (N), each pass a structurally recursive
   state machine; `strip` is the remover of ANSI escape sequences \x1b\[[0-9;]*m that the property speaks of.  Tied to the code
   by checks/c13.py: `pretty` is evaluated inside Coq on the messages bin/harness pretty renders with the real function and the
   bytes are compared.  Non-greedy (.*?) between two delimiters, `.` not matching a newline; delimiters are ASCII, so bytes and
   code points agree. *)
From Coq Require Import List NArith Bool.
Import ListNotations.
Open Scope N_scope.
Definition ESC := 27. Definition LBR := 91. Definition CM := 109. Definition NL := 10. Definition SEMI := 59.
Definition BQ := 96. Definition DQ := 34.
Definition is_param (c : N) : bool := ((48 <=? c) && (c <=? 57)) || (c =? SEMI).

(* one delimiter pass: `d(.*?)d` -> open d ${1} d close, `.` not matching newline *)
Inductive dstate := Outside | Inside (buf : list N).
Fixpoint dpass (d : N) (op cl : list N) (st : dstate) (l : list N) : list N :=
  match l, st with
  | [], Outside => []
  | [], Inside buf => d :: buf
  | c :: r, Outside => if c =? d then dpass d op cl (Inside []) r else c :: dpass d op cl Outside r
  | c :: r, Inside buf =>
      if c =? d then op ++ d :: buf ++ d :: cl ++ dpass d op cl Outside r
      else if c =? NL then d :: buf ++ c :: dpass d op cl Outside r
      else dpass d op cl (Inside (buf ++ [c])) r
  end.

Definition esc (code : list N) : list N := ESC :: LBR :: code ++ [CM].
Definition code_pass := dpass BQ (esc [57; 53]) (esc [48]) Outside.   (* 95 *)
Definition path_pass := dpass DQ (esc [51; 54]) (esc [48]) Outside.   (* 36 *)

(* the oracle's strip *)
Inductive sstate := SNormal | SEsc | SCsi (buf : list N).
Definition flush (st : sstate) : list N := match st with SNormal => [] | SEsc => [ESC] | SCsi b => ESC :: LBR :: b end.
Fixpoint strip (st : sstate) (l : list N) : list N :=
  match l with
  | [] => flush st
  | c :: r =>
      match st with
      | SNormal => if c =? ESC then strip SEsc r else c :: strip SNormal r
      | SEsc => if c =? LBR then strip (SCsi []) r
                else flush st ++ (if c =? ESC then strip SEsc r else c :: strip SNormal r)
      | SCsi b => if is_param c then strip (SCsi (b ++ [c])) r
                  else if c =? CM then strip SNormal r
                  else flush st ++ (if c =? ESC then strip SEsc r else c :: strip SNormal r)
      end
  end.

Example ex1 : strip SNormal (path_pass (code_pass [BQ; 120; BQ; 32; DQ; 97; DQ; 32; BQ; 10; BQ])) = [BQ; 120; BQ; 32; DQ; 97; DQ; 32; BQ; 10; BQ].
Proof. vm_compute. reflexivity. Qed.


Definition error_prefix : list N := [101; 114; 114; 111; 114; 58; 32].

(* ---------- the nilabilityPattern pass: ([\(|^\t](?i)(found\s|must\sbe\s)(nilable|nonnil)[\)]?) -> ESC[1m ${1} ESC[0m ---------- *)
Definition lower (c : N) : N := if (65 <=? c) && (c <=? 90) then c + 32 else c.
Definition is_ws (c : N) : bool := (c =? 9) || (c =? 10) || (c =? 12) || (c =? 13) || (c =? 32).
Definition in_class (c : N) : bool := (c =? 40) || (c =? 124) || (c =? 94) || (c =? 9).
(* the rest of l after the word w, compared case-insensitively (w in lower case) *)
Fixpoint after_word (w l : list N) : option (list N) :=
  match w, l with
  | [], _ => Some l
  | x :: w', c :: r => if lower c =? x then after_word w' r else None
  | _ :: _, [] => None
  end.
Definition after_ws (l : list N) : option (list N) := match l with c :: r => if is_ws c then Some r else None | [] => None end.
Definition bind {A B} (o : option A) (f : A -> option B) : option B := match o with Some a => f a | None => None end.
Definition w_found := [102; 111; 117; 110; 100]. Definition w_must := [109; 117; 115; 116]. Definition w_be := [98; 101].
Definition w_nilable := [110; 105; 108; 97; 98; 108; 101]. Definition w_nonnil := [110; 111; 110; 110; 105; 108].
Definition opt_close (r : list N) : nat := match r with c :: _ => if c =? 41 then 1%nat else 0%nat | [] => 0%nat end.
(* length of the leftmost-first match at the head of l *)
Definition match_len (l : list N) : option nat :=
  match l with
  | c :: r =>
      if in_class c then
        bind (match bind (after_word w_found r) after_ws with
              | Some r1 => Some (6%nat, r1)
              | None => bind (bind (bind (bind (after_word w_must r) after_ws) (after_word w_be)) after_ws) (fun r1 => Some (8%nat, r1))
              end)
          (fun '(n1, r1) =>
             bind (match after_word w_nilable r1 with
                   | Some r2 => Some (7%nat, r2)
                   | None => bind (after_word w_nonnil r1) (fun r2 => Some (6%nat, r2))
                   end)
               (fun '(n2, r2) => Some (1 + n1 + n2 + opt_close r2)%nat))
      else None
  | [] => None
  end.
Fixpoint npass (op cl : list N) (k : nat) (l : list N) : list N :=
  match l with
  | [] => []
  | c :: r =>
      match k with
      | S j => c :: (match j with O => cl ++ npass op cl O r | _ => npass op cl j r end)
      | O => match match_len l with
             | Some (S j) => op ++ c :: (match j with O => cl ++ npass op cl O r | _ => npass op cl j r end)
             | _ => c :: npass op cl O r
             end
      end
  end.
Definition nil_pass := npass (esc [49]) (esc [48]) O.
Definition pretty (m : list N) : list N :=
  esc [51; 49] ++ [101; 114; 114; 111; 114; 58; 32] ++ esc [48] ++ path_pass (code_pass (nil_pass m)).

(* "(found NILABLE) x" *)
Example ex_nil : strip SNormal (pretty [40; 102; 111; 117; 110; 100; 32; 78; 73; 76; 65; 66; 76; 69; 41; 32; 120])
  = [101; 114; 114; 111; 114; 58; 32] ++ [40; 102; 111; 117; 110; 100; 32; 78; 73; 76; 65; 66; 76; 69; 41; 32; 120].
Proof. vm_compute. reflexivity. Qed.
Example ex_nil_wrapped : nil_pass [40; 102; 111; 117; 110; 100; 32; 78; 73; 76; 65; 66; 76; 69; 41; 32; 120]
  = esc [49] ++ [40; 102; 111; 117; 110; 100; 32; 78; 73; 76; 65; 66; 76; 69; 41] ++ esc [48] ++ [32; 120].
Proof. vm_compute. reflexivity. Qed.

