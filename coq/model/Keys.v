(* M3: site identity (inference/primitive.go: primitiveSite, primitivizer.site; annotation/key.go: the Key
   types, their Object() and String()).  The rendered Repr string is abstracted to the list of its variable
   parts (tokens): the fixed words of each format string are represented by the constructor tag. *)
From Coq Require Import List Bool Arith PeanoNat.
Import ListNotations.

(* a types.Object as far as identities are concerned *)
Record obj := {
  o_id : nat;                 (* which declaration this is (ground truth, never looked at by the code) *)
  o_pkg : nat;                (* package path *)
  o_name : nat;               (* Name() *)
  o_exported : bool;
  o_dispatch : bool;          (* an unexported method that takes part in dynamic dispatch: a method of an interface type, or named like an
                                 unexported method of a package-level interface of its package (reachable from other packages by converting
                                 a value to the interface) *)
  o_path : option nat }.      (* objectpath of the object within its package; None = "" (no path) *)

Definition location := (nat * nat * nat)%type.     (* file, line, column of a call-site key's Location *)

(* annotation.Key: 13 kinds *)
Inductive key :=
  | KField (f : obj)
  | KCallSiteParam (fn : obj) (num : nat) (pname : option nat) (loc : location)
  | KParam (fn : obj) (num : nat) (pname : option nat)
  | KCallSiteRet (fn : obj) (num : nat) (loc : location)
  | KRet (fn : obj) (num : nat)
  | KTypeName (t : obj)
  | KGlobalVar (v : obj)
  | KLocalVar (v : obj)
  | KRetField (fn : obj) (num : nat) (fld : obj) (recv : option nat)
  | KEscapeField (f : obj)
  | KParamField (fn : obj) (num : nat) (pname : option nat) (fld : obj) (is_recv : bool) (callsite : bool)
  | KRecv (fn : obj)
  | KRecvDeep (fn : obj).      (* placeholder for the deep receiver variant; same Object() *)

(* Key.Object() *)
Definition key_obj (k : key) : obj :=
  match k with
  | KField f | KEscapeField f => f
  | KCallSiteParam fn _ _ _ | KParam fn _ _ | KCallSiteRet fn _ _ | KRet fn _ | KRetField fn _ _ _
  | KParamField fn _ _ _ _ _ | KRecv fn | KRecvDeep fn => fn
  | KTypeName t => t
  | KGlobalVar v | KLocalVar v => v
  end.

(* Key.String(): tag of the format string + its arguments, in order *)
Inductive tok := TNum (n : nat) | TName (s : nat) | TNoName | TLoc (l : location) | TBool (b : bool).
Definition opt_name (o : option nat) : tok := match o with Some s => TName s | None => TNoName end.

Definition key_repr (k : key) : nat * list tok :=
  match k with
  | KField f => (1, [TName (o_name f)])
  | KCallSiteParam fn n pn loc => (2, [TNum n; opt_name pn; TName (o_name fn); TLoc loc])
  | KParam fn n pn => (3, [TNum n; opt_name pn; TName (o_name fn)])
  | KCallSiteRet fn n loc => (4, [TNum n; TName (o_name fn); TLoc loc])
  | KRet fn n => (5, [TNum n; TName (o_name fn)])
  | KTypeName t => (6, [TName (o_name t)])
  | KGlobalVar v => (7, [TName (o_name v)])
  | KLocalVar v => (8, [TName (o_name v)])
  | KRetField fn n fld recv => (9, [TName (o_name fld); TNum n; TName (o_name fn); opt_name recv])
  | KEscapeField f => (10, [TName (o_name f)])
  | KParamField fn n pn fld is_recv cs => (11, [TName (o_name fld); TNum n; opt_name pn; TBool is_recv; TBool cs; TName (o_name fn)])
  | KRecv fn => (12, [TName (o_name fn)])
  | KRecvDeep fn => (13, [TName (o_name fn)])
  end.

Definition position := (nat * nat)%type.      (* file, offset (line/column are functions of these) *)

Record psite := {
  s_pos : position;
  s_pkg : nat;
  s_repr : nat * list tok;
  s_deep : bool;
  s_exported : bool;
  s_path : option nat }.

(* what the analysing package knows *)
Record view := {
  v_pkg : nat;                                     (* pass.Pkg *)
  v_pos : obj -> position;                         (* Fset position of an object (may be imprecise upstream) *)
  v_upstream : list ((nat * nat) * position) }.     (* upstreamObjPositions: (pkg, objpath) -> position, from facts *)

Fixpoint lookup_up (l : list ((nat * nat) * position)) (pk pa : nat) : option position :=
  match l with
  | [] => None
  | ((a, b), p) :: l' => if Nat.eqb a pk && Nat.eqb b pa then Some p else lookup_up l' pk pa
  end.

(* primitivizer.site *)
Definition site_of (v : view) (k : key) (deep : bool) : psite :=
  let o := key_obj k in
  let fixed :=
    if Nat.eqb (o_pkg o) (v_pkg v) then None
    else match o_path o with Some pa => lookup_up (v_upstream v) (o_pkg o) pa | None => None end in
  {| s_pos := match fixed with Some p => p | None => v_pos v o end;
     s_pkg := o_pkg o;
     s_repr := key_repr k;
     s_deep := deep;
     (* visible downstream: exported, a dispatched unexported method, or a package-level type name (the only key whose object is a type name; the
        universes of the correspondence declare types at package level) -- repair of finding F79 *)
     s_exported := o_exported o || o_dispatch o || match k with KTypeName _ => true | _ => false end;
     s_path := o_path o |}.
