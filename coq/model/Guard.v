(* "Protected by a nil check", syntactically (C02): a set of variables known to have passed a nil check (or to
   hold a fresh allocation / a copy of such a variable) with no assignment since, threaded through the
   structured program.  A check hoisted above a loop survives the loop when the body does not assign the
   variable.  guarded p: every dereference of p reads a protected variable. *)
From Coq Require Import List Bool Arith PeanoNat.
From NM Require Import MiniGo.
Import ListNotations.

Definition pset := list var.
Definition pmem (x : var) (P : pset) : bool := existsb (var_eqb x) P.
Definition premove (x : var) (P : pset) : pset := filter (fun y => negb (var_eqb x y)) P.
Definition pinter (P Q : pset) : pset := filter (fun x => pmem x Q) P.

(* protected when the condition holds, protected when it fails, every dereference inside it protected *)
Fixpoint cond_prot (c : cond) (P : pset) : pset * pset * bool :=
  match c with
  | COpaque => (P, P, true)
  | CNonNil x => (x :: P, P, true)
  | CDeref _ x => (P, P, pmem x P)
  | CNot c1 => let '(Pt, Pf, ok) := cond_prot c1 P in (Pf, Pt, ok)
  | CAnd c1 c2 =>
      let '(Pt1, Pf1, ok1) := cond_prot c1 P in
      let '(Pt2, Pf2, ok2) := cond_prot c2 Pt1 in
      (Pt2, pinter Pf1 Pf2, ok1 && ok2)
  | COr c1 c2 =>
      let '(Pt1, Pf1, ok1) := cond_prot c1 P in
      let '(Pt2, Pf2, ok2) := cond_prot c2 Pf1 in
      (pinter Pt1 Pt2, Pf2, ok1 && ok2)
  end.

Fixpoint assigned (st : stmt) : list var :=
  match st with
  | SSeq a b | SIf _ a b => assigned a ++ assigned b
  | SWhile _ b => assigned b
  | SAssign x _ => [x]
  | SCall _ (Some x) _ _ => [x]
  | SConv x _ _ => [x]
  | SConvI x _ _ _ => [x]
  | SCall2 _ x xe _ _ => match x with Some y => [y] | None => [] end ++ match xe with Some y => [y] | None => [] end
  | SCallI _ _ (Some x) _ _ _ _ => [x]
  | _ => []
  end.

Definition opt_inter (o1 o2 : option pset) : option pset :=
  match o1, o2 with
  | None, o | o, None => o
  | Some P, Some Q => Some (pinter P Q)
  end.

(* protected set after the statement (None: control never falls through), every dereference in it protected *)
Fixpoint stmt_prot (st : stmt) (P : pset) : option pset * bool :=
  match st with
  | SSkip => (Some P, true)
  | SSeq a b =>
      match stmt_prot a P with
      | (None, ok) => (None, ok)
      | (Some P1, ok1) => let '(o, ok2) := stmt_prot b P1 in (o, ok1 && ok2)
      end
  | SAssign x a =>
      (Some (match a with
             | ANew => x :: P
             | AVar y => if pmem y P then x :: P else premove x P
             | ANil => premove x P
             end), true)
  | SCall _ x _ _ => (Some (match x with Some y => premove y P | None => P end), true)
  | SDeref _ x => (Some P, pmem x P)
  | SIf c a b =>
      let '(Pt, Pf, okc) := cond_prot c P in
      let '(oa, oka) := stmt_prot a Pt in
      let '(ob, okb) := stmt_prot b Pf in
      (opt_inter oa ob, okc && oka && okb)
  | SWhile c body =>
      let P' := filter (fun x => negb (pmem x (assigned body))) P in
      let '(Pt, Pf, okc) := cond_prot c P' in
      let '(_, okb) := stmt_prot body Pt in
      (Some Pf, okc && okb)
  | SReturn _ => (None, true)
  | SReturn2 _ _ => (None, true)
  | SRetCall _ _ _ => (None, true)
  | SCall2 _ x xe _ _ =>
      let P1 := match x with Some y => premove y P | None => P end in
      (Some (match xe with Some y => premove y P1 | None => P1 end), true)
  | SConv x _ _ => (Some (x :: P), true)
  | SConvI x y _ _ => (Some (if pmem y P then x :: P else premove x P), true)
  | SCallI _ _ x xi _ _ _ => (Some (match x with Some y => premove y P | None => P end), pmem xi P)
  end.

Definition guarded (p : program) : bool := forallb (fun fd => snd (stmt_prot (f_body fd) [])) (p_funcs p).
