(* C09 -- Nil flows through interface dispatch in both directions.
   Property theorems only (proved in proofs/FlowProofs.v, proofs/WholeProofs.v).  Objects (models M6/M7, the
   interface part):
     SConv x k j                 x = &S_j{} converted to interface I_k (at an assignment, a call argument -- of a function
                                 or of an interface method --, a return: spellings chosen by the correspondence's printer)
     SCallI cs d x xi k m args   [x =] xi.M_m(args) on an interface value: dynamic dispatch to the method the concrete
                                 type of xi's value provides (p_impls), dereferencing xi at d
     affil prog (k, j)           the triggers of the pair: result of S_j.M_m -> result of I_k.M_m (covariant),
                                 parameter i of I_k.M_m -> parameter i of S_j.M_m (contravariant), for every method m
     W prog ALLs (k, j)          those triggers are among the triggers ALLs of the program
     SConvI x y k k2             x = y where y has interface type I_k2 and x interface type I_k (the methods of I_k are
                                 the first methods of I_k2): an interface-to-interface conversion
     iaffil prog (k, k2)         the triggers of that pair: result of I_k2.M_m -> result of I_k.M_m, parameter i of
                                 I_k.M_m -> parameter i of I_k2.M_m; IW prog ALLs (k, k2): they are among ALLs
     L prog ALLs k j             S_j is linked to I_k: a nil-able result of each of its methods makes the interface
                                 method's result nil-able, a nil-able parameter of the interface method the method's
     nu ALLs s                   site s is nil-able in the constraint system of ALLs (a nil source reaches it) *)
From Coq Require Import List Bool Arith.
From NM Require Import Engine EngineSpec MiniGo Flow Guard.
From NP Require Import EngineMain FlowProofs GuardProofs WholeProofs.
Import ListNotations.

(* every conversion of the program witnesses its (interface, implementation) pair: the pair's triggers are emitted *)
Theorem C09_conversions_are_collected : forall prog afuel ctr pk r,
  analyze_program afuel ctr pk prog = Some r ->
  forall g fd kj, nth_error (p_funcs prog) g = Some fd -> In kj (convs_of (f_body fd)) -> W prog (all_strigs r) kj.
Proof. exact convs_witnessed. Qed.
Print Assumptions C09_conversions_are_collected.

(* a concrete method that can return nil makes the interface method's result nil-able ... *)
Theorem C09_result_flow : forall prog ALLs k j m np f fd,
  W prog ALLs (k, j) -> nth_error (isig prog k) m = Some np ->
  nth_error (nth j (p_impls prog) []) m = Some f -> nth_error (p_funcs prog) f = Some fd ->
  nu ALLs (SResult f) -> nu ALLs (SIResult k m).
Proof. exact W_result. Qed.
Print Assumptions C09_result_flow.

(* ... and nil passed through the interface method's parameter reaches the implementation's parameter *)
Theorem C09_param_flow : forall prog ALLs k j m np f fd i,
  W prog ALLs (k, j) -> nth_error (isig prog k) m = Some np ->
  nth_error (nth j (p_impls prog) []) m = Some f -> nth_error (p_funcs prog) f = Some fd ->
  S i < f_nparams fd -> nu ALLs (SIParam k m i) -> nu ALLs (SParam f (S i)).
Proof. exact W_param. Qed.
Print Assumptions C09_param_flow.

(* interface-to-interface conversions are collected too, and keep both directions of the flow: a value that is
   linked to I_k2 and is used as an I_k is linked to I_k *)
Theorem C09_interface_conversions_are_collected : forall prog afuel ctr pk r,
  analyze_program afuel ctr pk prog = Some r ->
  forall g fd kk, nth_error (p_funcs prog) g = Some fd -> In kk (iconvs_of (f_body fd)) -> IW prog (all_strigs r) kk.
Proof. exact iconvs_witnessed. Qed.
Print Assumptions C09_interface_conversions_are_collected.

Theorem C09_interface_conversion_keeps_links : forall prog ALLs k k2 j,
  IW prog ALLs (k, k2) -> prefix_b (isig prog k) (isig prog k2) = true ->
  L prog ALLs k2 j -> Conf prog k2 j -> L prog ALLs k j /\ Conf prog k j.
Proof. exact IW_L. Qed.
Print Assumptions C09_interface_conversion_keeps_links.

(* a program with interfaces that analyses clean never panics -- in particular not on a value that travelled through
   dynamic dispatch, nor on a nil interface value (this is C01's theorem: the model it is proved for includes
   conversions and dispatch; the simulation carries the invariant that every interface value stems from a
   conversion of the program, whose pair therefore has its triggers) *)
Theorem C09_clean_means_panic_free : forall prog afuel ctr pk r st,
  analyze_program afuel ctr pk prog = Some r -> r_gsafe r = true -> r_clocal r = true -> r_nodel r = true ->
  wf_program prog = true -> ctr_arity ctr 0 (p_funcs prog) = true -> impls_plain prog ctr = true ->
  (forall g fd, ctr g = true -> nth_error (p_funcs prog) g = Some fd -> contract_true prog fd) ->
  pkg_run [] [] (all_triggers r) st -> conflicts st = [] ->
  forall fuel oracle, panic_of (run_program prog fuel oracle) = None.
Proof. exact whole_sound. Qed.
Print Assumptions C09_clean_means_panic_free.

(* witnesses: both directions reported on a two-function program; its repaired variant meets every premise of the
   soundness theorem; without the pair's triggers the flows through dispatch are lost *)
Example C09_flows_reported :
  exists r res, analyze_program 8 no_ctr one_pkg ex_iface = Some r /\ wf_program ex_iface = true /\
    impls_plain ex_iface no_ctr = true /\
    analyze_pkg all_exported 200 [] [] (all_triggers r) = Finished res /\ length (r_conflicts res) = 2.
Proof. exact iface_flows_reported. Qed.

Example C09_example :
  exists r res, analyze_program 8 no_ctr one_pkg ex_iface_ok = Some r /\ r_gsafe r = true /\ r_clocal r = true /\ r_nodel r = true /\
    wf_program ex_iface_ok = true /\ impls_plain ex_iface_ok no_ctr = true /\
    analyze_pkg all_exported 200 [] [] (all_triggers r) = Finished res /\ r_conflicts res = [].
Proof. exact iface_ok_premises. Qed.

Example C09_affiliation_needed :
  exists r res, analyze_program 8 no_ctr one_pkg ex_iface = Some r /\
    analyze_pkg all_exported 200 [] [] (map etrig (r_decl r ++ concat (r_funcs r) ++ concat (r_dups r))) = Finished res /\
    r_conflicts res = [].
Proof. exact iface_affiliation_needed. Qed.

(* interface-to-interface: the value is made as an I1 and used as an I0 (same method); both flows are reported and
   both panics are real; the variant without nil meets every premise of the soundness theorem; without the triggers
   of the (I0, I1) pair the flows are lost *)
Example C09_interface_conversion_flows_reported :
  exists r res, analyze_program 8 no_ctr one_pkg (ex_iface2 ANil ANil) = Some r /\ wf_program (ex_iface2 ANil ANil) = true /\
    analyze_pkg all_exported 200 [] [] (all_triggers r) = Finished res /\ length (r_conflicts res) = 2 /\
    panic_of (run_program (ex_iface2 ANil ANil) 20 []) = Some 3 /\ panic_of (run_program (ex_iface2 ANew ANil) 20 []) = Some 2.
Proof. exact iface2_flows_reported. Qed.
Example C09_interface_conversion_example :
  exists r res, analyze_program 8 no_ctr one_pkg (ex_iface2 ANew ANew) = Some r /\ r_gsafe r = true /\ r_clocal r = true /\ r_nodel r = true /\
    wf_program (ex_iface2 ANew ANew) = true /\ impls_plain (ex_iface2 ANew ANew) no_ctr = true /\
    analyze_pkg all_exported 200 [] [] (all_triggers r) = Finished res /\ r_conflicts res = [].
Proof. exact iface2_ok_premises. Qed.
Example C09_interface_link_needed :
  exists r res, analyze_program 8 no_ctr one_pkg (ex_iface2 ANil ANil) = Some r /\
    analyze_pkg all_exported 200 [] []
      (map etrig (r_decl r ++ concat (r_funcs r) ++ concat (r_dups r) ++ affil (ex_iface2 ANil ANil) (1, 0))) = Finished res /\
    r_conflicts res = [].
Proof. exact iface2_link_needed. Qed.
