(* C19 -- Rewriting a comparison keeps its meaning.  Property theorems only. *)
From Coq Require Import ZArith Bool List.
From NM Require Import Cmp.
From NG Require Import Tables.
From NP Require Import CmpProofs.
Open Scope Z_scope.

(* the Go switches cover exactly the six comparison operators *)
Theorem C19_total : forall t, converse_gen t <> None /\ inverse_gen t <> None.
Proof. exact tables_total. Qed.
Print Assumptions C19_total.

Theorem C19_converse : forall o a b, eval o a b = eval (conv o) b a.
Proof. exact eval_converse. Qed.
Print Assumptions C19_converse.

Theorem C19_inverse : forall o a b, eval o a b = negb (eval (inv o) a b).
Proof. exact eval_inverse. Qed.
Print Assumptions C19_inverse.

Theorem C19_involutions : (forall o, conv (conv o) = o) /\ (forall o, inv (inv o) = o).
Proof. exact (conj conv_involutive inv_involutive). Qed.
Print Assumptions C19_involutions.

(* the translator understood the shape of the checker list and of the application loop *)
Theorem C19_shape : tables_shape_ok = true /\
  forallb (fun ck => match ck_cls ck with ClsUnknown => false | _ => true end) checkers_gen = true.
Proof. exact (conj shape_ok classes_known). Qed.
Print Assumptions C19_shape.

Theorem C19_branch_attribution : forall binop x y t f s,
  operand_ok x -> operand_ok y ->
  apply binop x y = Some (t, f, s) ->
  (t = true -> eval binop (o_val x) (o_val y) = true -> subject_nonnil s) /\
  (f = true -> eval binop (o_val x) (o_val y) = false -> subject_nonnil s).
Proof. exact branch_attribution. Qed.
Print Assumptions C19_branch_attribution.

Theorem C19_nil_spellings : forall v,
  apply NEQ (ptr v) nil_lit = Some (true, false, ptr v) /\
  apply NEQ nil_lit (ptr v) = Some (true, false, ptr v) /\
  apply EQL (ptr v) nil_lit = Some (false, true, ptr v) /\
  apply EQL nil_lit (ptr v) = Some (false, true, ptr v).
Proof. exact nil_spellings. Qed.
Print Assumptions C19_nil_spellings.

Theorem C19_len_spellings : forall v,
  apply NEQ (len_of v) zero_lit = Some (true, false, len_of v) /\
  apply NEQ zero_lit (len_of v) = Some (true, false, len_of v) /\
  apply EQL (len_of v) zero_lit = Some (false, true, len_of v) /\
  apply EQL zero_lit (len_of v) = Some (false, true, len_of v) /\
  apply GTR (len_of v) zero_lit = Some (true, false, len_of v) /\
  apply LSS zero_lit (len_of v) = Some (true, false, len_of v) /\
  apply LEQ (len_of v) zero_lit = Some (false, true, len_of v) /\
  apply GEQ zero_lit (len_of v) = Some (false, true, len_of v).
Proof. exact len_spellings. Qed.
Print Assumptions C19_len_spellings.

(* AddNilCheck on nested conditions (the prologue's negation case and the matcher that compares a check with a
   boolean constant call AddNilCheck again): the translator recognised both shapes *)
Theorem C19_nested_shape : not_swaps_gen = true /\ (forall o x y, checke (ECmp o (EOp x) (EOp y)) = apply o x y).
Proof. exact (conj not_swaps check_atoms). Qed.
Print Assumptions C19_nested_shape.

Theorem C19_branch_attribution_nested : forall e t f s,
  wf_expr e -> checke e = Some (t, f, s) ->
  (t = true -> ev e = 1 -> subject_nonnil s) /\ (f = true -> ev e = 0 -> subject_nonnil s).
Proof. exact branch_attribution_nested. Qed.
Print Assumptions C19_branch_attribution_nested.

Theorem C19_bool_const_spellings : forall v,
  let c := cmp NEQ (atom (ptr v)) (atom nil_lit) in
  checke (cmp EQL c (EBool true)) = Some (true, false, ptr v) /\
  checke (cmp EQL (EBool true) c) = Some (true, false, ptr v) /\
  checke (cmp NEQ c (EBool false)) = Some (true, false, ptr v) /\
  checke (cmp NEQ (EBool false) c) = Some (true, false, ptr v) /\
  checke (cmp EQL c (EBool false)) = Some (false, true, ptr v) /\
  checke (cmp NEQ (EBool true) c) = Some (false, true, ptr v) /\
  checke (ENot (cmp EQL c (EBool false))) = Some (true, false, ptr v) /\
  checke (cmp EQL (cmp NEQ (ENot c) (EBool true)) (EBool true)) = Some (true, false, ptr v).
Proof. exact bool_const_spellings. Qed.
Print Assumptions C19_bool_const_spellings.

(* ---- nil checks that are operands of a short-circuit VALUE expression (model M14 = the BinaryExpr case of AddComputation
   after the repair of F100, tied to the real tool by checks/shortcircuit_suite.py) ---- *)
From NM Require Import ShortCircuit.
From NP Require Import ShortCircuitProofs.

(* every dereference inside the expression that can panic -- for some nil-ness of the variables and some outcome of the
   opaque operands -- is reported, for every expression all of whose LEFT operands are pure trees of the operator they
   stand under (any depth, any right nesting), whatever its conditions are as long as the conclusions attached to them are
   right (conds_ok) ... *)
Theorem C19_short_circuit_attribution : forall e nilv orc l,
  left_pure e = true -> conds_ok e -> eval nilv orc e = Panic l -> In l (reported e).
Proof. exact short_circuit_sound. Qed.
Print Assumptions C19_short_circuit_attribution.

(* ... and they are right for every condition AddNilCheck recognises through its recursion: comparisons with nil in either
   order, negations, comparisons with boolean constants in either order, nested to any depth -- the conclusions are those
   M5's interpreter of the GENERATED checker list computes (cond_of), so M5 and M14 compose *)
From NP Require Import ShortCircuitCmp.
Theorem C19_nested_conditions_draw_right_conclusions : forall c, cond1_ok (cond_of c).
Proof. exact cond_of_ok. Qed.
Print Assumptions C19_nested_conditions_draw_right_conclusions.

Theorem C19_short_circuit_attribution_nested : forall e nilv orc l,
  left_pure e = true -> nested_conds e -> eval nilv orc e = Panic l -> In l (reported e).
Proof. exact short_circuit_sound_nested. Qed.
Print Assumptions C19_short_circuit_attribution_nested.

(* outside that class the statement is false of the code: finding F104, with the failing inputs *)
Theorem C19_short_circuit_refuted_outside_class :
  (left_pure f104a = false /\ eval (fun _ => true) (fun _ => true) f104a = Panic 1%nat /\ reported f104a = nil) /\
  (left_pure f104b = false /\ eval (fun _ => true) (fun _ => false) f104b = Panic 1%nat /\ reported f104b = nil).
Proof. exact short_circuit_refuted_outside_class. Qed.
Print Assumptions C19_short_circuit_refuted_outside_class.

(* the statement the expression belongs to: what FOLLOWS it is untouched by the checks inside it (finding F100, repaired;
   `before_F100_refuted` in the proofs shows the earlier behaviour losing `b := c && p != nil; return p.f`) *)
Theorem C19_code_after_the_statement_is_untouched : forall e after c, In c after -> In c (proc_stmt e after).
Proof. exact after_survives. Qed.
Print Assumptions C19_code_after_the_statement_is_untouched.
