(* C20 -- Inferred nonnil-to-nonnil contracts are true and never hide a nil argument.
   Property theorems only (proved in proofs/ContractProofs.v, FlowProofs.v, WholeProofs.v).  Objects:
     infer_sem hf fd             (model/Contract.v) the strongest intraprocedural inference: every execution of the body
                                 from a non-nil parameter -- opaque conditions, call results and package-level variables
                                 free -- returns non-nil; NilAway's inference (functioncontracts/infer.go) is compared
                                 against it on every run (every contract the real tool infers must be accepted)
     contract_true prog fd       the run-time meaning: in program prog, started with a non-nil argument the function
                                 never returns nil (nor falls off its end), whatever the package-level variables hold
     analyze_program .. ctr ..   (model M7) calls of a contracted callee use call-site-specific parameter / result
                                 sites; the callee's triggers that start at its parameter or end at its result are
                                 duplicated per call site of the same package, those ending at the result controlled by
                                 the call-site parameter site *)
From Coq Require Import List Bool Arith.
From NM Require Import Engine EngineSpec MiniGo Flow Guard Contract Infer.
From NP Require Import EngineMain FlowProofs GuardProofs ContractProofs WholeProofs InferSound InferLoop.
Import ListNotations.

(* an accepted contract is true of every execution of the function, in any program *)
Theorem C20_contract_true : forall prog hf fd, infer_sem hf fd = true -> contract_true prog fd.
Proof. exact infer_sem_sound. Qed.
Print Assumptions C20_contract_true.

(* with such contracts, a nil argument is never hidden: if no conflict is reported, no execution dereferences nil --
   in particular not the result of a contracted callee that was handed nil (literal, constant or variable) *)
Theorem C20_contracts_never_hide_nil : forall prog afuel hf ctr pk r st,
  analyze_program afuel ctr pk prog = Some r -> r_gsafe r = true -> r_clocal r = true -> r_nodel r = true ->
  wf_program prog = true -> impls_plain prog ctr = true ->
  (forall g fd, ctr g = true -> nth_error (p_funcs prog) g = Some fd -> infer_sem hf fd = true) ->
  pkg_run [] [] (all_triggers r) st -> conflicts st = [] ->
  forall fuel oracle, panic_of (run_program prog fuel oracle) = None.
Proof. exact whole_sound_inferred. Qed.
Print Assumptions C20_contracts_never_hide_nil.

(* the same for any true contracts, however they were obtained *)
Theorem C20_sound_for_true_contracts : forall prog afuel ctr pk r st,
  analyze_program afuel ctr pk prog = Some r -> r_gsafe r = true -> r_clocal r = true -> r_nodel r = true ->
  wf_program prog = true -> ctr_arity ctr 0 (p_funcs prog) = true -> impls_plain prog ctr = true ->
  (forall g fd, ctr g = true -> nth_error (p_funcs prog) g = Some fd -> contract_true prog fd) ->
  pkg_run [] [] (all_triggers r) st -> conflicts st = [] ->
  forall fuel oracle, panic_of (run_program prog fuel oracle) = None.
Proof. exact whole_sound. Qed.
Print Assumptions C20_sound_for_true_contracts.

(* the package-locality side condition is necessary (F4): x1 = p0.F1(x0); x1.V with nil x0 and a contracted
   func F1(p *T) *T { return p } of another package is clean and panics ... *)
Theorem C20_refuted_cross_package :
  exists prog r st fuel oracle,
    analyze_program 8 ctr1 two_pkgs prog = Some r /\ r_gsafe r = true /\ r_clocal r = false /\
    wf_program prog = true /\ ctr_arity ctr1 0 (p_funcs prog) = true /\
    pkg_run [] [] (all_triggers r) st /\ conflicts st = [] /\
    panic_of (run_program prog fuel oracle) = Some 1.
Proof. exact refuted_without_contract_locality. Qed.
Print Assumptions C20_refuted_cross_package.

(* ... while the same program with the callee in the caller's package is reported *)
Example C20_same_package_reported :
  exists r res, analyze_program 8 ctr1 one_pkg ex_xpkg = Some r /\ r_clocal r = true /\
    analyze_pkg all_exported 200 [] [] (all_triggers r) = Finished res /\ r_conflicts res <> [].
Proof. exact xpkg_local_reported. Qed.

(* non-vacuity: bodies the inference accepts and rejects (the rejected ones are the shapes of findings F23, F3) *)
Example C20_infer_examples :
  infer_sem 16 fd_id = true /\ infer_sem 16 fd_guarded_new = true /\
  infer_sem 16 fd_loop_overwrite = false /\ infer_sem 16 fd_opaque_nil = false.
Proof. exact infer_examples. Qed.

(* ---- the inference algorithm itself (model M10 = transcription of functioncontracts/infer.go, tied to the code by a
   two-directional correspondence on every run) ----
   infer_checked F fuel = the transcribed inferContracts says contract(nonnil -> nonnil) and the final state of the work
   list passed the post-fixpoint check `stable` (evaluated by the correspondence suite on every function it sees;
   implied, see C20_worklist_ends_in_postfixpoint).
   reach F b e = an execution of the abstract SSA function F reaches block b with environment e (e v = true: v is
   nil now), under nilaway's notion of nilness: see proofs/InferSound.v.  Every state keeps wrapper values
   (ChangeInterface, MakeInterface, Slice, append(x), ...) in step with their operand: exact for `semiplain` functions
   (counted by the suite), an idealisation justified by SSA dominance for the others.
   Then: whenever an execution returns r with a non-nil contracted parameter, r is non-nil. *)
Theorem C20_inferred_contract_true : forall F fuel, infer_checked F fuel = true ->
  forall b e r, reach F b e -> ib_ret (block F b) = Some r -> e (if_param F) = false -> e r = false.
Proof. exact infer_checked_is_sound. Qed.
Print Assumptions C20_inferred_contract_true.

(* the work list always ends in a post-fixpoint (control-flow graphs whose entry block has no predecessor and in which no
   block has the same predecessor twice), so the validation is implied: what the transcribed inferContracts returns is
   true.  `infer` is what the two-directional correspondence compares with the real inferContracts on every run. *)
Theorem C20_worklist_ends_in_postfixpoint : forall F, wf_cfg F = true ->
  forall fuel s, loop F fuel {| i_sets := []; i_seen := [] |} [0] = IDone s -> stable F s = true.
Proof. exact loop_stable. Qed.
Print Assumptions C20_worklist_ends_in_postfixpoint.

Theorem C20_inference_is_sound : forall F fuel,
  wf_fn F = true -> wf_cfg F = true -> infer F fuel = IInferred ->
  forall b e r, reach F b e -> ib_ret (block F b) = Some r -> e (if_param F) = false -> e r = false.
Proof. exact infer_sound. Qed.
Print Assumptions C20_inference_is_sound.

(* the inference accepts a guard and a guarded loop, and (since the repair of F45) not the function that returns nil
   when two fresh allocations differ -- which the semantics can execute *)
Example C20_infer_checked_examples :
  infer_checked ex_guard 100 = true /\ infer ex_guard 100 = IInferred /\
  infer_checked ex_loop 100 = true /\ infer ex_loop 100 = IInferred /\
  infer_checked ex_distinct 100 = false /\ infer ex_distinct 100 = INotInferred.
Proof. exact infer_checked_examples. Qed.
Example C20_infer_wrapper_example :
  infer_checked ex_iface 100 = true /\ infer ex_iface 100 = IInferred /\ plain ex_iface = false /\ semiplain ex_iface = true.
Proof. exact infer_wrapper_example. Qed.
Example C20_semantics_refutes_distinct :
  exists b e r, reach ex_distinct b e /\ ib_ret (block ex_distinct b) = Some r /\ e (if_param ex_distinct) = false /\ e r = true.
Proof. exact distinct_returns_nil. Qed.
Example C20_theorem_not_vacuous :
  exists b e r, reach ex_guard b e /\ ib_ret (block ex_guard b) = Some r /\ e (if_param ex_guard) = false.
Proof. exact guard_reaches_return. Qed.
