(* C07 -- Analysis is total (partial: Coq covers the inference engine; the per-function backward propagation and
   everything else is reached only by the totality sweep over real packages). *)
From Coq Require Import List Bool Arith.
From NM Require Import Engine EngineSpec.
From NP Require Import EngineBasics EngineMain EngineTerm.
Import ListNotations.

(* the engine terminates on every input whose trigger set is well-formed (the consumer site of a controlled trigger
   never controls a trigger: call-site result sites versus call-site parameter sites); the proof is by a
   lexicographic measure (undetermined sites of a finite universe, weighted work stack) *)
Theorem C07_engine_terminates : forall facts annots ts,
  wf_triggers ts -> exists st, pkg_run facts annots ts st.
Proof. exact engine_terminates. Qed.
Print Assumptions C07_engine_terminates.

(* any run of the work-list semantics is reproduced by the fuelled executable for all sufficiently large fuel,
   so the executable model cannot "run out" where the relation terminates *)
Theorem C07_fuel_monotone : forall st work st', Run st work st' ->
  exists fuel, forall f, fuel <= f -> run f st work = Some st'.
Proof. exact Run_run. Qed.
Print Assumptions C07_fuel_monotone.

(* without well-formedness the engine really can recurse forever: two determined-nonnil controllers that each
   control an always-nil trigger into the other re-activate each other on every conflict -- 1000 steps later the
   same two items are still pending *)
Definition loop_ts : list trigger :=
  [ {| t_id := 1; t_prod := KAlways; t_cons := KCond 2; t_ctrl := Some 1 |};
    {| t_id := 2; t_prod := KAlways; t_cons := KCond 1; t_ctrl := Some 2 |} ].
Definition loop_state : state :=
  {| mp := [(1, Det (EAnnot false 1)); (2, Det (EAnnot false 2))]; conflicts := []; ctl := loop_ts |}.
Theorem C07_refuted_without_wf : run 1000 loop_state [ISite 1 (EAnnot true 1)] = None.
Proof. vm_compute. reflexivity. Qed.
