(* C04 -- Same input, same output: diagnostics and facts are byte-deterministic.
   Theorems over the pipeline model M8 + engine model M1, with every source of nondeterminism as an argument.
   What is proved: the collector and the engine's inputs are order-free, and the engine and the diagnostic model
   are functions.  What is checked rather than proved: the classification of every `range` over a Go map found by
   the regenerated, go/types-based inventory (proofs/OrderSites.v) -- a new map range breaks the obligation. *)
From Coq Require Import List Bool Arith Permutation String.
From NM Require Import Engine Pipeline.
From NG Require Import Inventory.
From NP Require Import PipelineProofs OrderSites.
Import ListNotations.

(* the order in which the driver hands over dependency facts and the iteration order of the annotation maps do not
   influence anything the engine produces: conflicts (with explanations, in order), the inferred map (in insertion
   order) and the exported fact are EQUAL *)
Theorem C04_engine_input_order_free : forall exported fuel facts facts' annots annots' ts,
  Permutation facts facts' -> NoDup (map fst facts) ->
  Permutation annots annots' -> NoDup (map fst annots) ->
  engine_result exported fuel facts annots ts = engine_result exported fuel facts' annots' ts.
Proof. exact engine_input_order_free. Qed.
Print Assumptions C04_engine_input_order_free.

(* sorting by a key with distinct values erases the arrival order (nolint ranges, facts by package path,
   annotated sites by position, callers by index) *)
Theorem C04_sort_erases_order : forall (A : Type) (key : A -> nat) (l l' : list A),
  Permutation l l' -> NoDup (map key l) -> sort_by key l = sort_by key l'.
Proof. exact @sort_by_order_free. Qed.
Print Assumptions C04_sort_erases_order.

(* every goroutine completion order gives the trigger list of a sequential analysis *)
Theorem C04_collector_order_free : forall (T : Type) n (analyse : nat -> list T) arrivals,
  Permutation (map fst arrivals) (seq 0 n) ->
  (forall i ts, In (i, ts) arrivals -> ts = analyse i) ->
  collect T n arrivals = sequential T n analyse.
Proof. exact collect_any_order. Qed.
Print Assumptions C04_collector_order_free.

(* every map range of the source tree is classified (sorted-after / set-like / static table / out of model) *)
Theorem C04_map_ranges_classified : forallb (classified range_classes) map_ranges_gen = true.
Proof. exact map_ranges_classified. Qed.
Print Assumptions C04_map_ranges_classified.

(* no clock, timer, deadline, CPU count, environment variable or random source feeds the analysis: every such use in the
   source tree (regenerated inventory) is presentation-only or confined to internal-error messages *)
Theorem C04_ambient_inputs_classified : forallb (classified ambient_classes) ambient_gen = true.
Proof. exact ambient_classified. Qed.
Print Assumptions C04_ambient_inputs_classified.
