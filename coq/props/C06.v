(* C06 -- Exported facts preserve every flow between externally visible sites.
   Property theorems only.  Objects (model M1): pkg_run_up facts annots ts up st: a package run whose upstream
   snapshot (what the dependencies already published, as observed) is `up` and whose final state is st;
   export exported up (mp st): the published increment (None = the Go code would panic, Some None = no fact). *)
From Coq Require Import List Bool Arith.
From NM Require Import Engine EngineSpec.
From NP Require Import EngineBasics EngineStep EngineMain ExportProofs.
Import ListNotations.

(* every verdict on a site of an exported symbol is published, or was already published by a dependency *)
Theorem C06_verdicts_kept : forall exported facts annots ts up st fo s e,
  pkg_run_up facts annots ts up st -> export exported up (mp st) = Some fo ->
  exported s = true -> lookup (mp st) s = Some (Det e) ->
  (exists f e', fo = Some f /\ lookup f s = Some (Det e') /\ eval_expl e' = eval_expl e) \/
  (exists e', lookup up s = Some (Det e') /\ eval_expl e' = eval_expl e).
Proof. exact export_verdicts_kept. Qed.
Print Assumptions C06_verdicts_kept.

(* the increment omits what the dependencies already published: no verdict for a site they determined, and no
   edge they already listed *)
Theorem C06_increment : forall exported up st f,
  export exported up (mp st) = Some (Some f) -> forall s d, In (s, d) f ->
  match lookup up s with
  | Some (Det _) => False
  | Some (Undet oi oo) =>
      match d with
      | Det _ => True
      | Undet di do => (forall x t, In (x, t) di -> lookup oi x = None) /\ (forall x t, In (x, t) do -> lookup oo x = None)
      end
  | None => True
  end.
Proof. exact export_increment. Qed.
Print Assumptions C06_increment.

(* publishing never fails: the "new value does not supersede old value" panic is unreachable *)
Theorem C06_export_total : forall exported facts annots ts up st,
  pkg_run_up facts annots ts up st -> export exported up (mp st) <> None.
Proof. exact export_no_panic. Qed.
Print Assumptions C06_export_total.

(* every exported site the package knows about is among the chosen sites *)
Theorem C06_exported_chosen : forall exported m s,
  In s (map fst m) -> exported s = true -> In s (choose_sites_to_export exported m).
Proof. exact choose_exported. Qed.
Print Assumptions C06_exported_chosen.
