(* C06 -- Exported facts preserve every flow between externally visible sites.
   Property theorems only.  Objects (model M1): pkg_run_up facts annots ts up st: a package run whose upstream
   snapshot (what the dependencies already published, as observed) is `up` and whose final state is st;
   export exported up (mp st): the published increment (None = the Go code would panic, Some None = no fact). *)
From Coq Require Import List Bool Arith.
From NM Require Import Engine EngineSpec.
From NP Require Import EngineBasics EngineStep EngineMain ExportProofs ExportConvex ModularProofs ModularComplete.
Import ListNotations.

(* every verdict on a site of an exported symbol is published, or was already published by a dependency *)
Theorem C06_verdicts_kept : forall exported facts annots ts up st fo s e,
  pkg_run_up facts annots ts up st -> export exported up (mp st) = Some fo ->
  exported s = true -> lookup (mp st) s = Some (Det e) ->
  (exists f e', fo = Some f /\ lookup f s = Some (Det e') /\ eval_expl e' = eval_expl e) \/
  (exists e', lookup up s = Some (Det e') /\ eval_expl e' = eval_expl e).
Proof. exact export_verdicts_kept. Qed.
Print Assumptions C06_verdicts_kept.

(* the increment omits what the dependencies already published: no verdict for a site they determined, and no
   edge they already listed *)
Theorem C06_increment : forall exported up st f,
  export exported up (mp st) = Some (Some f) -> forall s d, In (s, d) f ->
  match lookup up s with
  | Some (Det _) => False
  | Some (Undet oi oo) =>
      match d with
      | Det _ => True
      | Undet di do => (forall x t, In (x, t) di -> lookup oi x = None) /\ (forall x t, In (x, t) do -> lookup oo x = None)
      end
  | None => True
  end.
Proof. exact export_increment. Qed.
Print Assumptions C06_increment.

(* publishing never fails: the "new value does not supersede old value" panic is unreachable *)
Theorem C06_export_total : forall exported facts annots ts up st,
  pkg_run_up facts annots ts up st -> export exported up (mp st) <> None.
Proof. exact export_no_panic. Qed.
Print Assumptions C06_export_total.

(* every exported site the package knows about is among the chosen sites *)
Theorem C06_exported_chosen : forall exported m s,
  In s (map fst m) -> exported s = true -> In s (choose_sites_to_export exported m).
Proof. exact choose_exported. Qed.
Print Assumptions C06_exported_chosen.

(* the chosen set is exactly the exported sites plus the convex closure between them: an undetermined site of an
   unexported symbol is published iff it lies on a path of such sites that starts at a successor of an exported site
   of the map and ends at a predecessor of one (FR: reachable forward from an exported site through such sites, BR:
   reaches one backward) -- for every map, no bound on its size *)
Theorem C06_chosen_is_convex_closure : forall exported m s,
  ExportConvex.inner exported m s = true ->
  (In s (choose_sites_to_export exported m) <-> ExportConvex.FR exported m s /\ ExportConvex.BR exported m s).
Proof. exact ExportConvex.choose_convex. Qed.
Print Assumptions C06_chosen_is_convex_closure.

(* non-vacuity: exported sites 0 and 9; 0 -> 1 -> 2 -> 9 is a path of unexported undetermined sites, 3 hangs off 1
   without reaching an exported site, 4 leads into 2 without being reachable from one: 1 and 2 are chosen, 3 and 4
   are not *)
Example C06_convex_example :
  let exported := fun s => Nat.eqb s 0 || Nat.eqb s 9 in
  let m := [(0, Undet [] [(1, 0)]); (1, Undet [(0, 0)] [(2, 0); (3, 0)]); (2, Undet [(1, 0); (4, 0)] [(9, 0)]);
            (3, Undet [(1, 0)] []); (4, Undet [] [(2, 0)]); (9, Undet [(2, 0)] [])] in
  (forall s, In s [1; 2] -> In s (choose_sites_to_export exported m)) /\
  (forall s, In s [3; 4] -> ~ In s (choose_sites_to_export exported m)).
Proof.
  cbn zeta. split; intros s H; vm_compute in H |- *; intuition (subst; try discriminate; auto).
Qed.

(* ---- the importer's view ----
   An importer that combines the dependencies' facts with this increment (CEx) reaches the same conflicts as one given
   the package's full internal constraint graph (CWh), and the same verdicts on every site it can see -- provided no
   controlled trigger of the package is left pending (finding F15; C03_refuted_pending_controlled shows the condition
   cannot be dropped).  D is everything else the importer knows; it mentions this package's sites only through exported
   symbols. *)
Theorem C06_importer_finds_every_flow : forall exported facts annots ts up st fo D,
  pkg_run_up facts annots ts up st -> export exported up (mp st) = Some fo -> conflicts st = [] ->
  (forall s, In s (sites_of D) -> vis exported st s) ->
  (forall k a, In (k, a) (ctld (pkg_csys facts annots ts)) -> dv st k <> None) ->
  has_flow (CWh facts annots ts D) -> has_flow (CEx facts fo D).
Proof. exact modular_complete. Qed.
Print Assumptions C06_importer_finds_every_flow.

Theorem C06_importer_verdicts_nilable : forall exported facts annots ts up st fo D,
  pkg_run_up facts annots ts up st -> export exported up (mp st) = Some fo -> conflicts st = [] ->
  (forall s, In s (sites_of D) -> vis exported st s) ->
  (forall k a, In (k, a) (ctld (pkg_csys facts annots ts)) -> dv st k <> None) ->
  forall s, vis exported st s -> nilr (CWh facts annots ts D) s -> has_flow (CEx facts fo D) \/ nilr (CEx facts fo D) s.
Proof. exact visible_nilable. Qed.
Print Assumptions C06_importer_verdicts_nilable.

Theorem C06_importer_verdicts_nonnil : forall exported facts annots ts up st fo D,
  pkg_run_up facts annots ts up st -> export exported up (mp st) = Some fo -> conflicts st = [] ->
  (forall s, In s (sites_of D) -> vis exported st s) ->
  (forall k a, In (k, a) (ctld (pkg_csys facts annots ts)) -> dv st k <> None) ->
  forall s, vis exported st s -> nonr (CWh facts annots ts D) s -> has_flow (CEx facts fo D) \/ nonr (CEx facts fo D) s.
Proof. exact visible_nonnil. Qed.
Print Assumptions C06_importer_verdicts_nonnil.
