(* C02 -- Nil-checked dereferences are never reported.
   Property theorems only (proved in proofs/GuardProofs.v, proofs/WholeProofs.v).  Objects:
     stmt_prot st P / guarded prog   (model/Guard.v) the set P of variables that passed a nil check -- or hold a
                                 fresh allocation or a copy of such a variable -- with no assignment since, threaded
                                 through the structured program; conditions are trees of opaque tests, nil tests,
                                 dereferencing tests, ! && || (all spellings of a guard canonicalise to these: the
                                 correspondence prints them as x != nil, nil != x, !(x == nil), early returns,
                                 switch x { case nil: }, De Morgan forms, checks hoisted above loops)
     analyze / analyze_program    the triggers NilAway's function analysis emits (model M7) *)
From Coq Require Import List Bool Arith.
From NM Require Import Engine EngineSpec MiniGo Flow Guard.
From NP Require Import EngineMain FlowProofs GuardProofs WholeProofs.
Import ListNotations.

(* a dereference of a protected variable only yields triggers whose producer never fires *)
Theorem C02_protected_triggers_never : forall ng ctr sp f fuel st e r P oP,
  Pinv P e -> analyze ng ctr sp f fuel st e = Some r -> stmt_prot st P = (oP, true) ->
  safe (a_trig r) /\ forall e', a_env r = Some e' -> exists P', oP = Some P' /\ Pinv P' e'.
Proof. exact analyze_prot. Qed.
Print Assumptions C02_protected_triggers_never.

(* a program whose dereferences are all protected has no flow from a nil source to a dereference ... *)
Theorem C02_guarded_no_flow : forall prog afuel ctr pk r,
  guarded prog = true -> analyze_program afuel ctr pk prog = Some r -> ~ has_flow (csys_of [] [] (all_triggers r)).
Proof. exact guarded_no_flow. Qed.
Print Assumptions C02_guarded_no_flow.

(* ... and yields zero diagnostics *)
Theorem C02_guarded_clean : forall prog afuel ctr pk r st,
  guarded prog = true -> analyze_program afuel ctr pk prog = Some r ->
  pkg_run [] [] (all_triggers r) st -> conflicts st = [].
Proof. exact guarded_clean. Qed.
Print Assumptions C02_guarded_clean.

(* a variable a statement does not assign stays protected across it (guards hoisted above loops) *)
Theorem C02_guard_survives : forall st P P' ok x,
  stmt_prot st P = (Some P', ok) -> pmem x P = true -> ~ In x (assigned st) -> pmem x P' = true.
Proof. exact prot_frame. Qed.
Print Assumptions C02_guard_survives.

(* non-vacuity: the example program of C01 is guarded (conjunction, negated disjunction with a dereference in the
   condition, loop condition) *)
Example C02_example : guarded ex_ok = true.
Proof. reflexivity. Qed.
