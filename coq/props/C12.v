(* C12 -- Package and file scope flags select exactly what they say (model M4a, config/config.go). *)
From Coq Require Import List Bool Arith String.
From NM Require Import Scope.
From NP Require Import ScopeProofs.
Import ListNotations.

Theorem C12_prefix : forall s p, has_prefix s p = true <-> exists t, s = p ++ t.
Proof. exact has_prefix_spec. Qed.
Print Assumptions C12_prefix.

(* analysed iff the import path starts with an include prefix and with no exclude prefix *)
Theorem C12_scope_iff : forall inc exc path,
  is_pkg_in_scope inc exc path = true <->
  (exists i, In i inc /\ has_prefix path i = true) /\ (forall e, In e exc -> has_prefix path e = false).
Proof. exact scope_iff. Qed.
Print Assumptions C12_scope_iff.

Theorem C12_exclude_wins : forall inc exc path e,
  In e exc -> has_prefix path e = true -> is_pkg_in_scope inc exc path = false.
Proof. exact exclude_wins. Qed.
Print Assumptions C12_exclude_wins.

(* an empty include list means everything *)
Theorem C12_empty_means_all : forall exc_flag path,
  in_scope_flags [] exc_flag path = negb (existsb (has_prefix path) (excludes_of_flag exc_flag)).
Proof. exact empty_include_means_all. Qed.
Print Assumptions C12_empty_means_all.

(* the prefix lists are exactly the comma-separated pieces of the flag *)
Theorem C12_flag_pieces : forall flag, join_comma (split_comma flag []) = flag.
Proof. exact split_join. Qed.
Print Assumptions C12_flag_pieces.

Theorem C12_file_scope : forall templ excluded present,
  is_file_in_scope templ excluded present = true <-> templ = true \/ (forall e, In e excluded -> ~ In e present).
Proof. exact file_scope_spec. Qed.
Print Assumptions C12_file_scope.

(* over the regenerated inventory of analysis.Analyzer values: every analyzer other than the flag holder, the
   top-level relays and the nolint reader starts its run with `if !conf.IsPkgInScope(pass.Pkg) { return }`, and the
   analyzers publishing inference, contract and affiliation facts are among them *)
From NG Require Import Inventory.
Theorem C12_out_of_scope_guards :
  forallb analyzer_ok analyzers_gen = true /\
  forallb (fun n => existsb (fun a => let '(name, facts, guarded) := a in String.eqb name n && facts && guarded) analyzers_gen)
    ["accumulation/analyzer.go:Analyzer"; "assertion/affiliation/analyzer.go:Analyzer";
     "assertion/function/functioncontracts/analyzer.go:Analyzer"]%string = true.
Proof. exact (conj analyzers_guarded fact_analyzers_guarded). Qed.
Print Assumptions C12_out_of_scope_guards.

(* over the regenerated inventory of loops over the package's files: each loop body starts by consulting
   IsFileInScope (named exceptions: file lookups by name, the experimental v2 collector, grouping, nolint) *)
Theorem C12_file_loops_guarded :
  forallb (fun a : string * bool => snd a || existsb (String.eqb (fst a)) file_loop_exempt) file_loops_gen = true.
Proof. exact file_loops_guarded. Qed.
Print Assumptions C12_file_loops_guarded.
