(* C15 -- Distinct sites never alias and a site has one identity everywhere (model M3). *)
From Coq Require Import List Bool Arith.
From NM Require Import Keys.
From NP Require Import KeysProofs.
Import ListNotations.

(* injectivity in the declaring package's own view.  Hypotheses (env_ok): the objects are the package's own and
   distinct objects have distinct positions; keys are built consistently with the program (parameter names and
   field objects are functions of (function, index[, field name])) *)
Theorem C15_injective : forall sig recv_name fld_of v objs k1 d1 k2 d2,
  local_view_ok v objs -> In (key_obj k1) objs -> In (key_obj k2) objs ->
  wf_key sig recv_name fld_of k1 -> wf_key sig recv_name fld_of k2 ->
  site_of v k1 d1 = site_of v k2 d2 -> k1 = k2 /\ d1 = d2.
Proof. exact site_injective_local. Qed.
Print Assumptions C15_injective.

(* keys with the same Object() and the same printed representation are the same key *)
Theorem C15_repr_injective : forall sig recv_name fld_of k1 k2,
  wf_key sig recv_name fld_of k1 -> wf_key sig recv_name fld_of k2 ->
  key_obj k1 = key_obj k2 -> key_repr k1 = key_repr k2 -> k1 = k2.
Proof. exact repr_injective. Qed.
Print Assumptions C15_repr_injective.

(* stability: a dependency's site mentioned in the dependency's facts gets the same identity while analysing any
   importer, however imprecisely the importer knows the dependency's source positions *)
Theorem C15_stable : forall home imp k d,
  o_pkg (key_obj k) = v_pkg home -> o_pkg (key_obj k) <> v_pkg imp -> published home imp (key_obj k) ->
  site_of imp k d = site_of home k d.
Proof. exact site_stable. Qed.
Print Assumptions C15_stable.

(* what happens otherwise: the importer's own belief about the position is used *)
Theorem C15_unpublished : forall imp k d,
  o_pkg (key_obj k) <> v_pkg imp ->
  (forall pa, o_path (key_obj k) = Some pa -> lookup_up (v_upstream imp) (o_pkg (key_obj k)) pa = None) ->
  s_pos (site_of imp k d) = v_pos imp (key_obj k).
Proof. exact site_unpublished. Qed.
Print Assumptions C15_unpublished.

Example C15_same_name_methods :
  key_repr (KRet mA 0) = key_repr (KRet mB 0) /\ site_of ex_view (KRet mA 0) false <> site_of ex_view (KRet mB 0) false.
Proof. exact same_name_methods_differ. Qed.
