(* C17 -- Driver-shared inputs are treated as read-only (partial: aliasing in the real heap is only sampled by the
   structural hash of the correspondence run; the theorem is about the modelled primitives). *)
From Coq Require Import List Bool Arith String.
From NM Require Import CfgHeap.
From NG Require Import Inventory.
From NP Require Import CfgHeapProofs OrderSites.
Import ListNotations.

(* Preprocessor.CFG = copyGraph, then any sequence of the rewriting writes (set Nodes / Succs / Live of a block of the
   graph at hand, append a fresh block): every cell that existed before the call -- in particular every block of the
   graph shared with other analyzers -- has the same content afterwards *)
Theorem C17_frame : forall h g ops, heap_ok h ->
  forall a, a < h_next h -> hlookup (cells (fst (preprocess h g ops))) a = hlookup (cells h) a.
Proof. exact preprocess_frame. Qed.
Print Assumptions C17_frame.

(* every assignment through a value of a driver-shared type (go/ast, go/token, go/types, go/cfg, go/ssa,
   go/analysis) found by the regenerated, go/types-based inventory is one of: a write to the copied graph, a write
   to an object the function allocated itself, or a write to a local struct copy *)
Theorem C17_writes_classified : forallb (classified write_classes) shared_writes_gen = true.
Proof. exact shared_writes_classified. Qed.
Print Assumptions C17_writes_classified.

Example C17_example :
  heap_ok ex_heap /\
  let '(h', g') := preprocess ex_heap [0; 1] [OSetNodes 0 [5]; OSetSuccs 1 [0]; OAppendBlock [] [] false; OSetLive 2 true] in
  hlookup (cells h') 0 = hlookup (cells ex_heap) 0 /\ hlookup (cells h') 1 = hlookup (cells ex_heap) 1 /\ g' = [2; 3; 4].
Proof. exact ex_preprocess. Qed.
