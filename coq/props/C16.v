(* C16 -- Parallel per-function analysis equals sequential analysis (partial: data races are a property of the Go
   memory model that no Gallina model of the collector can exhibit; they are searched for with the race detector). *)
From Coq Require Import List Bool Arith Permutation String.
From NM Require Import Pipeline.
From NG Require Import Inventory.
From NP Require Import PipelineProofs OrderSites.
Import ListNotations.

(* for EVERY completion order of the concurrently running analyses the collector of function.run yields exactly the
   result of analysing the functions one at a time, provided each analysis is a function of its index
   (`analyse`: the per-function analysis reads only package data that nobody writes -- see the inventories below) *)
Theorem C16_collect : forall (T : Type) n (analyse : nat -> list T) arrivals,
  Permutation (map fst arrivals) (seq 0 n) ->
  (forall i ts, In (i, ts) arrivals -> ts = analyse i) ->
  collect T n arrivals = sequential T n analyse.
Proof. exact collect_any_order. Qed.
Print Assumptions C16_collect.

(* the goroutines of the source tree are exactly the four known ones (two per concurrent analyzer) *)
Theorem C16_go_sites : go_sites_gen = expected_go_sites.
Proof. exact go_sites_expected. Qed.
Print Assumptions C16_go_sites.

(* every package-level variable is an analyzer descriptor or is only read after initialisation *)
Theorem C16_pkg_vars : forallb (classified var_classes) pkg_vars_gen = true.
Proof. exact pkg_vars_classified. Qed.
Print Assumptions C16_pkg_vars.

Example C16_example : collect nat 3 [(2, [5]); (0, [1; 2]); (1, [])] = sequential nat 3 (fun i => match i with 0 => [1; 2] | 1 => [] | _ => [5] end).
Proof. reflexivity. Qed.
