(* C08 -- The (value, error) convention is enforced at both ends.          PARTIAL: see the end of this header.
   Property theorems only (proved in proofs/FlowProofs.v, proofs/WholeProofs.v).  Objects (models M6/M7, error part):
     SReturn2 a e                return a, e   -- e: the literal nil, a fresh error, or an error variable
     SCall2 cs x xe f args       x, xe = f(args)  (either target may be blank)
     PGuard f cs xe / PChecked f cs / PUng f cs    the producers of result 0 of call cs of f: not yet checked (its error is
                                 in xe) / err == nil established / can never be checked (error overwritten or ignored).
                                 A use of an unchecked result is a use of nil ("lacking guarding", kind Always); uses
                                 are merged per (function, use): a checked and an unchecked result of the same function
                                 reaching one use count as unchecked (norm)
     analyze (SReturn2 a e)      the value result is a use at the function's result site only when the error is nil there
   Not in the model (hence partial): (value, ok) results, named results, `return f()` forwarding, error operands that
   are neither known nil nor known non-nil at the return (package-level sentinels: resolved by the engine from
   inferred verdicts), the always-safe deletion (modelled for the correspondence, excluded from the theorem by
   r_nodel = true). *)
From Coq Require Import List Bool Arith.
From NM Require Import Engine EngineSpec MiniGo Flow Guard Nonce RichFlow.
From NP Require Import EngineMain FlowProofs GuardProofs WholeProofs NonceProofs RichFlowProofs.
Import ListNotations.

(* a program using the convention that analyses clean never panics -- in particular not on a guarded result *)
Theorem C08_clean_means_panic_free : forall prog afuel ctr pk r st,
  analyze_program afuel ctr pk prog = Some r -> r_gsafe r = true -> r_clocal r = true -> r_nodel r = true ->
  wf_program prog = true -> ctr_arity ctr 0 (p_funcs prog) = true -> impls_plain prog ctr = true ->
  (forall g fd, ctr g = true -> nth_error (p_funcs prog) g = Some fd -> contract_true prog fd) ->
  pkg_run [] [] (all_triggers r) st -> conflicts st = [] ->
  forall fuel oracle, panic_of (run_program prog fuel oracle) = None.
Proof. exact whole_sound. Qed.
Print Assumptions C08_clean_means_panic_free.

(* caller end: dereferencing a result that is unchecked on some path is a flow, whatever the callee does *)
Theorem C08_unchecked_use_is_reported : forall ALLs t,
  In t ALLs -> s_ctrl t = None -> kind_of (s_prod t) = KAlways -> s_cons t = CAlways ->
  has_flow (csys_of [] [] (map etrig ALLs)).
Proof. exact unchecked_is_flow. Qed.
Print Assumptions C08_unchecked_use_is_reported.

(* callee end: with a nil error the returned value is a use at the result site (so `return nil, nil` makes the site
   nil-able and every checked use of the result a flow); with a non-nil error it is not *)
Theorem C08_return_triggers : forall ng ctr sp f fuel e a,
  (exists r, analyze ng ctr sp f fuel (SReturn2 a ANil) e = Some r /\
             a_trig r = map (fun p => mk_trigger 0 p (CSite (SResult f))) (uprods e a)) /\
  (exists r, analyze ng ctr sp f fuel (SReturn2 a ANew) e = Some r /\ a_trig r = []).
Proof. exact return2_triggers. Qed.
Print Assumptions C08_return_triggers.

(* both ends on concrete programs: checked use of a convention-respecting callee: clean; unchecked use: reported;
   checked use of a callee that returns (nil, nil): reported; error overwritten before the check: reported *)
Example C08_both_ends :
  nconf ex_err_checked = Some 0 /\ nconf ex_err_unchecked = Some 1 /\
  nconf ex_err_callee_bad = Some 1 /\ nconf ex_err_overwritten = Some 1.
Proof. exact err_convention_both_ends. Qed.

(* direct forwarding `return g(args)`: the callee's result site feeds the forwarder's (so a callee that returns
   (nil, nil) is reported through any chain of forwarders) and a forwarder is never "always safe" *)
Theorem C08_forwarding_triggers : forall ng ctr sp f fuel e cs g args,
  exists r, analyze ng ctr sp f fuel (SRetCall cs g args) e = Some r /\
            In (mk_trigger 0 (PSite (SResult g)) (CSite (SResult f))) (a_trig r) /\ a_rsafe r = false /\ a_env r = None.
Proof. exact retcall_triggers. Qed.
Print Assumptions C08_forwarding_triggers.

Example C08_forwarding :
  nconf ex_fwd_ok = Some 0 /\ nconf ex_fwd_bad = Some 1 /\
  panic_of (run_program ex_fwd_bad 20 [true]) = Some 1 /\
  (forall o, In o [[true]; [false]] -> panic_of (run_program ex_fwd_ok 20 o) = None).
Proof. exact err_forwarding. Qed.

(* non-vacuity of the soundness theorem, and the reported programs do panic *)
Example C08_example :
  exists r res, analyze_program 8 no_ctr one_pkg ex_err_checked = Some r /\ r_gsafe r = true /\ r_clocal r = true /\
    r_nodel r = true /\ wf_program ex_err_checked = true /\
    analyze_pkg all_exported 200 [] [] (all_triggers r) = Finished res /\ r_conflicts res = [].
Proof. exact err_checked_premises. Qed.
Example C08_reported_programs_panic :
  panic_of (run_program ex_err_unchecked 20 [true]) = Some 1 /\
  panic_of (run_program ex_err_callee_bad 20 [true]) = Some 1 /\
  panic_of (run_program ex_err_overwritten 20 [true]) = Some 1.
Proof. exact err_reported_programs_panic. Qed.

(* ---- the guard-nonce sets (model M11 = guard/guard.go, tied by a correspondence on random operation sequences) ----
   The guards of a consume trigger are a set of nonces; the fixpoint iteration compares them with Eq, joins intersect
   them.  Eq is extensional equality, so a trigger that LOST a guard at a join is a change the iteration sees. *)
Theorem C08_nonce_eq_is_set_equality : forall g o, ns_eq g o = true <-> (forall x, In x g <-> In x o).
Proof. exact eq_spec. Qed.
Print Assumptions C08_nonce_eq_is_set_equality.
Theorem C08_nonce_eq_detects_a_lost_guard : forall g n, In n g -> ns_eq (ns_remove g [n]) g = false.
Proof. exact eq_detects_loss. Qed.
Theorem C08_nonce_intersection : forall g os x, In x (ns_inter g os) <-> In x g /\ (forall o, In o os -> In x o).
Proof. exact inter_spec. Qed.
Theorem C08_nonce_union : forall os g x, In x (ns_union g os) <-> In x g \/ (exists o, In o os /\ In x o).
Proof. exact union_spec. Qed.
Theorem C08_nonce_subset : forall g o, ns_subset g o = true <-> (forall x, In x g -> In x o).
Proof. exact subset_spec. Qed.
Theorem C08_nonce_add_remove : forall ns g x,
  (In x (ns_add g ns) <-> In x ns \/ In x g) /\ (In x (ns_remove g ns) <-> In x g /\ ~ In x ns).
Proof. intros; split; [apply add_spec|apply remove_spec]. Qed.
Example C08_nonce_example :
  nrun [[]; []; []] [OAdd 0 [1; 2; 3]; OAdd 1 [2; 3; 4]; OInter 2 0 [1]; OEq 2 0; OSubset 2 0; ORemove 0 [1]; OEq 2 0; OContains 1 4]
  = ([[2; 3]; [2; 3; 4]; [2; 3]], [false; true; true; true]).
Proof. exact nonce_example. Qed.

(* ---- how far a check reaches (model M13 = weakPropagateRichChecks / genPreds / propagateRichChecks, tied by a
   correspondence on random control-flow graphs) ----
   `x, err := f()` creates an effect in its block; a later `err != nil` test can discharge the guard of x only where the
   effect still holds.  propagate computes, for every block, the effects that hold at its end; Lost g rt e b says e is lost
   at b: b does not create it and (no live predecessor of b is reachable from the creating block, or b invalidates it, or it
   is lost at a live predecessor reachable from the creating block).  The result is exactly the complement of Lost -- the
   GREATEST solution: an effect is dropped only if some path from its creation really invalidates it (third clause of C08;
   finding F26 was the least solution, which loses every effect at the header of an enclosing loop). *)
Theorem C08_rich_checks_reach_exactly_where_not_lost : forall g fuel s,
  wf_rcfg g = true -> propagate g fuel = Some s ->
  exists rt, reach_table g = Some rt /\
    forall b e, b < nblocks g -> In e (effects g) -> (In e (at_ s b) <-> ~ Lost g rt e b).
Proof. exact propagate_is_gfp. Qed.
Print Assumptions C08_rich_checks_reach_exactly_where_not_lost.
Example C08_rich_checks_nested_loops :
  propagate (ex_nested []) 50 = Some [[7]; [7]; [7]; [7]; [7]] /\ propagate (ex_nested [7]) 50 = Some [[]; []; [7]; []; []] /\
  wf_rcfg (ex_nested []) = true.
Proof. exact propagate_examples. Qed.
