(* C01 -- Clean means panic-free: every reachable nil dereference is reported.
   Property theorems only (proved in proofs/FlowProofs.v, proofs/WholeProofs.v).  Objects:
     prog                        a closed program of the core fragment (model M6, MiniGo): pointer locals, parameters,
                                 results, package-level variables, nil, allocations, loops, branches on opaque /
                                 nil-comparison / dereferencing conditions with ! && ||, direct calls (methods,
                                 switches, nested call arguments are spellings chosen by the correspondence's printer)
     run_program prog fuel oracle   its execution under the opaque answers `oracle` (out of fuel is not a panic)
     analyze_program .. prog = Some r   the triggers NilAway's function analysis emits for it (model M7), with
                                 r_gsafe: no package-level value tracked across a call that may re-assign it is used
                                 r_clocal: functions with a contract are only called from their own package
     pkg_run [] [] ts st / conflicts st   the inference engine (model M1) on those triggers and what it reports *)
From Coq Require Import List Bool Arith.
From NM Require Import Engine EngineSpec MiniGo Flow Guard.
From NP Require Import EngineMain FlowProofs GuardProofs WholeProofs.
Import ListNotations.

(* no reported conflict => no execution dereferences nil, whatever the opaque conditions answer *)
Theorem C01_clean_means_panic_free : forall prog afuel ctr pk r st,
  analyze_program afuel ctr pk prog = Some r -> r_gsafe r = true -> r_clocal r = true -> r_nodel r = true ->
  wf_program prog = true -> ctr_arity ctr 0 (p_funcs prog) = true -> impls_plain prog ctr = true ->
  (forall g fd, ctr g = true -> nth_error (p_funcs prog) g = Some fd -> contract_true prog fd) ->
  pkg_run [] [] (all_triggers r) st -> conflicts st = [] ->
  forall fuel oracle, panic_of (run_program prog fuel oracle) = None.
Proof. exact whole_sound. Qed.
Print Assumptions C01_clean_means_panic_free.

(* if some execution dereferences nil, at least one diagnostic is reported *)
Theorem C01_panic_is_reported : forall prog afuel ctr pk r st fuel oracle d,
  analyze_program afuel ctr pk prog = Some r -> r_gsafe r = true -> r_clocal r = true -> r_nodel r = true ->
  wf_program prog = true -> ctr_arity ctr 0 (p_funcs prog) = true -> impls_plain prog ctr = true ->
  (forall g fd, ctr g = true -> nth_error (p_funcs prog) g = Some fd -> contract_true prog fd) ->
  pkg_run [] [] (all_triggers r) st ->
  panic_of (run_program prog fuel oracle) = Some d -> conflicts st <> [].
Proof. exact whole_reported. Qed.
Print Assumptions C01_panic_is_reported.

(* the same at the level of the constraint system, independent of the engine's algorithm *)
Theorem C01_no_flow_means_panic_free : forall prog afuel ctr pk r,
  analyze_program afuel ctr pk prog = Some r -> r_gsafe r = true -> r_clocal r = true -> r_nodel r = true ->
  wf_program prog = true -> ctr_arity ctr 0 (p_funcs prog) = true -> impls_plain prog ctr = true ->
  (forall g fd, ctr g = true -> nth_error (p_funcs prog) g = Some fd -> contract_true prog fd) ->
  ~ has_flow (csys_of [] [] (all_triggers r)) ->
  forall fuel oracle, panic_of (run_program prog fuel oracle) = None.
Proof. exact flow_sound. Qed.
Print Assumptions C01_no_flow_means_panic_free.

(* "a diagnostic is reported at exactly that dereference": every sink of a reported flow is a dereference whose
   producers can fire; dereferences protected by a nil check have none (C02_protected_triggers_never), so when
   only dereference d is unprotected every reported flow ends at d *)
Theorem C01_lone_dereference : forall ts d,
  (forall t, In t ts -> t_cons t = KAlways -> t_prod t <> KNever -> t_id t = d) ->
  forall t a, In t ts -> In a (atoms_of_trigger t) ->
  match a with ASnk _ | ADirect _ => t_id t = d | _ => True end.
Proof. exact lone_sink. Qed.
Print Assumptions C01_lone_dereference.

(* the side conditions are needed: F2 (a callee re-assigns a tracked package-level variable) and F4 (a contracted
   callee of another package) are clean programs that panic *)
Theorem C01_refuted_without_call_safety :
  exists prog r st fuel oracle,
    analyze_program 8 no_ctr one_pkg prog = Some r /\ r_gsafe r = false /\ r_clocal r = true /\
    wf_program prog = true /\
    pkg_run [] [] (all_triggers r) st /\ conflicts st = [] /\
    panic_of (run_program prog fuel oracle) = Some 1.
Proof. exact refuted_without_call_safety. Qed.
Print Assumptions C01_refuted_without_call_safety.

Theorem C01_refuted_without_contract_locality :
  exists prog r st fuel oracle,
    analyze_program 8 ctr1 two_pkgs prog = Some r /\ r_gsafe r = true /\ r_clocal r = false /\
    wf_program prog = true /\ ctr_arity ctr1 0 (p_funcs prog) = true /\
    pkg_run [] [] (all_triggers r) st /\ conflicts st = [] /\
    panic_of (run_program prog fuel oracle) = Some 1.
Proof. exact refuted_without_contract_locality. Qed.
Print Assumptions C01_refuted_without_contract_locality.

(* non-vacuity: a program with calls, guards, a loop and a package-level variable meets every premise *)
Example C01_example :
  exists r res,
    analyze_program 8 no_ctr one_pkg ex_ok = Some r /\ r_gsafe r = true /\ r_clocal r = true /\ r_nodel r = true /\
    wf_program ex_ok = true /\ ctr_arity no_ctr 0 (p_funcs ex_ok) = true /\
    analyze_pkg all_exported 200 [] [] (all_triggers r) = Finished res /\ r_conflicts res = [] /\
    guarded ex_ok = true.
Proof. exact ex_ok_premises. Qed.
