(* C03 -- Modular analysis finds the same nil flows as whole-program analysis (engine level, model M1).
   Proved: the soundness half for every constraint graph (facts never invent a flow) and, from C04/C05, that the
   importer's result is a function of the set of facts it sees.  The completeness half (facts never lose a flow)
   is known to fail when a controlled trigger is left pending (finding F15) and is decided by the modular-vs-whole-
   graph oracle on the real engine and by the driver comparison on real programs. *)
From Coq Require Import List Bool Arith.
From NM Require Import Engine EngineSpec.
From NP Require Import EngineBasics EngineMain ExportProofs ModularProofs.
Import ListNotations.

(* every atom of a published fact is entailed by the publishing package's own constraint graph *)
Theorem C03_fact_is_sound_summary : forall exported facts annots ts up st f,
  pkg_run_up facts annots ts up st -> export exported up (mp st) = Some (Some f) ->
  forall a, In a (atoms_of_fact f) -> derivable (pkg_csys facts annots ts) a.
Proof. exact exported_fact_derivable. Qed.
Print Assumptions C03_fact_is_sound_summary.

(* a flow found by an importer from the fact (plus anything else it knows: D) is a flow of the whole graph *)
Theorem C03_modular_never_invents : forall exported facts annots ts up st f D,
  pkg_run_up facts annots ts up st -> export exported up (mp st) = Some (Some f) ->
  has_flow (CE (atoms_of_fact f) D) -> has_flow (CW (pkg_csys facts annots ts) D).
Proof. exact modular_sound. Qed.
Print Assumptions C03_modular_never_invents.

(* generic form: any summary made of entailed atoms is sound *)
Theorem C03_summary_sound : forall C1 E D,
  (forall a, In a E -> derivable C1 a) -> has_flow (CE E D) -> has_flow (CW C1 D).
Proof. exact summary_sound. Qed.
Print Assumptions C03_summary_sound.
