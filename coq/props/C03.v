(* C03 -- Modular analysis finds the same nil flows as whole-program analysis (engine level, model M1).
   Proved, for every constraint graph and every split of it into a publishing package and an importer:
   soundness (facts never invent a flow), completeness (facts never lose a flow between sites the importer can see)
   and equality of verdicts on those sites -- the last two under the side condition that no controlled trigger of the
   publishing package is left pending, whose necessity is finding F15 (C03_refuted_pending_controlled). *)
From Coq Require Import List Bool Arith.
From NM Require Import Engine EngineSpec.
From NP Require Import EngineBasics EngineStep EngineMain ExportProofs ModularProofs ModularComplete.
Import ListNotations.

(* every atom of a published fact is entailed by the publishing package's own constraint graph *)
Theorem C03_fact_is_sound_summary : forall exported facts annots ts up st f,
  pkg_run_up facts annots ts up st -> export exported up (mp st) = Some (Some f) ->
  forall a, In a (atoms_of_fact f) -> derivable (pkg_csys facts annots ts) a.
Proof. exact exported_fact_derivable. Qed.
Print Assumptions C03_fact_is_sound_summary.

(* a flow found by an importer from the fact (plus anything else it knows: D) is a flow of the whole graph *)
Theorem C03_modular_never_invents : forall exported facts annots ts up st f D,
  pkg_run_up facts annots ts up st -> export exported up (mp st) = Some (Some f) ->
  has_flow (CE (atoms_of_fact f) D) -> has_flow (CW (pkg_csys facts annots ts) D).
Proof. exact modular_sound. Qed.
Print Assumptions C03_modular_never_invents.

(* generic form: any summary made of entailed atoms is sound *)
Theorem C03_summary_sound : forall C1 E D,
  (forall a, In a E -> derivable C1 a) -> has_flow (CE E D) -> has_flow (CW C1 D).
Proof. exact summary_sound. Qed.
Print Assumptions C03_summary_sound.

(* ---- completeness: modular analysis never loses a flow ----
   Package P ran on (facts, annots, ts) without conflict, published fo on top of the upstream snapshot up.
   The importer adds annD / tsD, which mention P's sites only through exported symbols (vis), and is given the facts
   of P's dependencies plus fo.  One engine observing everything reports a conflict iff the importer's engine does. *)
Theorem C03_modular_equals_whole : forall exported facts annots ts up st fo annD tsD n,
  pkg_run_up facts annots ts up st -> export exported up (mp st) = Some fo -> conflicts st = [] ->
  (forall s, In s (sites_of (csys_of [] annD tsD)) -> vis exported st s) ->
  (forall k a, In (k, a) (ctld (pkg_csys facts annots ts)) -> dv st k <> None) ->
  forall stW stI,
  pkg_run facts (annots ++ annD) (ts ++ tsD) stW ->
  pkg_run (facts ++ opt_fact n fo) annD tsD stI ->
  (conflicts stW <> [] <-> conflicts stI <> []).
Proof. exact modular_equals_whole. Qed.
Print Assumptions C03_modular_equals_whole.

(* ... and when there is no conflict, both give every site the importer can see the same verdict *)
Theorem C03_modular_verdicts_equal : forall exported facts annots ts up st fo annD tsD n,
  pkg_run_up facts annots ts up st -> export exported up (mp st) = Some fo -> conflicts st = [] ->
  (forall s, In s (sites_of (csys_of [] annD tsD)) -> vis exported st s) ->
  (forall k a, In (k, a) (ctld (pkg_csys facts annots ts)) -> dv st k <> None) ->
  forall stW stI,
  pkg_run facts (annots ++ annD) (ts ++ tsD) stW ->
  pkg_run (facts ++ opt_fact n fo) annD tsD stI ->
  conflicts stI = [] ->
  forall s, vis exported st s -> dv stW s = dv stI s.
Proof. exact modular_verdicts_equal. Qed.
Print Assumptions C03_modular_verdicts_equal.

(* at the level of constraint systems, for an arbitrary importer-side system D (further facts included) *)
Theorem C03_modular_never_loses : forall exported facts annots ts up st fo D,
  pkg_run_up facts annots ts up st -> export exported up (mp st) = Some fo -> conflicts st = [] ->
  (forall s, In s (sites_of D) -> vis exported st s) ->
  (forall k a, In (k, a) (ctld (pkg_csys facts annots ts)) -> dv st k <> None) ->
  has_flow (CWh facts annots ts D) -> has_flow (CEx facts fo D).
Proof. exact modular_complete. Qed.
Print Assumptions C03_modular_never_loses.

(* non-vacuity: a flow exported -> unexported -> unexported -> exported is found both ways, with every hypothesis met *)
Example C03_modular_example : exists up st fo stW stI,
  pkg_run_up [] [] exA_ts up st /\ export exA_exported up (mp st) = Some fo /\ conflicts st = [] /\
  (forall s, In s (sites_of (csys_of [] [] exA_tsD)) -> vis exA_exported st s) /\
  (forall k a, In (k, a) (ctld (pkg_csys [] [] exA_ts)) -> dv st k <> None) /\
  pkg_run [] ([] ++ []) (exA_ts ++ exA_tsD) stW /\ pkg_run ([] ++ opt_fact 0 fo) [] exA_tsD stI /\
  conflicts stW <> [] /\ conflicts stI <> [] /\
  (exists f, fo = Some f /\ lookup f 2 <> None /\ lookup f 3 <> None).
Proof. exact exA_holds. Qed.

(* the side condition is necessary (finding F15): with a pending controlled trigger the whole graph has a conflict
   the importer does not find, all other hypotheses holding *)
Theorem C03_refuted_pending_controlled : exists up st fo stW stI,
  pkg_run_up [] [] exB_ts up st /\ export exB_exported up (mp st) = Some fo /\ conflicts st = [] /\
  (forall s, In s (sites_of (csys_of [] [] exB_tsD)) -> vis exB_exported st s) /\
  pkg_run [] ([] ++ []) (exB_ts ++ exB_tsD) stW /\ pkg_run ([] ++ opt_fact 0 fo) [] exB_tsD stI /\
  conflicts stW <> [] /\ conflicts stI = [] /\
  (exists k a, In (k, a) (ctld (pkg_csys [] [] exB_ts)) /\ dv st k = None).
Proof. exact exB_refutes. Qed.
Print Assumptions C03_refuted_pending_controlled.

(* ... and along a CHAIN of any number of packages, each analysed with the facts its predecessors published (all but the last
   conflict-free, the side conditions of the one-step theorem at every link): one engine observing the union of all the
   packages reports a conflict iff the modular run of the LAST package does *)
From NP Require Import ModularChain.
Theorem C03_chain_equals_whole : forall exported facts pkgs stI,
  modular exported facts pkgs stI ->
  forall stW, pkg_run facts (m_ann pkgs) (m_ts pkgs) stW ->
  (conflicts stW <> nil <-> conflicts stI <> nil).
Proof. exact chain_equals_whole. Qed.
Print Assumptions C03_chain_equals_whole.

(* non-vacuity: three packages, no flow inside any of them, one flow through all three *)
Example C03_chain_example : exists stI stW,
  modular exC_exported nil (cons exC_p1 (cons exC_p2 (cons exC_p3 nil))) stI /\
  pkg_run nil (m_ann (cons exC_p1 (cons exC_p2 (cons exC_p3 nil)))) (m_ts (cons exC_p1 (cons exC_p2 (cons exC_p3 nil)))) stW /\
  conflicts stI <> nil /\ conflicts stW <> nil.
Proof. exact exC_chain. Qed.

(* ... and when the last run is conflict-free, both give the same verdict to every site of a set V that is visible (exported,
   or unknown to the package) at every link of the chain *)
Theorem C03_chain_verdicts_equal : forall exported V facts pkgs stI,
  modularV exported V facts pkgs stI ->
  forall stW, pkg_run facts (m_ann pkgs) (m_ts pkgs) stW ->
  conflicts stI = nil ->
  forall s, V s -> dv stW s = dv stI s.
Proof. exact chain_verdicts_equal. Qed.
Print Assumptions C03_chain_verdicts_equal.

(* "Moving functions into a dependency or an importer neither loses nor invents a flow": two partitions of the same program
   into chains of packages (the unions of their annotations and triggers are permutations of each other), each meeting the
   side conditions of the chain theorem, end in modular runs that agree on whether there is a conflict ... *)
From Coq Require Import Permutation.
From NP Require Import EngineTerm.
Theorem C03_moving_functions_keeps_flows : forall exported facts pkgs pkgs' stI stI',
  modular exported facts pkgs stI -> modular exported facts pkgs' stI' ->
  Permutation (m_ann pkgs) (m_ann pkgs') -> Permutation (m_ts pkgs) (m_ts pkgs') ->
  wf_triggers (m_ts pkgs) -> wf_triggers (m_ts pkgs') ->
  (conflicts stI <> nil <-> conflicts stI' <> nil).
Proof. exact chain_repartition. Qed.
Print Assumptions C03_moving_functions_keeps_flows.

(* ... and, when neither has one, on the verdict of every site visible at every link of both *)
Theorem C03_moving_functions_keeps_verdicts : forall exported V facts pkgs pkgs' stI stI',
  modularV exported V facts pkgs stI -> modularV exported V facts pkgs' stI' ->
  Permutation (m_ann pkgs) (m_ann pkgs') -> Permutation (m_ts pkgs) (m_ts pkgs') ->
  wf_triggers (m_ts pkgs) -> wf_triggers (m_ts pkgs') ->
  conflicts stI = nil -> conflicts stI' = nil ->
  forall s, V s -> dv stI s = dv stI' s.
Proof. exact chain_repartition_verdicts. Qed.
Print Assumptions C03_moving_functions_keeps_verdicts.

(* non-vacuity: the three-package chain of C03_chain_example and the two-package chain obtained by moving every function of
   its second package into the first meet every hypothesis, and both end in a conflict *)
Example C03_moving_functions_example :
  (exists stI, modular exC_exported nil (cons exC_p12 (cons exC_p3 nil)) stI /\ conflicts stI <> nil) /\
  Permutation (m_ann (cons exC_p1 (cons exC_p2 (cons exC_p3 nil)))) (m_ann (cons exC_p12 (cons exC_p3 nil))) /\
  Permutation (m_ts (cons exC_p1 (cons exC_p2 (cons exC_p3 nil)))) (m_ts (cons exC_p12 (cons exC_p3 nil))) /\
  wf_triggers (m_ts (cons exC_p1 (cons exC_p2 (cons exC_p3 nil)))) /\ wf_triggers (m_ts (cons exC_p12 (cons exC_p3 nil))).
Proof. split; [exact exC_chain2|exact exC_repartition_hyps]. Qed.
