(* C18 -- Results do not depend on where the module lives or where the tool starts (model M4b). Partial: the
   theorems are about names (site identities, fact positions, printed names); drivers that give every package its
   own working directory (go vet, finding F12) are outside the model and covered by whole-tool runs only. *)
From Coq Require Import List Bool Arith.
From NM Require Import Paths.
From NP Require Import PathsProofs.
Import ListNotations.

(* moving the module (root r -> r') while keeping the relative position of the working directory (c) leaves every
   relativised file name -- hence every site identity and every position stored in facts -- unchanged *)
Theorem C18_relocate : forall r r' c p, rel (r ++ c) (r ++ p) = rel (r' ++ c) (r' ++ p).
Proof. exact rel_relocate. Qed.
Print Assumptions C18_relocate.

Theorem C18_from_root : forall r p, rel r (r ++ p) = map Seg p.
Proof. exact rel_from_root. Qed.
Print Assumptions C18_from_root.

Theorem C18_from_ancestor : forall a m p, rel a (a ++ m ++ p) = map Seg (m ++ p).
Proof. exact rel_from_ancestor. Qed.
Print Assumptions C18_from_ancestor.

(* changing only the working directory renames files injectively: two names are equal under one working
   directory iff they are equal under any other, so every comparison of site identities has the same outcome *)
Theorem C18_cwd_independent : forall c1 c2 t1 t2, rel c1 t1 = rel c1 t2 <-> rel c2 t1 = rel c2 t2.
Proof. exact rel_cwd_independent. Qed.
Print Assumptions C18_cwd_independent.

Theorem C18_rel_injective : forall cwd t1 t2, rel cwd t1 = rel cwd t2 -> t1 = t2.
Proof. exact rel_injective. Qed.
Print Assumptions C18_rel_injective.

(* the truncated names printed in messages depend only on the trailing segments *)
Theorem C18_printed_names : forall (r r' p : list nat) occ, occ + 1 <= length p ->
  portion_after_sep (r ++ p) occ = portion_after_sep (r' ++ p) occ.
Proof. exact (@portion_relocate nat). Qed.
Print Assumptions C18_printed_names.

(* the key by which diagnostics are ordered before grouping (tokenhelper.AbsFromCwd of the cwd-relative name, finding F107)
   is the absolute name of the file: the same from every working directory; and the order of two files of one module does
   not depend on where the module lives *)
Theorem C18_sort_key_round_trip : forall cwd t, join_clean cwd (rel cwd t) = t.
Proof. exact abs_of_rel. Qed.
Print Assumptions C18_sort_key_round_trip.

Theorem C18_sort_key_cwd_independent : forall c1 c2 t,
  abs_from_cwd c1 (rel_to_cwd c1 (Abs t)) = abs_from_cwd c2 (rel_to_cwd c2 (Abs t)).
Proof. exact sort_key_cwd_independent. Qed.
Print Assumptions C18_sort_key_cwd_independent.

Theorem C18_order_relocates : forall r p q, lex_leb (r ++ p) (r ++ q) = lex_leb p q.
Proof. exact lex_relocate. Qed.
Print Assumptions C18_order_relocates.
