(* C11 -- A nolint comment suppresses exactly the diagnostics on its own lines (model M2). *)
From Coq Require Import List Bool Arith Permutation.
From NM Require Import Diag.
From NP Require Import DiagProofs.
Import ListNotations.

(* for both values of the grouping flag: a conflict is shown (as a diagnostic position or in exactly one
   "other place(s)" list) if and only if it is not on a suppressed line -- suppression never hides, duplicates
   or invents anything located elsewhere *)
Theorem C11_exact : forall grouping rs et cs,
  Permutation (flat_map members (diagnostics grouping rs et cs))
              (filter (fun c => negb (suppressed rs et c)) cs).
Proof. exact diagnostics_exact. Qed.
Print Assumptions C11_exact.

Theorem C11_membership : forall grouping rs et cs c,
  In c (flat_map members (diagnostics grouping rs et cs)) <-> (In c cs /\ suppressed rs et c = false).
Proof. exact nolint_exact. Qed.
Print Assumptions C11_membership.

(* the finding F5 scenario on the repaired order (filter, then group): nolint on the first of three dereferences
   of one nil source leaves the other two reported *)
Example C11_first_of_group_suppressed :
  map (fun d => (c_id (d_head d), map c_id (d_similar d)))
      (diagnostics true [{| r_file := 1; r_from := 10; r_to := 10 |}] false ex_cs) = [(2, [3])].
Proof. exact ex_nolint_first. Qed.
