(* C11 -- A nolint comment suppresses exactly the diagnostics on its own lines (model M2). *)
From Coq Require Import List Bool Arith Permutation.
From NM Require Import Diag Nolint.
From NP Require Import DiagProofs NolintProofs.
Import ListNotations.

(* for both values of the grouping flag: a conflict is shown (as a diagnostic position or in exactly one
   "other place(s)" list) if and only if it is not on a suppressed line -- suppression never hides, duplicates
   or invents anything located elsewhere *)
Theorem C11_exact : forall grouping rs et cs,
  Permutation (flat_map members (diagnostics grouping rs et cs))
              (filter (fun c => negb (suppressed rs et c)) cs).
Proof. exact diagnostics_exact. Qed.
Print Assumptions C11_exact.

Theorem C11_membership : forall grouping rs et cs c,
  In c (flat_map members (diagnostics grouping rs et cs)) <-> (In c cs /\ suppressed rs et c = false).
Proof. exact nolint_exact. Qed.
Print Assumptions C11_membership.

(* the finding F5 scenario on the repaired order (filter, then group): nolint on the first of three dereferences
   of one nil source leaves the other two reported *)
Example C11_first_of_group_suppressed :
  map (fun d => (c_id (d_head d), map c_id (d_similar d)))
      (diagnostics true [{| r_file := 1; r_from := 10; r_to := 10 |}] false ex_cs) = [(2, [3])].
Proof. exact ex_nolint_first. Qed.

(* ---- what counts as a nolint comment (model M12 = nolintContainsNilAway, tied by a correspondence on comment texts) ----
   A structured directive -- leading slashes and spaces, the word nolint, optionally a colon and a comma-separated linter
   list with arbitrary spaces around the items, optionally an explanation after " //" -- suppresses exactly if it has no
   linter list or the list names `nilaway` or `all` in any letter case; text that does not start with the WORD nolint
   never does. *)
Theorem C11_directive_text_decides : forall d, wf d = true -> nolint_contains (print d) = decide d.
Proof. exact nolint_print_decide. Qed.
Print Assumptions C11_directive_text_decides.
Theorem C11_not_a_directive : forall text,
  has_prefix s_nolint (trim_left [c_slash; c_space] text) = false -> nolint_contains text = false.
Proof. exact not_a_directive. Qed.
Theorem C11_directive_is_a_word : forall text c r,
  skipn 6 (trim_left [c_slash; c_space] text) = c :: r -> mem c [c_colon; c_space; c_tab] = false ->
  nolint_contains text = false.
Proof. exact word_boundary. Qed.
