(* C13 -- Grouping never loses or alters a finding (model M2).  The pretty-printing half of C13 is decided by
   the correspondence/oracle run only (known finding F9), see DESIGN.md. *)
From Coq Require Import List Bool Arith Permutation.
From NM Require Import Diag.
From NP Require Import DiagProofs.
Import ListNotations.

(* with grouping on, the conflicts shown are exactly those shown with grouping off: each appears once, either
   as a diagnostic or in one "other place(s)" list; nothing new appears *)
Theorem C13_partition : forall rs et cs,
  Permutation (flat_map members (diagnostics true rs et cs)) (map d_head (diagnostics false rs et cs)).
Proof. exact grouping_loses_nothing. Qed.
Print Assumptions C13_partition.

(* the stated count equals the length of the list *)
Theorem C13_count : forall d, shown_count d = length (shown_places d).
Proof. exact count_matches_list. Qed.
Print Assumptions C13_count.

(* every conflict listed under a diagnostic has that diagnostic's nil source (equal group key), and two
   diagnostics never have the same one *)
Theorem C13_same_source : forall rs et cs,
  Forall group_ok (diagnostics true rs et cs) /\ heads_distinct (diagnostics true rs et cs).
Proof. exact diagnostics_groups. Qed.
Print Assumptions C13_same_source.

(* the boolean key comparison used by the model decides equality of keys *)
Theorem C13_key_eq : forall a b, gkey_eqb a b = true <-> a = b.
Proof. exact gkey_eqb_eq. Qed.
Print Assumptions C13_key_eq.
