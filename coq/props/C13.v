(* C13 -- Grouping never loses or alters a finding (model M2); pretty printing (model M15) at the end of the file.  Formerly decided by
   the correspondence/oracle run only (known finding F9), see DESIGN.md. *)
From Coq Require Import List Bool Arith Permutation.
From NM Require Import Diag.
From NP Require Import DiagProofs.
Import ListNotations.

(* with grouping on, the conflicts shown are exactly those shown with grouping off: each appears once, either
   as a diagnostic or in one "other place(s)" list; nothing new appears *)
Theorem C13_partition : forall rs et cs,
  Permutation (flat_map members (diagnostics true rs et cs)) (map d_head (diagnostics false rs et cs)).
Proof. exact grouping_loses_nothing. Qed.
Print Assumptions C13_partition.

(* the stated count equals the length of the list *)
Theorem C13_count : forall d, shown_count d = length (shown_places d).
Proof. exact count_matches_list. Qed.
Print Assumptions C13_count.

(* every conflict listed under a diagnostic has that diagnostic's nil source (equal group key), and two
   diagnostics never have the same one *)
Theorem C13_same_source : forall rs et cs,
  Forall group_ok (diagnostics true rs et cs) /\ heads_distinct (diagnostics true rs et cs).
Proof. exact diagnostics_groups. Qed.
Print Assumptions C13_same_source.

(* the boolean key comparison used by the model decides equality of keys *)
Theorem C13_key_eq : forall a b, gkey_eqb a b = true <-> a = b.
Proof. exact gkey_eqb_eq. Qed.
Print Assumptions C13_key_eq.

(* ---- the key separates what the printed positions cannot (repairs of F56, F57; the key components are fed to the real
   engine by the hook and compared on every run) ---- *)
Theorem C13_same_key_same_sites : forall c c', c_nil c <> [] -> group_key c = group_key c' ->
  map (fun n => pos_key (n_site n)) (c_nil c) = map (fun n => pos_key (n_site n)) (c_nil c').
Proof. exact same_key_same_sites. Qed.
Theorem C13_same_key_same_source : forall c c' p p', c_nil c = [] -> c_nonnil c = [p] -> pos_key (n_ppos p) = None ->
  c_nil c' = [] -> c_nonnil c' = [p'] -> group_key c = group_key c' -> pos_key (c_src c) = pos_key (c_src c').
Proof. exact same_key_same_source. Qed.
Example C13_lookalike_files_not_grouped :
  let n f := {| n_ppos := mkpos 2 3; n_cpos := mkpos 2 3; n_prepr := 7; n_crepr := 8; n_site := mkpos f 3 |} in
  let c i f l := {| c_id := i; c_pos := mkpos 1 l; c_nil := [n f]; c_nonnil := [use_node l]; c_func := None; c_test := false; c_src := nopos |} in
  gkey_eqb (group_key (c 1 2 10)) (group_key (c 2 3 11)) = false /\ gkey_eqb (group_key (c 1 2 10)) (group_key (c 3 2 12)) = true.
Proof. exact lookalike_files_not_grouped. Qed.

(* Pretty-printing only inserts colour escape sequences and an `error: ` prefix: stripping them gives back the plain message
   (model M15, for every message that contains no ESC byte itself; tied to PrettyPrintErrorMessage by evaluating `pretty`
   inside Coq on the messages the real function renders) *)
From Coq Require Import NArith.
From NM Require Import Pretty.
From NP Require Import PrettyProofs.
Theorem C13_pretty_strip : forall m, escfree m -> strip SNormal (pretty m) = (error_prefix ++ m)%list.
Proof. exact pretty_strip. Qed.
Print Assumptions C13_pretty_strip.

(* the delimiter passes are invisible to the remover on EVERY byte string and from every state of the remover *)
Theorem C13_delimiter_pass_invisible : forall d co cc, safe d -> forallb is_param co = true -> forallb is_param cc = true ->
  forall l s, strip s (dpass d (esc co) (esc cc) Outside l) = strip s l.
Proof. intros d co cc Hd Hco Hcc l s. exact (proj1 (dpass_invisible d co cc Hd Hco Hcc l) s). Qed.
Print Assumptions C13_delimiter_pass_invisible.

(* non-vacuity: "(found NILABLE) x" is ESC-free and all of it is wrapped *)
Example C13_pretty_example :
  nil_pass (cons 40 (cons 102 (cons 111 (cons 117 (cons 110 (cons 100 (cons 32 (cons 78 (cons 73 (cons 76 (cons 65 (cons 66 (cons 76 (cons 69 (cons 41 (cons 32 (cons 120 nil)))))))))))))))))%N
  = (esc (cons 49 nil) ++ (cons 40 (cons 102 (cons 111 (cons 117 (cons 110 (cons 100 (cons 32 (cons 78 (cons 73 (cons 76 (cons 65 (cons 66 (cons 76 (cons 69 (cons 41 nil))))))))))))))) ++ esc (cons 48 nil) ++ (cons 32 (cons 120 nil)))%list%N.
Proof. vm_compute. reflexivity. Qed.
