(* C10 -- Explicit nilable/nonnil annotations are binding (engine level, model M1). *)
From Coq Require Import List Bool Arith.
From NM Require Import Engine EngineSpec.
From NP Require Import EngineBasics EngineStep EngineMain EngineTerm AnnotProofs.
Import ListNotations.

(* inference never overrides or drops an annotation: an annotated site of the package ends with exactly the
   annotated verdict, explained by the annotation itself, whatever triggers and imported facts say.
   Hypotheses: one annotation per site; annotated sites are the package's own (no dependency fact mentions them) *)
Theorem C10_annotation_wins : forall facts annots ts st,
  pkg_run facts annots ts st -> NoDup (map fst annots) ->
  (forall s, In s (map fst annots) -> ~ In s (fact_sites facts)) ->
  forall s b, In (s, b) annots -> det_l (mp st) s = Some (EAnnot b s).
Proof. exact annotation_wins. Qed.
Print Assumptions C10_annotation_wins.

(* nil flowing into a nonnil-annotated site is reported *)
Theorem C10_nonnil_reported : forall facts annots ts st s,
  pkg_run facts annots ts st -> In (s, false) annots -> nilr (pkg_csys facts annots ts) s -> conflicts st <> [].
Proof. exact annotated_nonnil_reported. Qed.
Print Assumptions C10_nonnil_reported.

(* an unguarded use (a path to a non-nil requirement) of a nilable-annotated site is reported *)
Theorem C10_nilable_reported : forall facts annots ts st s,
  pkg_run facts annots ts st -> In (s, true) annots -> nonr (pkg_csys facts annots ts) s -> conflicts st <> [].
Proof. exact annotated_nilable_reported. Qed.
Print Assumptions C10_nilable_reported.

(* annotating a site nilable adds no diagnostic when no path leads from it to a non-nil requirement (all its
   dereferences are guarded).  Partial: stated for packages without contract-controlled triggers; with them the
   annotation of a call-site argument legitimately activates the callee's nil-returning paths (finding F14). *)
Theorem C10_nilable_guarded_silent_partial : forall facts annots ts st st' s,
  pkg_run facts annots ts st -> pkg_run facts ((s, true) :: annots) ts st' ->
  conflicts st = [] -> ~ nonr (pkg_csys facts ((s, true) :: annots) ts) s ->
  (forall k a, In (k, a) (ctld (pkg_csys facts annots ts)) -> False) ->
  conflicts st' = [].
Proof. exact nilable_annotation_silent. Qed.
Print Assumptions C10_nilable_guarded_silent_partial.

(* non-vacuity: the running example has an annotation on its own site 6 and satisfies the hypotheses *)
Example C10_example : NoDup (map fst ex_annots) /\ (forall s, In s (map fst ex_annots) -> ~ In s (fact_sites ex_facts)).
Proof.
  split; [repeat constructor; auto|].
  intros s [<-|[]]. cbn. intros H. repeat (destruct H as [H|H]; [discriminate|]). destruct H.
Qed.
