(* C05 -- A conflict is reported iff a nil source reaches a non-nil sink, in any order.
   Property theorems only (proved in proofs/Engine*.v).  Objects:
     pkg_run facts annots ts st   the engine (model M1, transcription of inference/engine.go) observed the
                                  imported facts, then the annotations, then the package's triggers, ending in st
     pkg_csys facts annots ts     the same input read as a constraint system (sources, sinks, edges, guarded atoms)
     nilr / nonr / has_flow       reachability over the ACTIVE constraints, defined independently of the engine *)
From Coq Require Import List Bool Arith Permutation.
From NM Require Import Engine EngineSpec.
From NP Require Import EngineBasics EngineStep EngineSound EngineComplete EngineMain EngineOrder EngineTerm EngineTwoPass.
Import ListNotations.

(* at least one conflict is reported if and only if some definite nil source reaches some definite
   non-nil requirement through the (active) constraint graph *)
Theorem C05_conflict_iff_flow : forall facts annots ts st,
  pkg_run facts annots ts st -> (conflicts st <> [] <-> has_flow (pkg_csys facts annots ts)).
Proof. exact engine_conflict_iff_flow. Qed.
Print Assumptions C05_conflict_iff_flow.

(* every reported conflict's explanation is a real path of observed, active constraints from a source
   to a sink: both explanations are chains of edges of the system ending at the same site *)
Theorem C05_explanations_are_paths : forall facts annots ts st,
  pkg_run facts annots ts st ->
  forall c, In c (conflicts st) -> conflict_ok (pkg_csys facts annots ts) c.
Proof. exact engine_sound. Qed.
Print Assumptions C05_explanations_are_paths.

(* when no such path exists, each site ends nilable exactly if a source reaches it and non-nil exactly
   if it reaches a sink *)
Theorem C05_verdicts : forall facts annots ts st,
  pkg_run facts annots ts st -> ~ has_flow (pkg_csys facts annots ts) ->
  forall s, (dv st s = Some true <-> nilr (pkg_csys facts annots ts) s) /\
            (dv st s = Some false <-> nonr (pkg_csys facts annots ts) s).
Proof. exact engine_verdicts. Qed.
Print Assumptions C05_verdicts.

(* none of this depends on the order in which facts, annotations and triggers are observed *)
Theorem C05_order_independent : forall facts facts' annots annots' ts ts' st st',
  Permutation facts facts' -> Permutation annots annots' -> Permutation ts ts' ->
  pkg_run facts annots ts st -> pkg_run facts' annots' ts' st' ->
  (conflicts st <> [] <-> conflicts st' <> []) /\
  (conflicts st = [] -> forall s, dv st s = dv st' s).
Proof. exact engine_order_independent. Qed.
Print Assumptions C05_order_independent.

(* the executable function that the correspondence suite runs against the real engine is such a run *)
Theorem C05_executable_is_a_run : forall exported fuel facts annots ts r,
  analyze_pkg exported fuel facts annots ts = Finished r \/ analyze_pkg exported fuel facts annots ts = Panicked r ->
  exists st, pkg_run facts annots ts st /\ r_conflicts r = conflicts st /\ r_map r = mp st.
Proof. exact analyze_pkg_run. Qed.
Print Assumptions C05_executable_is_a_run.

(* the engine terminates on every well-formed input (no controlled trigger feeds a controlling site) *)
Theorem C05_terminates : forall facts annots ts,
  wf_triggers ts -> exists st, pkg_run facts annots ts st.
Proof. exact engine_terminates. Qed.
Print Assumptions C05_terminates.

(* non-vacuity: a concrete input with an imported edge, an annotation, a controlled trigger and a
   planted source-to-sink path runs to completion and reports the flow *)
Example C05_example : exists st, pkg_run ex_facts ex_annots ex_ts st /\ conflicts st <> [] /\ wf_triggers ex_ts.
Proof. exact ex_runs. Qed.

(* ObservePackage observes a package's triggers in TWO batches (everything but the error-return dependent triggers, then
   those); pkg_run2 is such a run, with the table of controlled triggers accumulating over the batches.  The statement
   of C05 holds for it with respect to the whole trigger set, and it is as good as a single pass. *)
Theorem C05_two_batches_conflict_iff_flow : forall facts annots ts1 ts2 st,
  pkg_run2 facts annots ts1 ts2 st -> (conflicts st <> [] <-> has_flow (pkg_csys facts annots (ts1 ++ ts2))).
Proof. exact two_pass_conflict_iff_flow. Qed.
Print Assumptions C05_two_batches_conflict_iff_flow.

Theorem C05_two_batches_equal_one_pass : forall facts annots ts1 ts2 st st',
  pkg_run facts annots (ts1 ++ ts2) st -> pkg_run2 facts annots ts1 ts2 st' ->
  (conflicts st <> [] <-> conflicts st' <> []) /\ (conflicts st' = [] -> forall s, dv st s = dv st' s).
Proof. exact two_pass_equals_one_pass. Qed.
Print Assumptions C05_two_batches_equal_one_pass.

(* ... which is false when the second batch REPLACES the table (the code before the repair of finding F28): batch 1 has
   nil -> site 1 guarded by site 3 and a dereference of site 1, batch 2 makes site 3 nilable: the trigger set has a flow,
   the run with the table reset reports nothing, the run with the accumulated table reports it *)
Theorem C05_refuted_table_reset :
  has_flow (pkg_csys [] [] (f28_ts1 ++ f28_ts2)) /\
  (exists st, observe_package2_reset 100 init_state f28_ts1 f28_ts2 = Some st /\ conflicts st = []) /\
  (exists st, observe_package2 100 init_state f28_ts1 f28_ts2 = Some st /\ conflicts st <> []).
Proof. exact f28_refutes_reset. Qed.
Print Assumptions C05_refuted_table_reset.
