(* C05 -- A conflict is reported iff a nil source reaches a non-nil sink, in any order.
   Property theorems only (proved in proofs/Engine*.v).  Objects:
     pkg_run facts annots ts st   the engine (model M1, transcription of inference/engine.go) observed the
                                  imported facts, then the annotations, then the package's triggers, ending in st
     pkg_csys facts annots ts     the same input read as a constraint system (sources, sinks, edges, guarded atoms)
     nilr / nonr / has_flow       reachability over the ACTIVE constraints, defined independently of the engine *)
From Coq Require Import List Bool Arith Permutation.
From NM Require Import Engine EngineSpec.
From NP Require Import EngineBasics EngineStep EngineSound EngineComplete EngineMain EngineOrder EngineTerm.
Import ListNotations.

(* at least one conflict is reported if and only if some definite nil source reaches some definite
   non-nil requirement through the (active) constraint graph *)
Theorem C05_conflict_iff_flow : forall facts annots ts st,
  pkg_run facts annots ts st -> (conflicts st <> [] <-> has_flow (pkg_csys facts annots ts)).
Proof. exact engine_conflict_iff_flow. Qed.
Print Assumptions C05_conflict_iff_flow.

(* every reported conflict's explanation is a real path of observed, active constraints from a source
   to a sink: both explanations are chains of edges of the system ending at the same site *)
Theorem C05_explanations_are_paths : forall facts annots ts st,
  pkg_run facts annots ts st ->
  forall c, In c (conflicts st) -> conflict_ok (pkg_csys facts annots ts) c.
Proof. exact engine_sound. Qed.
Print Assumptions C05_explanations_are_paths.

(* when no such path exists, each site ends nilable exactly if a source reaches it and non-nil exactly
   if it reaches a sink *)
Theorem C05_verdicts : forall facts annots ts st,
  pkg_run facts annots ts st -> ~ has_flow (pkg_csys facts annots ts) ->
  forall s, (dv st s = Some true <-> nilr (pkg_csys facts annots ts) s) /\
            (dv st s = Some false <-> nonr (pkg_csys facts annots ts) s).
Proof. exact engine_verdicts. Qed.
Print Assumptions C05_verdicts.

(* none of this depends on the order in which facts, annotations and triggers are observed *)
Theorem C05_order_independent : forall facts facts' annots annots' ts ts' st st',
  Permutation facts facts' -> Permutation annots annots' -> Permutation ts ts' ->
  pkg_run facts annots ts st -> pkg_run facts' annots' ts' st' ->
  (conflicts st <> [] <-> conflicts st' <> []) /\
  (conflicts st = [] -> forall s, dv st s = dv st' s).
Proof. exact engine_order_independent. Qed.
Print Assumptions C05_order_independent.

(* the executable function that the correspondence suite runs against the real engine is such a run *)
Theorem C05_executable_is_a_run : forall exported fuel facts annots ts r,
  analyze_pkg exported fuel facts annots ts = Finished r \/ analyze_pkg exported fuel facts annots ts = Panicked r ->
  exists st, pkg_run facts annots ts st /\ r_conflicts r = conflicts st /\ r_map r = mp st.
Proof. exact analyze_pkg_run. Qed.
Print Assumptions C05_executable_is_a_run.

(* the engine terminates on every well-formed input (no controlled trigger feeds a controlling site) *)
Theorem C05_terminates : forall facts annots ts,
  wf_triggers ts -> exists st, pkg_run facts annots ts st.
Proof. exact engine_terminates. Qed.
Print Assumptions C05_terminates.

(* non-vacuity: a concrete input with an imported edge, an annotation, a controlled trigger and a
   planted source-to-sink path runs to completion and reports the flow *)
Example C05_example : exists st, pkg_run ex_facts ex_annots ex_ts st /\ conflicts st <> [] /\ wf_triggers ex_ts.
Proof. exact ex_runs. Qed.
