(* C14 -- Every diagnostic points at a real source line and carries a coherent flow (model M2b). Partial: the
   file system and the drivers are outside any model; those halves are decided by the whole-tool oracle. *)
From Coq Require Import List Bool Arith ZArith.
From NM Require Import Diag Report.
From NG Require Import Consts.
From NP Require Import ReportProofs.
Import ListNotations.

(* the reported position of an over-constraint conflict is the position of the last step of its non-nil chain,
   and that last step is the last node of the printed flow *)
Theorem C14_report_pos : forall id nil_chain nonnil_chain r,
  nonnil_chain <> [] -> last nonnil_chain r = r ->
  c_pos (over_conflict id nil_chain nonnil_chain) = rs_pos r /\
  last (c_nonnil (over_conflict id nil_chain nonnil_chain)) (rs_node r) = rs_node r.
Proof. intros. split; [now apply over_conflict_pos | now apply over_conflict_last_step]. Qed.
Print Assumptions C14_report_pos.

(* the flow lists at least one step; no step of either chain is dropped *)
Theorem C14_flow_nonempty : forall id nil_chain nonnil_chain,
  nonnil_chain <> [] -> c_nonnil (over_conflict id nil_chain nonnil_chain) <> [] /\
  length (c_nonnil (over_conflict id nil_chain nonnil_chain)) = length nonnil_chain /\
  length (c_nil (over_conflict id nil_chain nonnil_chain)) = length nil_chain.
Proof. exact over_conflict_flow. Qed.
Print Assumptions C14_flow_nonempty.

Theorem C14_single : forall id p n src, c_pos (single_conflict id p n src) = p /\ c_nonnil (single_conflict id p n src) = [n].
Proof. exact single_conflict_flow. Qed.
Print Assumptions C14_single.

(* a position in a file the file set does not (really) contain still becomes a valid position on the same
   line, for EVERY line number and whatever fake file already exists (over the regenerated constant and guards) *)
Theorem C14_to_pos_total : forall existing line, (1 <= line)%Z -> to_pos existing line = Some line.
Proof. exact to_pos_total. Qed.
Print Assumptions C14_to_pos_total.

(* the pinned code (fixed 64K-line fake files, never regrown) could panic: finding F16, repaired *)
Theorem C14_to_pos_refuted_before_fix : to_pos_fake fake_file_max_lines false false None 70000 = None.
Proof. exact to_pos_unguarded_refuted. Qed.
