#!/bin/sh
# (re)generate the Makefile from the files present and build the given targets (default: all), full .vo build
cd "$(dirname "$0")" || exit 2
{ cat _CoqProject; find model gen proofs props -name '*.v' | sort; } > _CoqProject.all
coq_makefile -f _CoqProject.all -o Makefile >/dev/null 2>&1 || exit 2
exec make -j16 "$@"
